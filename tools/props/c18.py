"""C18 The generated Lua binding is call-equivalent to the wrapped library.

Proof: lean/ShroudVerif/Props/C18.lean over Model/LuaDispatch.lean (what Wrapl.wrap_function writes
for the overloads of one Lua name, and what that text does on a Lua stack).
Tie (T): typemap LUA_type / LUA_pop / LUA_push and the lua_statements entries of the admitted subset.
Tie (D): the dispatch skeleton parsed from the text the real Wrapl emits for generated libraries
         vs `gen` of the Lean model; the outcome of the compiled binding on a Lua C-API emulator
         vs `run` of the Lean model.
Oracle: the compiled binding + instrumented library on the emulator vs the property computed from
        the declarations in Python (no model).
"""
import json
import os
import random
import re
import subprocess

from tools import common, shroudrun
from tools.gen import luagen

LEVEL = "proof"
MANIFEST = dict(
    category="proof",
    text="Lean 4 theorems (57, no hypotheses on size) over a hand model of wrapl.Wrapl.wrap_function/do_function/wrap_functions "
         "(all_calls = one call per overload and per omitted-default prefix, by_count, the emitted switch/if-chain with its lua_type "
         "tests, pop indices, object index, result counts, luaL_Reg tables) and of what the emitted skeleton does on a Lua stack. "
         "dispatch_correct: for EVERY Lua name (one signature or many; free function, constructor, method, destructor), every "
         "overload set with at most one argument-less signature, every object test and every stack, the call made is the first "
         "signature in declaration order whose Lua tags equal the arguments', with the stack values in order (methods: above the "
         "object at index 1) and that overload's own result count; otherwise luaL_error and no call (never_a_wrong_call, "
         "no_match_is_an_error, single_call_checked); overloads with equal tags: earlier wins, every distinguishable signature is "
         "reached; a class-pointer argument must be a userdata of the parameter's class, otherwise luaL_error before the library is "
         "called and no fall-through to a later overload (wrong_class_argument_is_an_error); whether a parameter is defaulted "
         "does not depend on the default's value (hasInit; 0, 0.0, false and \"\" are generated). Registration: every ast.name is gathered into one group/C function/table entry (groups_*), a Lua name reaches "
         "its own C function iff names in the table are distinct, otherwise the later entry wins (lookupReg_*, classRegs_reaches); "
         "namespace tree (pre-order with depths and wrap.lua flags; the model, not the harness, decides which scopes are visited): the "
         "visited scopes depend on depths and flags only, never on what a scope contains (visit_independent_of_content), with all "
         "namespaces on every scope at every depth is visited (visit_all) and every function group and constructor group at any "
         "depth is in the module table and its class's metatable is created (every_function_registered, "
         "every_constructor_registered); a switched-off namespace hides exactly its subtree; "
         "metatable identity by NAME per site (luaL_newmetatable in luaopen for every wrapped class incl. classes with an empty "
         "method table, luaL_getmetatable in constructors, luaL_checkudata of the object and of class-pointer arguments): one name "
         "per class at all sites, so a constructed object is accepted by its own methods and wherever its class is an argument, "
         "rejected under any other name, and a name nobody created is accepted nowhere (registry_complete, constructed_accepted_*, "
         "constructed_rejected_by_other_name, uncreated_name_accepted_nowhere, method_on_constructed_named); "
         "which class a class argument means: find_lua_classes / class_arg_pop are modelled as a Python dict keyed by the "
         "class's fully qualified typemap name (luaClassesFrom, dictGet: later insert wins; classArgPop: own class or the "
         "'wrapped by another library' path): for every list of wrapped classes with distinct qualified names - equal unqualified "
         "names in different namespaces included - an argument declared with a class's name is read through THAT class's userdata "
         "struct and metatable name (class_arg_own_class, class_arg_found_is_the_type, constructed_accepted_as_named_argument), "
         "an unknown type takes the foreign path (class_arg_unknown_is_foreign), for any keying the class found has the key asked "
         "for (class_arg_found_has_key) and keyed by the unqualified name the statement is false (unqualified_key_confuses); "
         "registration tables: with pairwise distinct Lua names every function group and constructor group of the module table "
         "reaches its own dispatcher (moduleRegs_reaches; classRegs_reaches for method tables), with equal names the earlier one is "
         "unreachable (equal_names_earlier_unreachable); default names (userdata typedef, luaL_Reg array, metatable, constructor "
         "name) are functions of the unqualified class name: equal iff the unqualified names are equal (default_names_eq_iff), "
         "two same-named classes of different namespaces define the typedef and the array twice whatever else is wrapped "
         "(same_unqualified_name_clashes), distinct names never clash (distinct_default_names_no_redefinition), a shared metatable "
         "name makes each class accept the other's objects (shared_metatable_name_confuses); "
         "objects: a constructor's userdata passes the object test of its own class only (method_on_constructed / "
         "method_on_foreign_object), any number of __gc calls runs the destructor once (gc_runs_destructor_once). No _partial "
         "statement is left; *_before_fix / old_* theorems are negation witnesses for the bodies written before the fix: commits.",
    design="3 C18",
    note="Ties, every run: (T) typemap LUA_type/LUA_pop/LUA_push and the lua_statements rows of the admitted subset; (D1) the "
         "dispatch skeleton of every Lua name parsed from the text the real Wrapl emits (case labels, if-chains, tested indices and "
         "tags, pop index per call argument, object index, result counts, else/default luaL_error, dtor body) == Lean `gen`; (D2) "
         "the luaL_Reg tables parsed from the text == Lean moduleRegs/classRegs computed from Shroud's JSON dump, and the metatable "
         "name at every site of the text (created / attached / demanded / demanded of an argument) == the model's, computed from the "
         "class node's LUA_metadata; (D4) the class index of every class-pointer parameter in the `gen` request is the answer of the "
         "Lean classArgPop (driver op argcls) on the typemap names of the wrapped classes in Shroud's JSON dump, so the emitted "
         "metatable name per class argument (and the userdata struct it is read through, against the class's LUA_userdata_type) is "
         "compared with the model's resolution; (D5) library luaclash (two same-named classes, no overrides, every run): the four "
         "default names of every pair of class nodes in the JSON dump coincide iff the unqualified names do (evaluated in the "
         "harness, not through the driver), and the oracle reads the duplicate typedef / array / metatable / constructor names "
         "from the emitted files and compiles them: open finding class-name-clash (does not compile); (D3) the outcome of "
         "the compiled binding on the emulator == Lean `run`. Oracle (no model): the binding compiled with g++ against "
         "tools/ccheck/luaemu and an instrumented library, called with every offered signature (every arity from the first default "
         "to all parameters), one-tag-off variants at every position, wrong counts, random shapes, wrong/foreign/missing objects, "
         "__gc twice; verdict from the declarations in Python. Generated libraries: 0..6 parameters of mixed tags, defaults starting "
         "at every position, default values over zero/non-zero/empty for every kind, class-pointer arguments of the own and of "
         "another wrapped class (right class, other class, userdata without metatable), two wrapped classes with the same unqualified "
         "name in different namespaces (either one carrying the format overrides that keep the C names apart) as arguments of "
         "library functions, of each other's methods, at stack positions 1..3 and overloaded on the class (fixed library on every "
         "run, 40% of the random ones), user-chosen metatable names (format "
         "field, class-level and library-level LUA_metadata_template), classes that register no method (constructors only) and "
         "are passed as arguments, namespace trees up to depth 4 whose nodes hold functions / only classes / only namespaces / "
         "nothing / are switched off, libraries without free functions, classes inside namespaces, overloads incl. same-tag and "
         "void/non-void mixes, classes with overloaded "
         "constructors, const/static methods, a namespace. Trusted / modelled-not-verified: Lean kernel; the hand model; the "
         "emulator (written from the Lua 5.3 manual; no real Lua headers or interpreter installed); g++ (which C++ overload the "
         "emitted call selects is observed, not modelled); the JSON dump as the source of ast.name/LUA_name/LUA_name_impl. Not "
         "covered: char* (no lua_statements entry); classes wrapped by another library (the foreign path is modelled - "
         "class_arg_unknown_is_foreign - but neither generated nor driven); intent(out)/inout arguments: on the current code "
         "out_args is never filled, the argument is counted as an input, never declared, and lua_push of 'XXXpush_arg' is written - "
         "the binding does not compile (unfinished upstream feature outside the property's quantifier, not generated); equal Lua "
         "names from different scopes (and equal default C names l_<Class>_Type of same-named classes without format overrides) "
         "are characterised (later wins), not prevented. Class arguments by reference and by value are generated in the fixed "
         "library since fix 0b01d62 (before it they did not compile): same model as by pointer (userdata of the parameter's class "
         "at the argument's index), the instrumented library records the identity of the object (or of the copy) it receives.",
    technique="Lean 4 proof (induction over the call list / registration list) + differential correspondence on emitted text, on "
              "registration tables and on the compiled binding driven through a C emulator of the Lua API",
)
MODULES = ["ShroudVerif.Props.C18"]
THEOREMS = {
    "ShroudVerif.Props.C18": [
        "Shroud.LuaDispatch.luaCalls_spec",
        "Shroud.LuaDispatch.luaCalls_full",
        "Shroud.LuaDispatch.luaCalls_nresults",
        "Shroud.LuaDispatch.dispatch_correct",
        "Shroud.LuaDispatch.single_call_checked",
        "Shroud.LuaDispatch.never_a_wrong_call",
        "Shroud.LuaDispatch.no_match_is_an_error",
        "Shroud.LuaDispatch.indistinguishable_earlier_wins",
        "Shroud.LuaDispatch.distinguishable_is_reached",
        "Shroud.LuaDispatch.distinguishable_is_reached_method",
        "Shroud.LuaDispatch.argument_indices",
        "Shroud.LuaDispatch.idxFrom_get",
        "Shroud.LuaDispatch.argument_read_from",
        "Shroud.LuaDispatch.zero_arg_calls_both_run",
        "Shroud.LuaDispatch.wrong_class_argument_is_an_error",
        "Shroud.LuaDispatch.argsOk_ctorValue",
        # registration and objects
        "Shroud.LuaDispatch.groups_cover",
        "Shroud.LuaDispatch.groups_names_nodup",
        "Shroud.LuaDispatch.groups_head",
        "Shroud.LuaDispatch.lookupReg_none",
        "Shroud.LuaDispatch.lookupReg_of_nodup",
        "Shroud.LuaDispatch.lookupReg_later_wins",
        "Shroud.LuaDispatch.mem_classRegs",
        "Shroud.LuaDispatch.classRegs_reaches",
        "Shroud.LuaDispatch.ctor_value_accepted",
        "Shroud.LuaDispatch.ctor_value_rejected",
        "Shroud.LuaDispatch.method_on_constructed",
        "Shroud.LuaDispatch.method_on_foreign_object",
        "Shroud.LuaDispatch.gc_runs_destructor_once",
        # one metatable name per class at every site (luaopen, constructors, object test, class-pointer arguments)
        "Shroud.LuaDispatch.registry_complete",
        "Shroud.LuaDispatch.constructed_accepted_by_own_methods",
        "Shroud.LuaDispatch.constructed_accepted_as_argument",
        "Shroud.LuaDispatch.constructed_rejected_by_other_name",
        "Shroud.LuaDispatch.uncreated_name_accepted_nowhere",
        "Shroud.LuaDispatch.method_on_constructed_named",
        # which class a class argument means (find_lua_classes / class_arg_pop keyed by the qualified name)
        "Shroud.LuaDispatch.class_arg_own_class",
        "Shroud.LuaDispatch.class_arg_unknown_is_foreign",
        "Shroud.LuaDispatch.class_arg_found_has_key",
        "Shroud.LuaDispatch.class_arg_found_is_the_type",
        "Shroud.LuaDispatch.unqualified_key_confuses",
        "Shroud.LuaDispatch.constructed_accepted_as_named_argument",
        # registration tables and default names: distinct names <-> own dispatcher; same unqualified class name -> clash
        "Shroud.LuaDispatch.moduleRegs_reaches",
        "Shroud.LuaDispatch.equal_names_earlier_unreachable",
        "Shroud.LuaDispatch.default_names_eq_iff",
        "Shroud.LuaDispatch.same_unqualified_name_clashes",
        "Shroud.LuaDispatch.distinct_default_names_no_redefinition",
        "Shroud.LuaDispatch.shared_metatable_name_confuses",
        # the namespace tree: which scopes are visited, registration completeness at any depth
        "Shroud.LuaDispatch.visit_independent_of_content",
        "Shroud.LuaDispatch.visit_all",
        "Shroud.LuaDispatch.mem_moduleRegs_fn",
        "Shroud.LuaDispatch.mem_moduleRegs_ctor",
        "Shroud.LuaDispatch.every_function_registered",
        "Shroud.LuaDispatch.every_constructor_registered",
        # historical negation witnesses (bodies written before the fix: commits)
        "Shroud.LuaDispatch.single_call_unchecked_before_fix",
        "Shroud.LuaDispatch.single_call_statement_false_before_fix",
        "Shroud.LuaDispatch.old_method_dispatch_wrong",
        "Shroud.LuaDispatch.old_method_single_reads_object",
    ]
}

EMU = os.path.join(common.VERIF, "tools", "ccheck", "luaemu")
TAGS = {"LUA_TNONE": "x", "LUA_TNIL": "z", "LUA_TBOOLEAN": "b", "LUA_TLIGHTUSERDATA": "l", "LUA_TNUMBER": "n",
        "LUA_TSTRING": "s", "LUA_TTABLE": "t", "LUA_TFUNCTION": "f", "LUA_TUSERDATA": "u", "LUA_TTHREAD": "h"}
POPFN = {"int": "lua_tointeger", "float": "lua_tonumber", "bool": "lua_toboolean", "string": "lua_tostring",
         "object": "luaL_checkudata"}


# ====================================================================== real Shroud
def emit(lib, d):
    """Run the real Shroud on the library; returns (module text, header text) or raises."""
    y = shroudrun.write_yaml(d, lib.name + ".yaml", lib.yaml())
    cfg, exc, out = shroudrun.run_inproc([y], d)
    if exc is not None:
        raise RuntimeError("shroud failed on generated library: %r %s" % (exc, out[-500:]))
    mod = os.path.join(d, "lua%smodule.cpp" % lib.name)
    hdr = os.path.join(d, "lua%smodule.hpp" % lib.name)
    return open(mod).read(), (open(hdr).read() if os.path.exists(hdr) else None)


# ====================================================================== parse the emitted text
def _strip_comments(t):
    t = re.sub(r"/\*.*?\*/", " ", t, flags=re.S)
    t = re.sub(r"//[^\n]*", " ", t)
    return t


def _match_brace(t, i):
    """t[i] == '{' -> index just after the matching '}'."""
    depth = 0
    for j in range(i, len(t)):
        if t[j] == "{":
            depth += 1
        elif t[j] == "}":
            depth -= 1
            if depth == 0:
                return j + 1
    raise ValueError("unbalanced braces")


def split_module(text):
    """{C function name: body text}, reg tables {table: [(lua name, cfunc)]}, metatable of each class
    reg table, name of the module reg table."""
    t = _strip_comments(text)
    funcs = {}
    for m in re.finditer(r"static int (\w+)\(lua_State \*\w*\)\s*\{", t):
        end = _match_brace(t, m.end() - 1)
        funcs[m.group(1)] = re.sub(r"\s+", " ", t[m.end():end - 1]).strip()
    regs = {}
    for m in re.finditer(r"static const struct luaL_Reg (\w+) \[\] = \{(.*?)\};", t, flags=re.S):
        regs[m.group(1)] = re.findall(r'\{"([^"]+)",\s*(\w+)\}', m.group(2))
    metas = {}
    for m in re.finditer(r'luaL_newmetatable\(L, "([^"]+)"\);(.*?)luaL_setfuncs\(L, (\w+), 0\);', t, flags=re.S):
        metas[m.group(3)] = m.group(1)
    mm = re.search(r"luaL_newlib\(L, (\w+)\);", t)
    return funcs, regs, metas, (mm.group(1) if mm else None)


class ParseError(Exception):
    pass


def parse_emit(blk, group, classes=()):
    """One do_function body -> dict(ov, self, pops, nres, pushes, popfn_ok, ncalls)."""
    names = {}
    objcls = {}
    objudt = {}
    # class-pointer argument: the userdata of the argument's class at the argument's index
    for m in re.finditer(r'(\w+) = \*?\(\((\w+) \*\) luaL_checkudata\( ?L, (\d+), "([^"]*)"\)\)->(\w+);', blk):
        names[m.group(1)] = ("luaL_checkudata", int(m.group(3)))
        cn = m.group(4)                 # `classes`: the metatable name of every class, by class index
        objcls[m.group(1)] = (list(classes).index(cn) + 1) if cn in classes else -1
        objudt[m.group(1)] = m.group(2)
    for m in re.finditer(r"(\w+) = (?:static_cast<[^>]*>\()?\s*(lua_to\w+)\( ?L, (\d+)\)", blk):
        names[m.group(1)] = (m.group(2), int(m.group(3)))
    for m in re.finditer(r"const std::string (\w+)\( ?(lua_to\w+)\( ?L, (\d+)\)\)", blk):
        names[m.group(1)] = (m.group(2), int(m.group(3)))
    sm = re.search(r'SH_this = \(\w+ \*\) luaL_checkudata\( ?L, (\d+), "([^"]*)"\)', blk)
    selfidx = int(sm.group(1)) if sm else None
    # the library call
    fn0 = group.fns[0]
    if group.kind == "ctor":
        calls = re.findall(r"new (?:\w+::)*%s\(([^()]*)\)" % re.escape(luagen.short(group.cls)), blk)
    elif group.kind == "dtor":
        # the pointer is cleared after the delete: a second __gc deletes NULL
        calls = re.findall(r"delete SH_this->self; SH_this->self = NULL;()", blk)
    elif group.kind == "method":
        calls = re.findall(r"SH_this->self->%s\(([^()]*)\)" % re.escape(fn0.name), blk)
    else:
        calls = re.findall(r"(?<![\w>])(?:\w+::)*%s\(([^()]*)\)" % re.escape(fn0.name), blk)
    if len(calls) != 1:
        raise ParseError("%d library calls in one block of %s: %s" % (len(calls), group.luaname, blk[:200]))
    args = [a.strip() for a in calls[0].split(",") if a.strip()]
    ov = None
    for i, f in enumerate(group.fns):
        if [p.name for p in f.params[:len(args)]] == args and len(args) in f.calls():
            ov = i
            break
    if ov is None:
        raise ParseError("call %s(%s) is none of the declared signatures" % (fn0.name, ", ".join(args)))
    pops, ok, acls, audt = [], True, [], []
    for a, p in zip(args, group.fns[ov].params):
        if a not in names:
            raise ParseError("argument %s of %s is never read from the stack" % (a, fn0.name))
        pops.append(names[a][1])
        acls.append(objcls.get(a))
        audt.append(objudt.get(a))
        ok = ok and names[a][0] == POPFN[p.kind]
    rm = re.findall(r"SH_nresult = (\d+);|return (\d+);", blk)
    nres = [int(a or b) for a, b in rm]
    if len(nres) != 1:
        raise ParseError("result count not found in %s" % blk[:200])
    pushes = len(re.findall(r"lua_push\w+\(|lua_newuserdata\(", blk))
    return dict(ov=ov, self=selfidx, pops=pops, nres=nres[0], pushes=pushes, popfn_ok=ok, acls=acls, audt=audt,
                extra_reads=sorted(set(names) - set(args)))


def enc_emit(e):
    t = "ov=%d/self=%s/pops=%s/nres=%d" % (e["ov"], "-" if e["self"] is None else e["self"],
                                          ",".join(map(str, e["pops"])) or "-", e["nres"])
    if any(c is not None for c in e.get("acls", [])):
        t += "/acls=" + ",".join("-" if c is None else str(c) for c in e["acls"])
    return t


def parse_body(body, group, classes=()):
    """Function body -> (canonical skeleton string as the Lean driver prints it, [emit dicts])."""
    emits = []
    if "switch (SH_nargs)" not in body:
        e = parse_emit(body, group, classes)
        emits.append(e)
        return "single " + enc_emit(e), emits
    m = re.search(r"int SH_nargs = lua_gettop\(L\)(?: - (\d+))?;", body)
    if not m:
        raise ParseError("SH_nargs not found")
    off = int(m.group(1) or 0)
    itype = {int(a): int(b) for a, b in re.findall(r"int SH_itype(\d+) = lua_type\(L, (\d+)\);", body)}
    sw = body.index("switch (SH_nargs) {")
    end = _match_brace(body, body.index("{", sw))
    inner = body[body.index("{", sw) + 1:end - 1]
    tail = body[end:]
    flags = []
    if not re.search(r"return SH_nresult;", tail):
        flags.append("!noreturn")
    labels = list(re.finditer(r"\bcase (\d+):|\bdefault:", inner))
    cases = []
    has_default = False
    for k, lm in enumerate(labels):
        seg = inner[lm.end():labels[k + 1].start() if k + 1 < len(labels) else len(inner)]
        if lm.group(0) == "default:":
            has_default = "luaL_error(" in seg
            continue
        n = int(lm.group(1))
        if not seg.rstrip().endswith("break;"):
            flags.append("!nobreak@%d" % n)
        i = 0
        branches = []
        else_error = False
        while True:
            mm = re.compile(r"\s*(else if|if) \(([^()]*)\) \{").match(seg, i)
            if mm:
                bend = _match_brace(seg, mm.end() - 1)
                checks = []
                for c in mm.group(2).split("&&"):
                    cm = re.match(r"\s*SH_itype(\d+) == (LUA_T\w+)\s*$", c)
                    if not cm:
                        raise ParseError("unreadable condition %r" % c)
                    checks.append("%d:%s" % (itype[int(cm.group(1))], TAGS[cm.group(2)]))
                e = parse_emit(seg[mm.end():bend - 1], group, classes)
                emits.append(e)
                branches.append("&".join(checks) + ">" + enc_emit(e))
                i = bend
                continue
            mm = re.compile(r"\s*else \{").match(seg, i)
            if mm:
                bend = _match_brace(seg, mm.end() - 1)
                else_error = "luaL_error(" in seg[mm.end():bend]
                i = bend
                continue
            mm = re.compile(r"\s*\{").match(seg, i)
            if mm:
                bend = _match_brace(seg, mm.end() - 1)
                e = parse_emit(seg[mm.end():bend - 1], group, classes)
                emits.append(e)
                branches.append("->" + enc_emit(e))
                i = bend
                continue
            break
        if n > 0 and not else_error:
            flags.append("!noelse@%d" % n)
        cases.append("%d{%s}" % (n, ";".join(branches)))
    if not has_default:
        flags.append("!nodefault")
    return ("switch %d %s" % (off, " ".join(cases + flags))).rstrip(), emits


def class_info(jpath):
    """Wrapped classes in declaration (pre-order) order from Shroud's JSON dump: name and the format fields
    LUA_metadata / LUA_class_reg / LUA_ctor_name as the class node holds them after wrapping."""
    j = json.load(open(jpath))["library"]
    out = []

    def walk(node, scope):
        for c in node.get("classes", []):
            if c.get("wrap", {}).get("lua"):
                fd = c.get("fmtdict", {})
                out.append(dict(name=c["name"], qname=scope + c["name"], tmname=c.get("typemap_name", scope + c["name"]),
                                meta=fd.get("LUA_metadata"), reg=fd.get("LUA_class_reg"),
                                ctor=fd.get("LUA_ctor_name"), udt=fd.get("LUA_userdata_type")))
        for ns in node.get("namespaces", []):
            if ns.get("wrap", {}).get("lua"):
                walk(ns, scope + ns["name"] + "::")

    walk(j, "")
    return out


def ci_for(cinfo, key):
    """The wrapped class a harness class key means: the qualified name when the key is one, else the
    (then unique) unqualified name."""
    for ci in cinfo:
        if ci["qname"] == key:
            return ci
    for ci in cinfo:
        if ci["name"] == key:
            return ci
    return None


def resolve_class_args(drv, cinfo, lib):
    """The Lean model's `classArgPop` on Shroud's own table: keys = typemap name of every wrapped class in
    the order they are visited (JSON dump), queries = the type every class-pointer parameter is declared
    with.  Returns {declared type: 1-based class index or None (foreign)}."""
    ids = {}

    def q(name):
        return ".".join(str(ids.setdefault(x, len(ids) + 1)) for x in name.split("::"))

    types = sorted(set(p.ocls for g in lib.groups for f in g.fns for p in f.params if p.kind == "object"))
    if not types:
        return {}
    out = drv.run(["argcls %s %s" % (",".join(q(ci["tmname"]) for ci in cinfo) or "-", ",".join(q(t) for t in types))])[0]
    res = {}
    for t, a in zip(types, out.split(",")):
        res[t] = int(a[1:]) + 1 if a.startswith("o") else None
    return res


def locate(group, regs, metas, modreg, cinfo=()):
    """C function implementing the group, and the metatable name for methods."""
    if group.kind in ("free", "ctor"):
        table = modreg
    else:
        ci = ci_for(cinfo, group.cls)
        table = ci["reg"] if ci else None
    if table is None or table not in regs:
        return None, None
    hits = [c for (n, c) in regs[table] if n == group.luaname]
    if len(hits) != 1:
        return None, None
    return hits[0], (metas.get(table) if group.kind in ("method", "dtor") else None)


def registration_request(jpath):
    """From Shroud's JSON dump: the `regs` request for the Lean driver and the id -> string table."""
    j = json.load(open(jpath))["library"]
    ids = {"__gc": 0}

    def I(x):
        return ids.setdefault(x, len(ids))

    def fn(f, firsts):
        a = f["ast"].get("attrs", {})
        k = "c" if a.get("_constructor") else "d" if a.get("_destructor") else None
        fd = f.get("fmtdict", {})
        nm = fd.get("function_name") or a.get("_name") or f["ast"].get("declarator", {}).get("name")
        return nm, fd.get("LUA_name"), fd.get("LUA_name_impl"), k

    def fns(lst, in_class):
        out = []
        for f in lst:
            if not f.get("wrap", {}).get("lua"):
                continue
            nm, lua, impl, k = fn(f, None)
            k = k or ("m" if in_class else "f")
            out.append("%d.%d.%d.%s" % (I(nm), I(lua or "?" + nm), I(impl or "?impl" + nm + str(len(out))), k))
        return ",".join(out) or "-"

    scopes = []

    def walk(node, depth):
        # the whole tree in pre-order, switched-off namespaces included: which scopes are visited is the model's business
        cls = []
        for c in node.get("classes", []):
            if not c.get("wrap", {}).get("lua"):
                continue
            cls.append("%d~%d@%s" % (I(c["fmtdict"].get("LUA_ctor_name", c["name"])),
                                     I("meta:" + str(c["fmtdict"].get("LUA_metadata"))), fns(c.get("functions", []), True)))
        on = depth == 0 or bool(node.get("wrap", {}).get("lua"))
        scopes.append("%d+%d+%s#%s" % (depth, 1 if on else 0, ";".join(cls) or "-", fns(node.get("functions", []), False)))
        for ns in node.get("namespaces", []):
            walk(ns, depth + 1)

    walk(j, 0)
    return "regs " + "/".join(scopes), {v: k for k, v in ids.items()}


def check_registration(ctx, lib, d, regs, modreg, drv, stats, sites):
    req, names = registration_request(os.path.join(d, lib.name + ".json"))
    out = drv.run([req])[0]
    ctx.count(1)

    def dec(t):
        t = t.split("=", 1)[1]
        return [] if t == "-" else [(names[int(a)], names[int(b)]) for a, b in (p.split(">") for p in t.split(","))]

    parts = out.split(" ")
    model_mod = dec(parts[0])
    model_cls = [dec(p) for p in parts[1:] if p.startswith("C=")]

    def mname(i):
        return names[int(i)][5:]            # strip "meta:"

    rpart = [p for p in parts if p.startswith("R=")][0][2:]
    model_registry = [] if rpart == "-" else [mname(i) for i in rpart.split(",")]
    model_sites = []
    for p in parts:
        if p.startswith("S="):
            cr, at, de = p[2:].split(":")
            model_sites.append((None if cr == "-" else mname(cr), mname(at), mname(de)))
    text = sites["text"]
    real_registry = re.findall(r'luaL_newmetatable\(L, "([^"]*)"\);', text)
    cinfo = sites["cinfo"]
    real_sites = []
    for ci in cinfo:
        ctor_funcs = [c for (n, c) in regs.get(modreg, []) if n == ci["ctor"]]
        meth_funcs = [c for (n, c) in regs.get(ci["reg"], [])]
        attached = sorted(set(m for f in ctor_funcs for m in re.findall(r'luaL_getmetatable\( ?L, "([^"]*)"\)', sites["funcs"].get(f, ""))))
        demanded = sorted(set(m for f in meth_funcs
                              for m in re.findall(r'SH_this = \(\w+ \*\) luaL_checkudata\( ?L, 1, "([^"]*)"\)', sites["funcs"].get(f, ""))))
        real_sites.append((attached, demanded))
    stats["meta_sites"] += len(real_registry) + sum(len(a) + len(d_) for a, d_ in real_sites)
    bad_sites = []
    if real_registry != model_registry:
        bad_sites.append({"created in luaopen": real_registry, "model": model_registry})
    for ci, (cr, at, de), (attached, demanded) in zip(cinfo, model_sites, real_sites):
        if attached and attached != [at]:
            bad_sites.append({"class": ci["name"], "attached by constructors": attached, "model": at})
        if demanded and demanded != [de]:
            bad_sites.append({"class": ci["name"], "demanded by methods": demanded, "model": de})
        if ci["meta"] not in (None, at):
            bad_sites.append({"class": ci["name"], "LUA_metadata of the class": ci["meta"], "model": at})
    if bad_sites or len(model_sites) != len(cinfo):
        ctx.tie_broken("lua-metatable-names", {"library": lib.name, "sites": bad_sites[:4]})
    for node in req.split(" ", 1)[1].split("/"):
        dpt, on, sc = node.split("+", 2)
        cs, fs = sc.split("#")
        kind = ("off" if on == "0" else "empty" if (cs, fs) == ("-", "-") else "classes-only" if fs == "-" else
                "functions-only" if cs == "-" else "classes+functions")
        k = "depth=%s %s" % (dpt, kind)
        stats["scope_hist"][k] = stats["scope_hist"].get(k, 0) + 1
    for ci in cinfo:
        if ci["meta"] and ci["meta"] != ci["name"] + ".metatable":
            stats["custom_meta_classes"] += 1
        if not regs.get(ci["reg"]):
            stats["empty_method_table_classes"] += 1
    real_mod = [tuple(x) for x in regs.get(modreg, [])]
    real_cls = [[tuple(x) for x in v] for k, v in regs.items() if k != modreg]
    stats["reg_tables"] += 1 + len(real_cls)
    stats["reg_entries"] += len(real_mod) + sum(len(c) for c in real_cls)
    if model_mod != real_mod or model_cls != real_cls:
        ctx.tie_broken("lua-registration-tables", {"library": lib.name, "model": [model_mod] + model_cls,
                                                   "emitted": [real_mod] + real_cls})
    # every Lua name once per table (the generator gives distinct names: a duplicate is the wrapper's doing)
    for t in [real_mod] + real_cls:
        ns = [n for n, _ in t]
        dup = sorted(set(n for n in ns if ns.count(n) > 1))
        if dup:
            ctx.fail("duplicate-registration:%s:%s" % (lib.name, ",".join(dup)),
                     "Lua name(s) %s registered more than once in one table: the earlier C function is unreachable" % dup,
                     {"yaml": lib.yaml(), "header": lib.header()})


# ====================================================================== Lua semantics used by the expectation
def lua_convert(val, kind):
    """What lua_tointeger / lua_tonumber / lua_toboolean / lua_tostring answer for a pushed value
    (Lua 5.3 manual); None for a NULL string."""
    t = val[0]
    if kind == "object":
        return val[2] if t == "o" else None
    if kind == "bool":
        return not (t in ("z", "x") or (t == "b" and not val[1]))
    if kind in ("int", "float"):
        if t in ("i", "d"):
            v = val[1]
        elif t == "s":
            try:
                v = int(val[1].strip())
            except ValueError:
                try:
                    v = float(val[1].strip())
                except ValueError:
                    return 0
        else:
            return 0
        if kind == "float":
            return float(v)
        if isinstance(v, float):
            return int(v) if v == int(v) else 0
        return v
    # string
    if t == "s":
        return val[1]
    if t == "i":
        return str(val[1])
    if t == "d":
        return "%.14g" % val[1] if val[1] != int(val[1]) else "%.1f" % val[1]
    return None


def tag_of(val):
    return {"i": "n", "d": "n", "b": "b", "s": "s", "z": "z", "t": "t", "f": "u", "o": "u", "x": "x"}[val[0]]


def fmt_trace_arg(v, kind):
    if kind == "object":
        return "o:%d" % v
    if kind == "int":
        return "i:%d" % v
    if kind == "float":
        return "d:%s" % ("%.17g" % v)
    if kind == "bool":
        return "b:%d" % (1 if v else 0)
    return "s:" + (v.encode().hex() or "-")


def enc_arg(val):
    t = val[0]
    if t in ("z", "t", "f"):
        return t
    if t == "i":
        return "i:%d" % val[1]
    if t == "d":
        return "d:%r" % val[1]
    if t == "b":
        return "b:%d" % (1 if val[1] else 0)
    if t == "s":
        return "s:" + (val[1].encode().hex() or "-")
    if t == "o":
        return "o:%d" % val[1]          # handle in the driver's keep list
    raise ValueError(val)


# ====================================================================== stacks
OTHER = {"n": ["s", "b", "z", "t"], "b": ["n", "s", "z"], "s": ["n", "b", "z", "u"], "u": ["n", "s", "z", "t"]}


def value_for(r, tag, kind=None, ctr=[0]):
    ctr[0] += 1
    k = 3 + (ctr[0] * 7) % 90
    if tag == "n":
        if kind == "float" and r.random() < 0.5:
            return ("d", k + 0.5)
        if kind is None and r.random() < 0.3:
            return ("d", k + 0.5)
        return ("i", k)
    if tag == "b":
        return ("b", r.random() < 0.5)
    if tag == "s":
        return ("s", "s%dx" % k)
    if tag == "z":
        return ("z",)
    if tag == "t":
        return ("t",)
    if tag == "u":
        return ("f",)
    raise ValueError(tag)


def shapes_for(r, group, thorough):
    """Argument tag lists to try: every offered signature, plus near misses and wrong counts."""
    out = []
    calls = group.all_calls()
    sigs = []
    for ov, n in calls:
        sigs.append([p.tag for p in group.fns[ov].params[:n]])
    for s in sigs:
        out.append(list(s))
        for i in range(len(s)):
            for o in (OTHER[s[i]] if thorough else [r.choice(OTHER[s[i]])]):
                t = list(s)
                t[i] = o
                out.append(t)
        out.append(list(s) + [r.choice("nbsu")])
        if s:
            out.append(list(s[:-1]))
    mx = max(len(s) for s in sigs)
    out.append([r.choice("nbs") for _ in range(mx + 2)])
    out.append([])
    for _ in range(6 if thorough else 2):
        out.append([r.choice("nbsz") for _ in range(r.randrange(0, mx + 2))])
    seen, uniq = set(), []
    for s in out:
        if tuple(s) not in seen:
            seen.add(tuple(s))
            uniq.append(s)
    return uniq


def expect_call(group, tags):
    """The property, on declarations: first offered signature (declaration order, omitted-default
    prefixes in increasing length) whose Lua tags are exactly those of the arguments."""
    for ci, (ov, n) in enumerate(group.all_calls()):
        if [p.tag for p in group.fns[ov].params[:n]] == list(tags):
            return ci, ov, n
    return None


# ====================================================================== emulator build / run
def build_emulator(d):
    o = os.path.join(d, "luaemu.o")
    p = subprocess.run(["gcc", "-c", "-O1", "-w", os.path.join(EMU, "luaemu.c"), "-I", EMU, "-o", o],
                       stdout=subprocess.PIPE, stderr=subprocess.STDOUT, text=True)
    if p.returncode != 0:
        raise RuntimeError("emulator does not compile: " + p.stdout[-2000:])
    return o


def build_binding(lib, d, emu_o):
    open(os.path.join(d, lib.name + ".hpp"), "w").write(lib.header())
    exe = os.path.join(d, "drv_" + lib.name)
    cmd = ["g++", "-std=c++17", "-O0", "-w", "-I", d, "-I", EMU,
           '-DC18_HEADER="%s.hpp"' % lib.name, "-DC18_LUAOPEN=luaopen_%s" % lib.name,
           os.path.join(d, "lua%smodule.cpp" % lib.name), os.path.join(EMU, "driver.cpp"), emu_o, "-o", exe]
    p = subprocess.run(cmd, stdout=subprocess.PIPE, stderr=subprocess.STDOUT, text=True)
    if p.returncode != 0:
        return None, p.stdout
    return exe, ""


def run_driver(exe, cmds):
    p = subprocess.run([exe], input="\n".join(cmds) + "\n", stdout=subprocess.PIPE, stderr=subprocess.PIPE, text=True,
                       timeout=120)
    out = p.stdout.split("\n")
    if out and out[-1] == "":
        out.pop()
    return p.returncode, out, p.stderr


def parse_answer(line):
    parts = line.split(" ")
    d = {"status": parts[0]}
    for p in parts[1:]:
        k, _, v = p.partition("=")
        d[k] = v
    if "trace" in d:
        d["trace"] = [] if d["trace"] == "-" else line.split(" trace=", 1)[1].split("|")
    return d


class Plan:
    """Command list for one library with what each command is about."""

    def __init__(self):
        self.cmds = ["open"]
        self.meta = [None]
        self.nkeep = 1              # handle 0 = module table
        self.nobj = 0               # library-side object counter (ids given by constructors)

    def add(self, cmd, meta):
        self.cmds.append(cmd)
        self.meta.append(meta)
        return len(self.cmds) - 1


def plan_library(r, lib, located, thorough):
    """Build the command list.  Phase 1: one object per class through its first constructor signature
    (handles and library-side ids are then known).  Phase 2: free functions and methods (on that
    object, and on wrong objects).  Phase 3: every other constructor stack.  Phase 4: destructors."""
    plan = Plan()
    objs = {}                       # class -> (handle, library id)
    classes = [c for c, _ in lib.all_classes()]

    def key_of(g):
        return g.luaname if g.kind in ("free", "ctor") else g.luaname + "@" + g.cls

    def vals_for(g, shape, exp):
        out = []
        for i, t in enumerate(shape):
            p = g.fns[exp[1]].params[i] if exp else None
            if t == "u" and p is not None and p.kind == "object" and p.ocls in objs:
                out.append(("o", objs[p.ocls][0], objs[p.ocls][1], p.ocls))     # an object of the demanded class
            elif t == "u" and objs and r.random() < 0.5:
                c = r.choice(sorted(objs))
                out.append(("o", objs[c][0], objs[c][1], c))
            else:
                out.append(value_for(r, t, p.kind if p else None))
        return out

    def wrong_objects(g):
        """For every offered signature with class-pointer arguments: the same stack with a userdata
        without metatable and with an object of every other class at each such position."""
        res = []
        for ov, n in g.all_calls():
            ps = g.fns[ov].params[:n]
            shape = [p.tag for p in ps]
            exp = expect_call(g, shape)
            for i, p in enumerate(ps):
                if p.kind != "object":
                    continue
                alts = [("f",)] + [("o", objs[c][0], objs[c][1], c) for c in sorted(objs) if c != p.ocls]
                for a in alts:
                    vals = vals_for(g, shape, exp)
                    vals[i] = a
                    res.append((vals, exp))
        return res

    # a declaration wrapped for Lua that the emitted tables do not register: ask for it by name all the same
    for g in lib.groups:
        if key_of(g) not in located and g.kind in ("free", "ctor"):
            plan.add("call %s" % g.luaname, dict(group=g, vals=[], selfv=None, exp=expect_call(g, []), probe=True))
    ctor_first = {}
    for g in lib.groups:
        if g.kind != "ctor" or key_of(g) not in located:
            continue
        ov, n = g.all_calls()[0]
        shape = [p.tag for p in g.fns[ov].params[:n]]
        exp = expect_call(g, shape)
        vals = vals_for(g, shape, exp)
        plan.nobj += 1
        meta = dict(group=g, vals=vals, selfv=None, exp=exp, objid=plan.nobj, handle=plan.nkeep)
        objs[g.cls] = (plan.nkeep, plan.nobj)
        plan.nkeep += 1
        ctor_first[g.cls] = tuple(shape)
        plan.add("call %s %s" % (g.luaname, " ".join(enc_arg(v) for v in vals)), meta)
    for g in lib.groups:
        if key_of(g) not in located:
            continue
        cfunc, meta_name = located[key_of(g)]
        if g.kind == "free":
            for shape in shapes_for(r, g, thorough):
                exp = expect_call(g, shape)
                vals = vals_for(g, shape, exp)
                plan.add("call %s %s" % (g.luaname, " ".join(enc_arg(v) for v in vals)),
                         dict(group=g, vals=vals, selfv=None, exp=exp))
            for vals, exp in wrong_objects(g):
                plan.add("call %s %s" % (g.luaname, " ".join(enc_arg(v) for v in vals)),
                         dict(group=g, vals=vals, selfv=None, exp=exp))
        elif g.kind == "method":
            if g.cls not in objs:
                continue
            h, oid = objs[g.cls]
            good = ("o", h, oid, g.cls)
            for shape in shapes_for(r, g, thorough):
                exp = expect_call(g, shape)
                vals = vals_for(g, shape, exp)
                plan.add("callm %s %s %s %s" % (meta_name, g.luaname, enc_arg(good), " ".join(enc_arg(v) for v in vals)),
                         dict(group=g, vals=vals, selfv=good, exp=exp))
            for vals, exp in wrong_objects(g):
                plan.add("callm %s %s %s %s" % (meta_name, g.luaname, enc_arg(good), " ".join(enc_arg(v) for v in vals)),
                         dict(group=g, vals=vals, selfv=good, exp=exp))
            # wrong objects with an otherwise matching stack
            ov, n = g.all_calls()[-1]
            shape = [p.tag for p in g.fns[ov].params[:n]]
            exp = expect_call(g, shape)
            vals = vals_for(g, shape, exp)
            bad = [("f",), ("i", 5)]
            for oc in classes:
                if oc != g.cls and oc in objs:
                    bad.append(("o", objs[oc][0], objs[oc][1], oc))
            for b in bad:
                plan.add("callm %s %s %s %s" % (meta_name, g.luaname, enc_arg(b), " ".join(enc_arg(v) for v in vals)),
                         dict(group=g, vals=vals, selfv=b, exp=exp))
            plan.add("callm %s %s" % (meta_name, g.luaname), dict(group=g, vals=[], selfv=None, exp=None, noself=True))
    for g in lib.groups:
        if g.kind != "ctor" or key_of(g) not in located:
            continue
        for shape in shapes_for(r, g, thorough):
            exp = expect_call(g, shape)
            vals = vals_for(g, shape, exp)
            plan.add("call %s %s" % (g.luaname, " ".join(enc_arg(v) for v in vals)),
                     dict(group=g, vals=vals, selfv=None, exp=exp, objid=None, handle=None))
    # destructors last: a foreign value, then the object of the class
    for g in lib.groups:
        if g.kind != "dtor" or key_of(g) not in located or g.cls not in objs:
            continue
        meta_name = located[key_of(g)][1]
        plan.add("callm %s __gc f" % meta_name, dict(group=g, vals=[], selfv=("f",), exp=expect_call(g, [])))
        h, oid = objs[g.cls]
        plan.add("callm %s __gc o:%d" % (meta_name, h),
                 dict(group=g, vals=[], selfv=("o", h, oid, g.cls), exp=expect_call(g, [])))
        # a second __gc on the same userdata must not run the destructor again
        plan.add("callm %s __gc o:%d" % (meta_name, h),
                 dict(group=g, vals=[], selfv=("o", h, oid, g.cls), exp=expect_call(g, []), again=True))
    return plan


def self_ok(meta):
    sv = meta.get("selfv")
    return sv is not None and sv[0] == "o" and sv[3] == meta["group"].cls


def judge(meta, ans):
    """Property C18 on one call, from the declarations only.  Returns None or (key kind, text)."""
    g = meta["group"]
    exp = meta["exp"]
    if ans["status"] == "nofunc":
        return ("not-registered", "%s (%s%s) is wrapped for Lua but the module does not register it: the name is nil in Lua" % (
            g.luaname, g.scope, g.fns[0].name))
    if meta.get("probe"):
        return None
    if meta.get("again"):
        if ans["status"] == "ok" and not ans.get("trace") and ans.get("n") == "0" and ans.get("pushed") == "0":
            return None
        return ("gc-twice", "a second __gc on the same object: expected no destructor call and no result, got %s %s" % (
            ans["status"], ans.get("trace")))
    single = len(g.all_calls()) == 1
    needs_self = g.kind in ("method", "dtor")
    must_error = exp is None or (needs_self and not self_ok(meta))
    if exp is not None:
        # the selected signature demands a userdata of the parameter's class
        for p_, v_ in zip(g.fns[exp[1]].params[:exp[2]], meta["vals"]):
            if p_.kind == "object" and not (v_[0] == "o" and v_[3] == p_.ocls):
                must_error = True
    st = ans["status"]
    trace = ans.get("trace", [])
    if must_error:
        if st == "err" and not trace:
            return None
        what = "no signature of %s matches the stack but %s" % (
            g.luaname, "the library was called: %s" % trace if trace else "no Lua error was raised (%s)" % st)
        if single:
            return ("unchecked-single-call", what)
        return ("no-error", what)
    ci, ov, n = exp
    f = g.fns[ov]
    if st != "ok":
        return ("no-call", "%s: expected a call of overload %d with %d arguments, got %s %s" % (
            g.luaname, ov, n, st, bytes.fromhex(ans.get("msg", "") if ans.get("msg", "-") != "-" else "").decode(errors="replace")))
    want = [str(f.uid)]
    loose = False
    if g.kind == "ctor":
        loose = meta.get("objid") is None
        want.append("o:*" if loose else "o:%d" % meta["objid"])
    elif needs_self and not f.static:
        want.append("o:%d" % meta["selfv"][2])
    for i, p in enumerate(f.params):
        if i < n:
            v = lua_convert(meta["vals"][i], p.kind)
        else:
            v = p.default_value()
        want.append(fmt_trace_arg(v, p.kind))
    want = " ".join(want)
    if loose:
        trace = [re.sub(r" o:\d+", " o:*", t) for t in trace]
    if len(trace) != 1:
        return ("call-count", "%s: expected exactly one library call (%s), saw %s" % (g.luaname, want, trace))
    if trace[0].split(" ")[0] != str(f.uid):
        return ("wrong-call", "%s: expected the call %s, the library received %s" % (g.luaname, want, trace[0]))
    if trace[0] != want:
        return ("wrong-values", "%s: expected the call %s, the library received %s" % (g.luaname, want, trace[0]))
    nret = 0 if g.kind == "dtor" else (1 if f.is_function() else 0)
    if int(ans["n"]) != nret or int(ans["pushed"]) != nret:
        return ("wrong-count", "%s overload %d: %d result(s) expected, %s pushed, %s reported" % (
            g.luaname, ov, nret, ans["pushed"], ans["n"]))
    if nret == 1:
        rv = f.retval()
        res = ans["res"]
        if g.kind == "ctor":
            okr = res == "u:%d" % meta["handle"] if meta.get("handle") is not None else res.startswith("u:")
        elif f.rtype in ("int", "long"):
            okr = res == "i:%d" % rv
        elif f.rtype == "double":
            okr = res.startswith("d:") and float(res[2:]) == rv
        elif f.rtype == "bool":
            okr = res == "b:%d" % (1 if rv else 0)
        else:
            okr = res == "s:" + rv.encode().hex()
        if not okr:
            return ("wrong-result", "%s overload %d: result %s is not the library's return value %r" % (g.luaname, ov, res, rv))
    return None


def model_request(meta, classes):
    """`run` request for the Lean driver: same stack, values identified by position."""
    g = meta["group"]
    st = []
    pos = 0
    stack_vals = ([meta["selfv"]] if meta.get("selfv") is not None else []) + list(meta["vals"])
    for v in stack_vals:
        pos += 1
        cls = 0
        if v[0] == "o":
            cls = classes.index(v[3]) + 1
        elif v[0] == "f":
            cls = 99
        st.append("%s.%d.%d" % (tag_of(v), cls, pos))
    clsid = classes.index(g.cls) + 1 if g.cls in classes else 0
    return "run %s %s %d %s" % (g.kind, g.enc(), clsid, ",".join(st) or "-"), stack_vals


def model_vs_observed(meta, ans, mline, stack_vals):
    """Compare the Lean `run` outcome with what the compiled binding did.  None or a text."""
    g = meta["group"]
    if meta.get("probe") or ans["status"] == "nofunc":
        return None
    if meta.get("again"):
        return None                     # object state is not part of `run` (Lean: gc_runs_destructor_once)
    parts = mline.split(" ")
    st = ans["status"]
    trace = ans.get("trace", [])
    if st == "exc":
        return None                     # NULL string handed to std::string: outside the model's vocabulary
    if parts[0] == "error":
        if st == "err" and not trace and parts[1] == "-":
            return None
        return "model: %s, binding: %s %s" % (mline, st, trace)
    if parts[0] != "ret" or st != "ok":
        return "model: %s, binding: %s %s" % (mline, st, trace)
    if int(parts[1]) != int(ans["n"]):
        return "model returns %s, binding returns %s" % (parts[1], ans["n"])
    evs = [] if parts[2] == "-" else parts[2].split(";")
    if len(evs) != len(trace):
        return "model makes %d calls, binding %d" % (len(evs), len(trace))
    for ev, tr in zip(evs, trace):
        ci, ov, sf, args = ev.split(":")
        f = g.fns[int(ov)]
        want = [str(f.uid)]
        if g.kind == "ctor":
            want.append("o:%d" % meta["objid"] if meta.get("objid") else "o:?")
        elif sf != "-" and not f.static:
            sv = stack_vals[int(sf) - 1] if sf != "x" else None
            want.append("o:%d" % sv[2] if sv and sv[0] == "o" else "o:?")
        ids = [] if args == "-" else args.split(",")
        for i, p in enumerate(f.params):
            if i < len(ids):
                v = ("x",) if ids[i] == "x" else stack_vals[int(ids[i]) - 1]
                cv = lua_convert(v, p.kind)
                if cv is None:
                    return None
                want.append(fmt_trace_arg(cv, p.kind))
            else:
                want.append(fmt_trace_arg(p.default_value(), p.kind))
        want = " ".join(want)
        if "o:?" in want:
            want_cmp, tr_cmp = re.sub(r" o:\S+", "", want), re.sub(r" o:\S+", "", tr)
        else:
            want_cmp, tr_cmp = want, tr
        if want_cmp != tr_cmp:
            return "model call %s = %s, binding %s" % (ev, want, tr)
    return None


# ====================================================================== (T) tables
def check_tables(ctx):
    from shroud import typemap, wrapl
    bad = []
    n = 0
    for ctype, (kind, tag) in luagen.PTYPES.items():
        base = ctype.replace("const ", "").replace("&", "").strip()
        tm = typemap.lookup_type(base.replace(" ", "_"))
        n += 1
        if tm is None:
            bad.append("no typemap for %s" % base)
            continue
        if TAGS.get(tm.LUA_type) != tag:
            bad.append("%s: LUA_type %s, generator assumes %s" % (base, tm.LUA_type, tag))
        if not tm.LUA_pop.startswith(POPFN[kind] + "({LUA_state_var}, {LUA_index})"):
            bad.append("%s: LUA_pop %s is not %s(L, index)" % (base, tm.LUA_pop, POPFN[kind]))
        if not tm.LUA_push.startswith("lua_push"):
            bad.append("%s: LUA_push %s" % (base, tm.LUA_push))
    stm = {d["name"]: d for d in wrapl.lua_statements}
    need_in = ["lua_bool_scalar_in", "lua_native_scalar_in", "lua_string_*_in", "lua_string_&_in",
               "lua_shadow_*_in", "lua_shadow_&_in", "lua_shadow_scalar_in"]
    need_res = ["lua_bool_scalar_result", "lua_native_scalar_result", "lua_string_scalar_result", "lua_string_&_result"]
    for nm in need_in:
        n += 1
        d = stm.get(nm)
        if d is None:
            bad.append("lua_statements lacks " + nm)
            continue
        src = d if "pre_call" in d else stm.get(d.get("base", ""), {})
        pc = src.get("pre_call", [])
        if len(pc) != 1 or "{pop_expr}" not in pc[0]:
            bad.append("%s: pre_call %r is not one declaration initialised by {pop_expr}" % (nm, pc))
    for nm in need_res:
        n += 1
        d = stm.get(nm)
        if d is None or d.get("mixin") != ["lua_mixin_callfunction", "lua_mixin_push"]:
            bad.append("%s: not callfunction+push" % nm)
    n += 3
    if stm.get("lua_mixin_push", {}).get("post_call") != ["{push_expr};"]:
        bad.append("lua_mixin_push changed")
    if stm.get("lua_mixin_callfunction", {}).get("call") != ["{rv_asgn}{LUA_this_call}{function_name}({cxx_call_list});"]:
        bad.append("lua_mixin_callfunction changed")
    if stm.get("lua_subroutine", {}).get("call") != ["{LUA_this_call}{function_name}({cxx_call_list});"]:
        bad.append("lua_subroutine changed")
    ctx.count(n)
    ctx.note("table_rows_checked", n)
    if bad:
        ctx.tie_broken("lua-tables", bad[:8])
    return not bad


# ====================================================================== one library
def check_library(ctx, lib, d, emu_o, drv, r, thorough, stats, ok_lean):
    text, hdr = emit(lib, d)
    for g in lib.groups:
        for f in g.fns:
            nd = sum(1 for p in f.params if p.default is not None)
            fd = next((i + 1 for i, p in enumerate(f.params) if p.default is not None), 0)
            k = "%s np=%d nd=%d first=%d" % (g.kind, len(f.params), nd, fd)
            stats["shape_hist"][k] = stats["shape_hist"].get(k, 0) + 1
            if len(f.params) >= 5 and nd >= 2 and fd >= 4:
                stats["wide_late_defaults"] += 1
            for p_ in f.params:
                if p_.default is not None:
                    dv = p_.default_value()
                    cls_ = "falsy" if (dv == 0 or dv == "" or dv is False) else "truthy"
                    k2 = "%s %s" % (p_.kind, cls_)
                    stats["default_hist"][k2] = stats["default_hist"].get(k2, 0) + 1
    funcs, regs, metas, modreg = split_module(text)
    classes = [c for c, _ in lib.all_classes()]
    try:
        cinfo = class_info(os.path.join(d, lib.name + ".json"))
    except (OSError, ValueError, KeyError):
        cinfo = []
    # metatable name of the i-th class as the class node has it: a site naming anything else names no class
    meta_names = [(ci_for(cinfo, c) or {}).get("meta") for c in classes]
    udt_names = [(ci_for(cinfo, c) or {}).get("udt") for c in classes]
    # which class every class-pointer parameter means: decided by the Lean model from Shroud's own class table
    if drv.available() and ok_lean:
        try:
            resolved = resolve_class_args(drv, cinfo, lib)
        except (ValueError, IndexError, KeyError) as e:
            resolved = {}
            ctx.tie_broken("lua-class-resolution", "%s: %s" % (lib.name, e))
        order = [ci["qname"] for ci in cinfo]
        for g in lib.groups:
            for f in g.fns:
                for p_ in f.params:
                    if p_.kind != "object" or p_.ocls not in resolved:
                        continue
                    stats["class_args_resolved"] += 1
                    ci = ci_for(cinfo, p_.ocls)
                    want = order.index(ci["qname"]) + 1 if ci else None
                    if resolved[p_.ocls] != want:
                        ctx.tie_broken("lua-class-resolution", {"library": lib.name, "type": p_.ocls,
                                                                 "model": resolved[p_.ocls], "declared class": want})
                    elif classes[want - 1] == p_.ocls:
                        p_.clsid = resolved[p_.ocls]      # the model's answer goes into the `gen` request
        if len(set(ci["name"] for ci in cinfo)) < len(cinfo):
            stats["same_name_class_libraries"] += 1
    located = {}
    gen_reqs, gen_impl, gen_groups = [], [], []
    sanity = []
    for g in lib.groups:
        cfunc, meta_name = locate(g, regs, metas, modreg, cinfo)
        key = g.luaname if g.kind in ("free", "ctor") else g.luaname + "@" + g.cls
        if cfunc is None or cfunc not in funcs:
            ctx.tie_broken("lua-registration", "no registered C function for %s (%s) in %s" % (g.luaname, g.kind, lib.name))
            continue
        located[key] = (cfunc, meta_name)
        try:
            canon, emits = parse_body(funcs[cfunc], g, meta_names)
        except (ParseError, ValueError, KeyError) as e:
            canon, emits = "unparsed: %s" % e, []
        gen_reqs.append("gen %s %s" % (g.kind, g.enc()))
        gen_impl.append(canon)
        gen_groups.append(g)
        for e in emits:
            if not e["popfn_ok"]:
                sanity.append("%s.%s: an argument is not read with its type's pop function" % (lib.name, g.luaname))
            if e["extra_reads"]:
                sanity.append("%s.%s: values read but not passed on: %s" % (lib.name, g.luaname, e["extra_reads"]))
            if e["pushes"] != e["nres"]:
                sanity.append("%s.%s: %d value(s) pushed, %d reported" % (lib.name, g.luaname, e["pushes"], e["nres"]))
            for c_, u_ in zip(e["acls"], e.get("audt", [])):
                if c_ is not None and c_ >= 1 and u_ != udt_names[c_ - 1]:
                    sanity.append("%s.%s: a class argument checked against the metatable of %s is read through the userdata "
                                  "struct %s, not %s" % (lib.name, g.luaname, classes[c_ - 1], u_, udt_names[c_ - 1]))
    ctx.count(len(gen_reqs))
    stats["groups"] += len(gen_reqs)
    if drv.available() and ok_lean:
        try:
            check_registration(ctx, lib, d, regs, modreg, drv, stats, dict(text=_strip_comments(text), funcs=funcs, cinfo=cinfo))
        except (KeyError, ValueError, OSError, IndexError) as e:
            ctx.tie_broken("lua-registration-tables", "%s: %s: %s" % (lib.name, type(e).__name__, e))
    if drv.available() and ok_lean:
        model = drv.run(gen_reqs)
        dis = [{"library": lib.name, "name": g.luaname, "request": q, "emitted": a, "model": b}
               for g, q, a, b in zip(gen_groups, gen_reqs, gen_impl, model) if a != b]
        for g, a in zip(gen_groups, gen_impl):
            if a.startswith("switch"):
                ctx.nontrivial("skel:" + g.kind + ":" + g.enc())
                stats["switch"] += 1
            else:
                stats["single"] += 1
        if dis:
            stats["gen_disagree"] += len(dis)
            ctx.tie_broken("lua-skeleton", dis[:4])
    else:
        ctx.tie_broken("lua-skeleton", "driver not built")
    if sanity:
        ctx.tie_broken("lua-emit-sanity", sanity[:6])
    for g, q, a in list(zip(gen_groups, gen_reqs, gen_impl))[:2]:
        ctx.sample({"library": lib.name, "request": q, "emitted": a})

    # ---------------- compiled binding on the emulator
    exe, log = build_binding(lib, d, emu_o)
    if exe is None:
        # the emitted text does not compile: the oracle cannot run; that is a failing input for C18
        ctx.fail("does-not-compile:" + lib.name, "generated Lua binding does not compile: " + log[-600:],
                 {"yaml": lib.yaml(), "header": lib.header()})
        return
    plan = plan_library(r, lib, located, thorough)
    rc, out, err = run_driver(exe, plan.cmds)
    if rc != 0 or len(out) != len(plan.cmds):
        # the driver died: find the command
        k = len(out)
        cmd = plan.cmds[k] if k < len(plan.cmds) else "?"
        m = plan.meta[k] if k < len(plan.meta) else None
        kind = "crash"
        if m is not None and len(m["group"].all_calls()) == 1 and m["exp"] is None:
            kind = "unchecked-single-call"
        ctx.fail("%s:%s:%s" % (kind, lib.name, cmd), "binding crashed (rc=%s) on `%s`: %s" % (rc, cmd, err[-300:]),
                 {"yaml": lib.yaml(), "header": lib.header(), "cmds": plan.cmds[:k + 1]})
        return
    if out[0] != "opened":
        ctx.fail("open:" + lib.name, "luaopen failed: " + out[0], {"yaml": lib.yaml(), "header": lib.header(), "cmds": ["open"]})
        return
    reqs, metas_, answers, svals = [], [], [], []
    for cmd, meta, line in zip(plan.cmds[1:], plan.meta[1:], out[1:]):
        ans = parse_answer(line)
        ctx.count(1)
        stats["calls"] += 1
        g = meta["group"]
        if meta["exp"] is not None:
            stats["matching"] += 1
            f_ = g.fns[meta["exp"][1]]
            k = "%s np=%d nargs=%d" % (g.kind, len(f_.params), meta["exp"][2])
            stats["arity_hist"][k] = stats["arity_hist"].get(k, 0) + 1
            ctx.nontrivial("call:%s:%s:%s" % (g.kind, g.enc(), ",".join(tag_of(v) for v in meta["vals"])))
        else:
            stats["nonmatching"] += 1
        if meta.get("again"):
            stats["gc_twice"] += 1
        if meta["exp"] is not None:
            ps_ = g.fns[meta["exp"][1]].params[:meta["exp"][2]]
            if any(p_.kind == "object" for p_ in ps_):
                good_ = all(p_.kind != "object" or (v_[0] == "o" and v_[3] == p_.ocls) for p_, v_ in zip(ps_, meta["vals"]))
                stats["class_arg_calls_right_class" if good_ else "class_arg_calls_wrong_class"] += 1
        verdict = judge(meta, ans)
        if verdict:
            kind, what = verdict
            shape = ",".join(tag_of(v) for v in meta["vals"])
            key = "%s:%s:%s:%s:%s" % (kind, g.kind, g.enc(), shape,
                                      "-" if meta.get("selfv") is None else tag_of(meta["selfv"]))
            setup = [c for c, m in zip(plan.cmds, plan.meta) if m is None or (m["group"].kind == "ctor" and m.get("handle"))]
            if ctx.fail(key, what, {"yaml": lib.yaml(), "header": lib.header(), "cmds": setup + [cmd],
                                    "observed": line}):
                stats["violations"] += 1
            else:
                stats["known"] += 1
        q, sv = model_request(meta, classes)
        reqs.append(q)
        metas_.append(meta)
        answers.append(ans)
        svals.append(sv)
    if drv.available() and ok_lean:
        model = drv.run(reqs)
        dis = []
        for q, meta, ans, sv, ml in zip(reqs, metas_, answers, svals, model):
            why = model_vs_observed(meta, ans, ml, sv)
            if why:
                dis.append({"library": lib.name, "request": q, "why": why})
        ctx.count(len(reqs))
        if dis:
            stats["run_disagree"] += len(dis)
            ctx.tie_broken("lua-run", dis[:4])
    k = 1 + (len(plan.cmds) // 3)
    ctx.sample({"library": lib.name, "cmd": plan.cmds[k], "answer": out[k]})


def check_clash_library(ctx, lib, d, emu_o, stats):
    """Same-named classes of different namespaces with default names.  Tie: the four default names of two
    classes coincide exactly when the unqualified names do (Lean defaultNamesOf / default_names_eq_iff,
    same_unqualified_name_clashes), read from the class nodes of Shroud's JSON dump.  Oracle: the emitted
    header/module define one identifier twice (and do not compile) or register one name for two classes."""
    text, hdr = emit(lib, d)
    cinfo = class_info(os.path.join(d, lib.name + ".json"))
    ctx.count(len(cinfo) * (len(cinfo) - 1) // 2)
    bad = []
    for i in range(len(cinfo)):
        for j in range(i + 1, len(cinfo)):
            a, b = cinfo[i], cinfo[j]
            for fld in ("udt", "reg", "meta", "ctor"):
                if (a[fld] == b[fld]) != (a["name"] == b["name"]):
                    bad.append({"classes": [a["qname"], b["qname"]], "field": fld, "values": [a[fld], b[fld]]})
    stats["default_name_pairs"] += len(cinfo) * (len(cinfo) - 1) // 2
    if bad:
        ctx.tie_broken("lua-default-names", bad[:4])
    t = _strip_comments(text)
    h = _strip_comments(hdr or "")
    udts = re.findall(r"\}\s*(\w+);", h)
    regs = re.findall(r"static const struct luaL_Reg (\w+) \[\]", t)
    metas = re.findall(r'luaL_newmetatable\(L, "([^"]*)"\)', t)
    funcs, rtabs, _, modreg = split_module(text)
    modnames = [n for n, _ in rtabs.get(modreg, [])]

    def dups(l):
        return sorted(set(x for x in l if l.count(x) > 1))

    found = {"typedef": dups(udts), "luaL_Reg array": dups(regs), "metatable": dups(metas), "module table name": dups(modnames)}
    if any(found.values()):
        exe, log = build_binding(lib, d, emu_o)
        what = ("classes %s have the same unqualified name and no format overrides: defined/registered twice: %s; the binding %s" % (
            [ci["qname"] for ci in cinfo], {k: v for k, v in found.items() if v},
            "does not compile" if exe is None else "compiles and the classes share one metatable / the earlier constructor is unreachable"))
        ctx.fail("class-name-clash:" + ",".join(sorted(set(sum(found.values(), [])))), what,
                 {"yaml": lib.yaml(), "header": lib.header()})
        stats["name_clash_libraries"] += 1


def libraries(r, thorough):
    libs = [luagen.fixed_lualib("luafix")]
    n = 40 if thorough else 3
    for i in range(n):
        libs.append(luagen.gen_lualib(r, "lual%d" % i, rich=thorough))
    return libs


def run(ctx):
    thorough = ctx.tier == "thorough"
    ok = ctx.lean(MODULES, THEOREMS, extra_targets=("drv_luadispatch",))
    drv = common.Driver("drv_luadispatch")
    r = common.rng("c18")
    ctx.cov["trusted_base"] = [
        "Lean 4.33.0 kernel; axioms within {propext, Classical.choice, Quot.sound}",
        "hand-written model Model/LuaDispatch.lean of wrapl.wrap_function/do_function/wrap_functions, of C switch/if semantics, "
        "of luaL_setfuncs (later entry wins) and of the userdata/metatable/__gc life cycle",
        "Shroud's JSON dump (<library>.json) as the source of ast.name / LUA_name / LUA_name_impl / wrap flags for the registration tie",
        "tools/ccheck/luaemu: emulator of the Lua 5.3 C API subset (no Lua headers/interpreter installed); g++ 12",
        "tools/gen/luagen.py: the instrumented library is what the binding is linked against",
    ]
    ctx.cov["rule"] = ("functions/methods/constructors with 0..6 parameters of mixed Lua tags, defaults starting at every position, "
                       "several defaulted trailing parameters, default values 0 / 0.0 / false / \"\" as well as non-zero ones "
                       "(histograms in notes: shape_hist, arity_hist, default_hist); "
                       "per generated library (one fixed + seeded random): every Lua name's emitted function is parsed and compared "
                       "with the model's skeleton; the binding is compiled against the emulator and every name is called with every "
                       "offered signature, one-tag-off variants, wrong counts and random shapes (methods also with wrong objects, "
                       "destructors twice on one object; a wrapped name the tables do not register is asked for by name); the luaL_Reg tables are compared with the model's. "
                       "Non-trivial: a skeleton with a switch, or a call whose stack matches a signature; distinct = distinct "
                       "(kind, overload set, tag list).")
    ctx.assumptions += [
        "theorems are about the Lean model; the model is validated on generated libraries only",
        "Lua API behaviour is the emulator's (written from the Lua 5.3 manual), not a real interpreter's",
        "argument-less signatures are unique per name (C++ rejects f() as ambiguous otherwise; hypothesis hz of dispatch_correct; "
        "zero_arg_calls_both_run shows what the emitted code does without it)",
        "names within one registration table are distinct in the generated libraries (lookupReg_later_wins characterises the rest)",
        "metatable names of different classes are distinct (two classes given the same LUA_metadata accept each other's objects: "
        "constructed_rejected_by_other_name needs name ≠ other)",
        "which C++ overload the emitted call expression selects is g++'s decision, observed by the oracle",
    ]
    check_tables_ok = None
    stats = dict(groups=0, switch=0, single=0, gen_disagree=0, run_disagree=0, calls=0, matching=0, nonmatching=0,
                 violations=0, known=0, libraries=0, reg_tables=0, reg_entries=0, meta_sites=0, custom_meta_classes=0, empty_method_table_classes=0, gc_twice=0, default_name_pairs=0, name_clash_libraries=0, class_args_resolved=0, same_name_class_libraries=0, class_arg_calls_right_class=0, class_arg_calls_wrong_class=0, wide_late_defaults=0, shape_hist={}, arity_hist={}, default_hist={}, scope_hist={})
    d0 = common.scratch()
    try:
        emu_o = build_emulator(d0)
        libs = []
        cpath = os.path.join(common.CORPUS, "c18.txt")
        corpus_seeds = []
        if os.path.exists(cpath):
            for ln in open(cpath):
                ln = ln.strip()
                if ln.startswith("lib "):
                    corpus_seeds.append(ln.split(" ", 2))
        for _, tag, nm in corpus_seeds:
            libs.append(luagen.gen_lualib(random.Random(tag), nm, rich=True))
        libs += libraries(r, thorough)
        try:
            dcl = os.path.join(d0, "luaclash")
            os.makedirs(dcl, exist_ok=True)
            check_clash_library(ctx, luagen.clash_lualib("luaclash"), dcl, emu_o, stats)
        except (RuntimeError, OSError, ValueError, KeyError) as e:
            ctx.tie_broken("lua-default-names", "luaclash: %s: %s" % (type(e).__name__, e))
        for lib in libs:
            d = os.path.join(d0, lib.name)
            os.makedirs(d, exist_ok=True)
            try:
                check_library(ctx, lib, d, emu_o, drv, r, thorough, stats, ok)
                stats["libraries"] += 1
            except RuntimeError as e:
                # a library of the admitted subset on which Shroud itself raises: a concrete failing input
                ctx.tie_broken("lua-emit", "%s: %s" % (lib.name, e))
                ctx.fail("wrap-raises:" + lib.name, "Shroud raises while wrapping a valid library for Lua: %s" % str(e)[:300],
                         {"yaml": lib.yaml(), "header": lib.header()})
            if check_tables_ok is None:
                check_tables_ok = check_tables(ctx)      # typemaps are registered once Shroud has run
    finally:
        common.rmtree(d0)
    for k, v in stats.items():
        ctx.note(k, dict(sorted(v.items())) if isinstance(v, dict) else v)
    # every offered signature (each arity from the first default up to all parameters) must have been driven
    if stats["libraries"] and not all(stats["default_hist"].get(k) for k in ("int falsy", "float falsy", "string falsy", "bool falsy",
                                                                             "int truthy", "float truthy", "string truthy", "bool truthy")):
        ctx.tie_broken("lua-generator", "default values do not cover zero/non-zero for every kind: %s" % stats["default_hist"])
    if stats["libraries"] and not (stats["class_arg_calls_right_class"] and stats["class_arg_calls_wrong_class"]):
        ctx.tie_broken("lua-generator", "no call with a class-pointer argument (right and wrong class) was driven")
    sh = stats["scope_hist"]
    if stats["libraries"] and not (any(k.startswith("depth=0 ") and ("classes-only" in k or "empty" in k) for k in sh)
                                   and any("empty" in k and not k.startswith("depth=0") for k in sh)
                                   and any("classes-only" in k and not k.startswith("depth=0") for k in sh)
                                   and any(k.startswith(("depth=3", "depth=4")) for k in sh)):
        ctx.tie_broken("lua-generator", "namespace trees lack a shape (library without functions, empty / classes-only "
                                        "namespace, depth >= 3): %s" % sh)
    if stats["libraries"] and not (stats["custom_meta_classes"] and stats["empty_method_table_classes"]):
        ctx.tie_broken("lua-generator", "no class with a user-chosen metatable name / with an empty method table was generated")
    if stats["libraries"] and not (stats["same_name_class_libraries"] and stats["class_args_resolved"]):
        ctx.tie_broken("lua-generator", "no library with two wrapped classes of the same unqualified name used as arguments")
    if stats["libraries"] and stats["wide_late_defaults"] == 0:
        ctx.tie_broken("lua-generator", "no function with >= 5 parameters and >= 2 defaults starting at position >= 4 was generated")


def replay(path):
    d = json.load(open(path))
    r = 0
    for f in d.get("failing", []):
        rp = f["replay"]
        print(f["key"], "--", f["what"])
        if "cmds" not in rp:
            if "yaml" in rp:
                d1 = common.scratch()
                try:
                    import yaml as _y
                    name = _y.safe_load(rp["yaml"])["library"]
                    y = shroudrun.write_yaml(d1, name + ".yaml", rp["yaml"])
                    cfg, exc, out = shroudrun.run_inproc([y], d1)
                    print("  shroud on the library ->", repr(exc) if exc else "no exception")
                    r = 1 if exc else r
                finally:
                    common.rmtree(d1)
            continue
        d0 = common.scratch()
        try:
            import yaml as _y
            name = _y.safe_load(rp["yaml"])["library"]
            y = shroudrun.write_yaml(d0, name + ".yaml", rp["yaml"])
            cfg, exc, out = shroudrun.run_inproc([y], d0)
            open(os.path.join(d0, name + ".hpp"), "w").write(rp["header"])
            emu_o = build_emulator(d0)

            class L:
                pass
            lib = L()
            lib.name = name
            lib.header = lambda: rp["header"]
            exe, log = build_binding(lib, d0, emu_o)
            if exe is None:
                print("  does not compile:", log[-400:])
                r = 1
                continue
            rc, outl, err = run_driver(exe, rp["cmds"])
            print("  `%s` -> %s" % (rp["cmds"][-1], outl[-1] if outl else "rc=%s %s" % (rc, err[-200:])))
            r = 1
        finally:
            common.rmtree(d0)
    return r
