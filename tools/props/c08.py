"""C08 Every callable C++ signature gets exactly one, distinct wrapper name.

Proof: lean/ShroudVerif/Props/C08.lean over the model Model/Names.lean.
Tie (T): name templates of LibraryNode.default_options vs the model's templates.
Tie (D): real ast.create_library_from_dictionary + generate.generate_functions vs the Lean driver
         (ordered list of (ast.name, arity, _generated, wrap flags, _overloaded, all names) per container);
         real util.un_camel vs the model.
Oracle: full generation into a scratch dir, then scan the emitted C / Fortran / Python / Lua sources
        for duplicate definitions, missing entry points and wrong generic-interface membership.
"""
import io
import itertools
import json
import os
import re

from tools import common

LEVEL = "proof"
MANIFEST = dict(
    category="proof",
    text="Lean 4 theorems (all lists of declarations, all scopes) over a model of GenFunctions.define_function_suffix (default-argument "
         "clones, function-template clones and class-template members incl. per-instantiation default variants, class-template "
         "instantiation scopes, template_function2 members, overload numbering, bufferify / F_CFI (`_CFI`) and fortran_generic clones), Namify, util.un_camel, the wrapf "
         "generic tables (module interfaces and per-class type-bound generics) and the wrapp/wrapl method tables. Proved: un_camel "
         "characterisation (inserts, no upper case, idempotent); entry-point counts for C and Fortran; C_name/F_name predictability from "
         "the name templates and class-instantiation scope; pairwise distinct C symbols and Fortran specifics of a scope for the whole "
         "pipeline incl. the `_bufferify` / `_CFI` clones, which never keep their parent's C name (clone_name_ne_parent) (CoreOK + token suffixes), of a library across scopes (ScopesSep) and of a Fortran module across the scopes folded "
         "into it (FScopesSep), instantiations of one class template are separated scopes; generic interfaces / type-bound generics "
         "list exactly their scope's specifics, each once; generic interface names of a module distinct; PyMethodDef and luaL_Reg keys "
         "of a scope distinct, dispatcher keys carry no suffix. module_entities_distinct_partial: specifics+interface names+other "
         "entities distinct given that no interface name equals a specific and that derived-type/enum names (not modelled) are apart. "
         "type-bound generics and generic interfaces put every member in force exactly under its own cpp_if. Negation witnesses for "
         "the known ways to leave the domain (explicit _1, name like an auto suffix). The model is tied to the code on every run; an implementation-only oracle compares generated names with documented ones.",
    design="3 C08",
    note="Trusted: Lean kernel (axioms propext, Classical.choice, Quot.sound); the hand-written model Model/Names.lean, validated only "
         "on generated inputs by differential correspondence (records of generate_functions per scope, un_camel, name templates, generic "
         "tables and type-bound generics parsed from generated Fortran, PyMethodDef/luaL_Reg keys parsed from generated sources); ASCII "
         "identifiers. Not modelled: return_this, assumed-rank, fortran_generic_c variants, CFI clones of results (only std::string arguments), format overrides of C_name "
         "etc., derived-type and enumeration names are outside the model. Documented names for the oracle: regression/reference/<config> "
         "of the checkout, corpus/c08_uncamel.txt, the name templates of docs/reference.rst re-implemented in tools/props/c08.py.",
    technique="Lean 4 proof by induction over the expansion (pairwise invariant of the numbering loop, unique parsing of `_token` suffixes, "
              "prefix-free scope stems) + differential correspondence model/implementation (exhaustive below a size bound, seeded "
              "sampling above) + generation and scan of C/Fortran/Python/Lua outputs against documented names",
)
MODULES = ["ShroudVerif.Props.C08"]
THEOREMS = {
    "ShroudVerif.Props.C08": [
        "Shroud.Names.unCamel_inserts",
        "Shroud.Names.unCamel_noUpper",
        "Shroud.Names.unCamel_idempotent",
        "Shroud.Names.autoSuffix_injective",
        "Shroud.Names.autoSuffix_isAuto",
        "Shroud.Names.stage1Fn_length",
        "Shroud.Names.count_c_entry_points",
        "Shroud.Names.count_fortran_specifics",
        "Shroud.Names.core_names_nodup",
        "Shroud.Names.c_names_distinct",
        "Shroud.Names.fortran_names_distinct",
        "Shroud.Names.explicit_suffix_clash",
        "Shroud.Names.distinct_underscore_forms_insufficient",
        "Shroud.Names.expand_c_names_eq",
        "Shroud.Names.expand_f_names_eq",
        "Shroud.Names.expand_c_names_distinct",
        "Shroud.Names.clone_name_ne_parent",
        "Shroud.Names.expand_fortran_names_distinct",
        "Shroud.Names.expand_f_names_nodup",
        "Shroud.Names.expand_mem",
        "Shroud.Names.program_c_names_distinct",
        "Shroud.Names.program_c_names_distinct'",
        "Shroud.Names.module_specifics_distinct",
        "Shroud.Names.module_generic_keys_distinct",
        "Shroud.Names.module_entities_distinct_partial",
        "Shroud.Names.class_instantiation_scope",
        "Shroud.Names.class_instantiations_separated",
        "Shroud.Names.generic_interface_members",
        "Shroud.Names.type_bound_generic_own_condition",
        "Shroud.Names.generic_member_own_condition",
        "Shroud.Names.generic_members_distinct",
        "Shroud.Names.type_bound_generic_members_distinct",
        "Shroud.Names.interface_members_distinct",
        "Shroud.Names.py_table_keys_distinct",
        "Shroud.Names.lua_table_keys_distinct",
        "Shroud.Names.py_dispatch_keys_are_names",
        "Shroud.Names.c_name_predictable",
        "Shroud.Names.f_names_predictable",
    ]
}

NATIVE = ["int", "long", "float", "double"]


# ------------------------------------------------------------------ descriptions
def mkfn(name, nparams=1, ndefaults=0, suffix=None, dsuffix=(), tinst=(), generics=(), hasBuf=False, isCtor=False,
         usesT=False, block=None, cpp_if=None, wrap=None, cfi=False):
    # fortran_generic on a function whose C prototype "order" differs from the generic's (no required parameter,
    # or a second template parameter) makes generic_function add a fortran_generic_c variant: not modelled.
    if nparams - ndefaults == 0 or any(len(t["types"]) > 1 for t in tinst):
        generics = ()
    return dict(name=name, nparams=nparams, ndefaults=ndefaults, suffix=suffix, dsuffix=list(dsuffix),
                tinst=[dict(t) for t in tinst], generics=list(generics), hasBuf=hasBuf, isCtor=isCtor, usesT=usesT, block=block, cpp_if=cpp_if, wrap=wrap,
                cfi=bool(cfi))


def fn_decl(fn, ov, clsname=None):
    """C++ declaration text for a description (overload number `ov` picks the parameter type)."""
    ty = NATIVE[ov % 4]
    params = []
    ntargs = max([len(t["types"]) for t in fn["tinst"]], default=0)
    for i in range(fn["nparams"]):
        if fn["hasBuf"] and i == 0:
            p = "const std::string & a0"
        elif (fn["tinst"] or fn.get("usesT")) and i == 0:
            p = "T a0"
        elif fn["tinst"] and i == 1 and ntargs == 2:
            p = "U a1"
        elif fn["generics"] and i == 0:
            p = "double a0"
        else:
            p = "%s a%d" % (ty, i)
        if i >= fn["nparams"] - fn["ndefaults"]:
            p += " = %d" % i
        params.append(p)
    if fn["isCtor"]:
        head = clsname
    else:
        head = "void " + fn["name"]
    decl = "%s(%s)" % (head, ", ".join(params))
    if fn["tinst"]:
        decl = ("template<typename T, typename U> " if ntargs == 2 else "template<typename T> ") + decl
    return decl


def fn_yaml(fn, ov, clsname=None):
    d = {"decl": fn_decl(fn, ov, clsname)}
    if fn.get("cpp_if"):
        d["cpp_if"] = fn["cpp_if"]
    if fn.get("wrap"):
        fw_ = fn["wrap"]
        d["options"] = {"wrap_c": fw_[0], "wrap_fortran": fw_[1], "wrap_python": fw_[2], "wrap_lua": fw_[3]}
    if fn.get("cfi"):
        # option F_CFI: the clone made for Fortran is the `_CFI` one (arg_to_CFI) instead of `_bufferify`
        d.setdefault("options", {})["F_CFI"] = True
    if fn["suffix"] is not None:
        d["format"] = {"function_suffix": fn["suffix"]}
    if fn["dsuffix"]:
        d["default_arg_suffix"] = list(fn["dsuffix"])
    if fn["tinst"]:
        lst = []
        for t in fn["tinst"]:
            e = {"instantiation": "<%s>" % ",".join(t["types"])}
            if t["explicit"] is not None:
                e["format"] = {"template_suffix": t["explicit"]}
            lst.append(e)
        d["cxx_template"] = lst
    if fn["generics"]:
        lst = []
        for j, g in enumerate(fn["generics"]):
            e = {"decl": "(%s a0)" % ["float", "double", "int", "long"][j % 4]}
            if g is not None:
                e["function_suffix"] = g
            lst.append(e)
        d["fortran_generic"] = lst
    return d


def doc_un_camel(text):
    """The documented CamelCase -> under_score rule (util.un_camel docstring and the reference outputs), written
    independently of shroud/util.py: an upper-case letter is lower-cased; from the third character on it also gets
    an underscore in front when its left neighbour is lower-case or its right neighbour is lower-case."""
    out = []
    for pos, ch in enumerate(text):
        if "A" <= ch <= "Z":
            left = pos >= 2 and "a" <= text[pos - 1] <= "z"
            right = pos >= 2 and pos + 1 < len(text) and "a" <= text[pos + 1] <= "z"
            out.append(("_" if (left or right) else "") + ch.lower())
        else:
            out.append(ch)
    return "".join(out)


def is_ns(kind):
    return kind in ("ns", "nsf")


def normalize(prog):
    """JSON round trip turns tuples into lists; restore the hashable forms."""
    prog["wrap"] = tuple(prog["wrap"])
    prog.setdefault("cprefix", None)
    prog["containers"] = [dict(c, path=[tuple(s) for s in c["path"]]) for c in prog["containers"]]
    for c in prog["containers"]:
        for f in c["fns"]:
            f.setdefault("usesT", False)
            f.setdefault("block", None)
            f.setdefault("cpp_if", None)
            f.setdefault("cfi", False)
            f["wrap"] = tuple(f["wrap"]) if f.get("wrap") else None
    return prog


def inst_suffix(t, i, klass=False):
    """Suffix of an instantiation by the documented rule: explicit template_suffix (for a class: as soon as the
    key is given), else `_<type>` for one template argument, else `_<index>`."""
    e = t["explicit"]
    if (e is not None) if klass else bool(e):
        return e
    return FLAT[t["types"][0]] if len(t["types"]) == 1 else "_%d" % i


def tmpl_container(path, base, insts, index, fns):
    """Container for the index-th instantiation of class template `base`; its last path segment is the
    instantiated class (cxx_class)."""
    return dict(path=list(path) + [("cls", base + inst_suffix(insts[index], index, True))], fns=fns,
                tmpl=dict(base=base, index=index, insts=[dict(t) for t in insts]))


def program_yaml(prog):
    """prog = dict(library, wrap=(c,f,py,lua), containers=[dict(path=[(kind,name)..], fns=[...])])."""
    w = prog["wrap"]
    top = {"library": prog["library"],
           "options": {"wrap_c": w[0], "wrap_fortran": w[1], "wrap_python": w[2], "wrap_lua": w[3]},
           "declarations": []}
    if prog.get("cprefix") is not None:
        top["format"] = {"C_prefix": prog["cprefix"]}
    nodes = {(): top}

    def node_for(path):
        path = tuple(path)
        if path in nodes:
            return nodes[path]
        parent = node_for(path[:-1])
        kind, name = path[-1]
        d = {"decl": ("namespace " if is_ns(kind) else "class ") + name, "declarations": []}
        if is_ns(kind):
            # set explicitly on every namespace: options are inherited by nested namespaces otherwise
            d["options"] = {"F_flatten_namespace": kind == "nsf"}
        parent["declarations"].append(d)
        nodes[path] = d
        return d

    tdone = {}
    for c in prog["containers"]:
        if c.get("tmpl"):
            # all instantiations of one class template share one declaration
            key = (tuple(c["path"][:-1]), c["tmpl"]["base"])
            if key in tdone:
                continue
            tdone[key] = True
            parent = node_for(c["path"][:-1])
            insts = c["tmpl"]["insts"]
            nt = max(len(t["types"]) for t in insts)
            n = {"decl": "template<%s> class %s" % (", ".join("typename " + x for x in "TUV"[:nt]), c["tmpl"]["base"]),
                 "cxx_template": [], "declarations": []}
            for t in insts:
                e = {"instantiation": "<%s>" % ",".join(t["types"])}
                if t["explicit"] is not None:
                    e["format"] = {"template_suffix": t["explicit"]}
                n["cxx_template"].append(e)
            parent["declarations"].append(n)
            clsname = c["tmpl"]["base"]
        else:
            n = node_for(c["path"])
            clsname = c["path"][-1][1] if c["path"] and c["path"][-1][0] == "cls" else None
        seen = {}
        cur_block, cur_list = None, n["declarations"]
        for fn in c["fns"]:
            ov = seen.get(fn["name"], 0)
            seen[fn["name"]] = ov + 1
            b = fn.get("block")
            if b != cur_block:
                cur_block = b
                if b is None:
                    cur_list = n["declarations"]
                else:
                    # a `block:` groups declarations under shared options/format; it is transparent to names
                    blk = {"block": True, "options": {"literalinclude": bool(b % 2)}, "declarations": []}
                    n["declarations"].append(blk)
                    cur_list = blk["declarations"]
            cur_list.append(fn_yaml(fn, ov, clsname))
    return top


def with_blocks(prog, mode):
    """Put runs of the declarations of every scope into `block:` groups (mode picks the split)."""
    q = normalize(json.loads(json.dumps(prog)))
    for c in q["containers"]:
        n = len(c["fns"])
        for i, f in enumerate(c["fns"]):
            if mode == 0:
                f["block"] = 1 if i >= 1 else None
            elif mode == 1:
                f["block"] = 1 if i < (n + 1) // 2 else 2
            else:
                f["block"] = None if i % 3 == 0 else 1 + (i // 3)
    return q


class _Cfg(object):
    pass


def real_generate(yd):
    from shroud import ast, generate, typemap
    typemap.initialize()
    lib = ast.create_library_from_dictionary(json.loads(json.dumps(yd)))
    cfg = _Cfg()
    cfg.log = io.StringIO()
    with contextlib_redirect():
        generate.generate_functions(lib, cfg)
    return lib


class contextlib_redirect(object):
    def __enter__(self):
        import sys
        self._o = sys.stdout
        sys.stdout = io.StringIO()

    def __exit__(self, *a):
        import sys
        sys.stdout = self._o


def find_node(lib, path, tmpl=None):
    node = lib.wrap_namespace
    if tmpl:
        node = find_node(lib, path[:-1])
        return [n for n in node.classes if n.name == tmpl["base"]][tmpl["index"]]
    for kind, name in path:
        if is_ns(kind):
            node = [n for n in node.namespaces if n.name == name][0]
        else:
            node = [n for n in node.classes if n.name == name][0]
    return node


def opt(fmt, name):
    return ("S" + common.enc(fmt.get(name))) if fmt.inlocal(name) else "N"


def real_records(node):
    out = []
    for f in node.functions:
        w = f.wrap
        fm = f.fmtdict
        out.append("|".join([
            common.enc(f.ast.name), str(len(f.ast.params)), str(f._generated),
            "".join("1" if b else "0" for b in (w.c, w.fortran, w.python, w.lua)),
            "1" if f._overloaded else "0",
            opt(fm, "C_name"), opt(fm, "F_C_name"), opt(fm, "F_name_impl"), opt(fm, "F_name_function"),
            opt(fm, "F_name_generic")]))
    return ";".join(out) if out else "~"


def real_expand(prog):
    try:
        lib = real_generate(program_yaml(prog))
    except Exception as e:  # noqa
        return "crash " + type(e).__name__
    out = []
    for c in prog["containers"]:
        try:
            out.append(real_records(find_node(lib, c["path"], c.get("tmpl"))))
        except Exception as e:  # noqa  -- the scope is not where the input puts it
            out.append("scope-missing " + type(e).__name__)
    return "#".join(out)


FLAT = {"int": "_int", "long": "_long", "float": "_float", "double": "_double"}


def enc_opt(s):
    return "N" if s is None else "S" + common.enc(s)


def enc_fn(fn):
    ti = "+".join("%s/%d/%s" % (enc_opt(t["explicit"]), len(t["types"]), common.enc(FLAT[t["types"][0]]))
                  for t in fn["tinst"]) or "~"
    return ":".join([
        common.enc(fn["name"]), str(fn["nparams"]), str(fn["ndefaults"]), enc_opt(fn["suffix"]),
        "+".join(common.enc(s) for s in fn["dsuffix"]) or "~", ti,
        "+".join(enc_opt(g) for g in fn["generics"]) or "~",
        "1" if fn["hasBuf"] else "0", "1" if fn["isCtor"] else "0", "1" if fn.get("usesT") else "0", enc_opt(fn.get("cpp_if")),
        "".join("1" if b else "0" for b in fn["wrap"]) if fn.get("wrap") else "N", "1" if fn.get("cfi") else "0"])


def enc_container(c):
    segs = [{"cls": "c=", "ns": "n=", "nsf": "f="}[k] + common.enc(n) for k, n in c["path"]]
    if c.get("tmpl"):
        t = c["tmpl"]["insts"][c["tmpl"]["index"]]
        segs[-1] = "t=%s^%s^%d^%s^%d" % (common.enc(c["tmpl"]["base"]), enc_opt(t["explicit"]), len(t["types"]),
                                        common.enc(FLAT[t["types"][0]]), c["tmpl"]["index"])
    path = "/".join(segs) or "~"
    return path + "@" + ("!".join(enc_fn(f) for f in c["fns"]) or "~")


def enc_prog(prog):
    w = "".join("1" if b else "0" for b in prog["wrap"])
    lib = common.enc(prog["library"]) if prog.get("cprefix") is None else "P" + common.enc(prog["cprefix"])
    return "ex %s %s %s" % (w, lib, " ".join(enc_container(c) for c in prog["containers"]))


# ------------------------------------------------------------------ generators
def t_int(explicit=None):
    return dict(explicit=explicit, types=["int"])


TK = {
    0: [],
    1: [t_int()],
    2: [t_int(), dict(explicit=None, types=["double"])],
    3: [dict(explicit=None, types=["int", "long"]), dict(explicit=None, types=["float", "double"])],
    4: [t_int("_i32"), dict(explicit="", types=["double"])],
}


def single_configs():
    """Every per-function configuration below the bound (<=2 defaults, <=2 instantiations, <=2 generics)."""
    for nd, tk, ng, sfx, ds, hb in itertools.product((0, 1, 2), (0, 1, 2, 3, 4), (0, 1, 2), (None, "_x"), (0, 1, 2), (False, True)):
        npar = nd + (2 if tk == 3 else 1) + (1 if ng and tk != 3 else 0)
        dsl = [] if ds == 0 else (["_d%d" % k for k in range(nd + 1)] if ds == 1 else ["_d0"])
        gens = [None, "_dbl"][:ng]
        if hb and tk:
            continue
        yield mkfn("fooBar", nparams=npar, ndefaults=nd, suffix=sfx, dsuffix=dsl, tinst=TK[tk], generics=gens, hasBuf=hb)


def small_configs(level):
    if level == 2:
        space = itertools.product((0, 1, 2), (0, 2), (0, 2), (None, "E"))
    else:
        space = itertools.product((0, 1), (0, 1), (0, 1), (None,))
    for nd, tk, ng, sfx in space:
        yield (nd, tk, ng, sfx)


def mk_small(name, cfg, idx):
    nd, tk, ng, sfx = cfg
    return mkfn(name, nparams=nd + 1 + (1 if ng else 0), ndefaults=nd, suffix=(None if sfx is None else "_e%d" % idx),
                tinst=TK[tk], generics=[None, None][:ng])


def root_prog(fns, wrap=(True, True, False, False), library="nm"):
    return dict(library=library, wrap=wrap, cprefix=None, containers=[dict(path=[], fns=fns)])


def scope_programs(thorough, r):
    """Options and structures that change name scoping: namespaces nested 2-3 deep, F_flatten_namespace on any
    of them, classes inside namespaces, the same function names in different scopes, explicit C_prefix, and
    names that only the documented un_camel rule keeps apart (xCoord / x_coord)."""
    cfgs = [(0, 0, 0, None), (1, 0, 0, None), (0, 0, 2, None), (0, 2, 0, None)]
    shapes = []
    for k1, k2, k3 in itertools.product(("ns", "nsf"), repeat=3):
        shapes.append([[], [(k1, "ns1")], [(k2, "ns2")], [("ns", "ns3")]])
        shapes.append([[(k1, "outer")], [(k1, "outer"), (k2, "inner")], [(k1, "outer"), (k2, "inner"), (k3, "deep")]])
        shapes.append([[(k1, "ns1")], [(k1, "ns1"), ("cls", "Mesh")], [(k2, "ns2")], [(k2, "ns2"), ("cls", "Grid")],
                       [(k1, "ns1"), (k3, "sub")]])
    seen = set()
    for shape in shapes:
        key = json.dumps(shape)
        if key in seen:
            continue
        seen.add(key)
        for ci, cfg in enumerate(cfgs if thorough else cfgs[:3]):
            conts = []
            for p in shape:
                fns = [mk_small("bar", cfg, 0), mk_small("bar", (0, 0, 0, None), 1), mk_small("foo", (0, 0, 0, None), 0)]
                if p and p[-1][0] == "cls":
                    fns = [mkfn("ctor", nparams=0, isCtor=True), mkfn("ctor", nparams=1, isCtor=True)] + fns
                conts.append(dict(path=p, fns=fns))
            yield dict(library="lib", wrap=(True, True, False, False), cprefix=(None, "XY_", "Q")[ci % 3], containers=conts)
    # names kept apart only by the documented un_camel rule
    pairs = [("xCoord", "x_coord"), ("nItems", "n_items"), ("aB", "a_b"), ("aBc", "a_bc"), ("getX", "get_x"),
             ("isOK", "is_ok"), ("x1Y", "x1_y"), ("ABc", "a_bc"), ("HTTPCode", "http_code"), ("incrementCount", "increment_count")]
    for a, b in pairs:
        for p in ([], [("ns", "ns1")], [("nsf", "ns1")], [("cls", "Mesh")]):
            yield dict(library="lib", wrap=(True, True, False, False), cprefix=None,
                       containers=[dict(path=p, fns=[mkfn(a), mkfn(b, nparams=2), mkfn("other")])])


def class_programs(thorough, r):
    """2-4 classes in one Fortran module (library level or inside a namespace) that share method names,
    overloaded / with default arguments / with fortran_generic in some classes and single in others, in every
    order of the classes; type-bound generics are per class."""
    kinds = {
        "two": lambda n: [mkfn(n), mkfn(n)],
        "one": lambda n: [mkfn(n)],
        "dflt": lambda n: [mkfn(n, nparams=2, ndefaults=1)],
        "gen": lambda n: [mkfn(n, nparams=2, generics=[None, "_dbl"])],
        "three": lambda n: [mkfn(n), mkfn(n, nparams=2), mkfn(n, nparams=3, ndefaults=1)],
        "none": lambda n: [],
    }
    cls = ["Circle", "Square", "Label", "Path"]
    combos = []
    for k in (2, 3, 4):
        for ks in itertools.product(["two", "one", "dflt", "gen", "none"], repeat=k):
            if "none" in ks[:1] or all(x in ("one", "none") for x in ks):
                continue
            combos.append(ks)
    if not thorough:
        combos = [c for c in combos if len(c) <= 3] + r.sample([c for c in combos if len(c) == 4], 40)
    for idx, ks in enumerate(combos):
        base = [[], [("ns", "geo")], [("nsf", "geo")]][idx % 3]
        conts = []
        for ci, kd in enumerate(ks):
            other = ["two", "one", "three"][(ci + idx) % 3]
            fns = kinds[kd]("scale") + kinds[other]("move")
            if (ci + idx) % 2:
                fns = fns[::-1]
            if (idx + ci) % 4 == 0:
                fns = [mkfn("ctor", nparams=0, isCtor=True), mkfn("ctor", nparams=1, isCtor=True)] + fns
            conts.append(dict(path=base + [("cls", cls[ci])], fns=fns))
        if idx % 5 == 0:
            conts.append(dict(path=base, fns=[mkfn("scale"), mkfn("scale", nparams=2)]))
        yield dict(library="shapes", wrap=(True, True, False, False), cprefix=None, containers=conts)


def class_template_programs(thorough, r):
    """Class templates with 1-3 instantiations (type-derived, explicit, empty explicit and numbered suffixes),
    members that use the template parameter and members that do not (overloaded, with default arguments),
    constructors, next to plain classes and free functions, at library level and in (flattened) namespaces."""
    inst_sets = [
        [dict(explicit=None, types=["int"]), dict(explicit=None, types=["double"])],
        [dict(explicit="_i32", types=["int"]), dict(explicit=None, types=["double"])],
        [dict(explicit=None, types=["int", "long"]), dict(explicit=None, types=["float", "double"])],
        [dict(explicit=None, types=["int"]), dict(explicit="_dbl", types=["double"]), dict(explicit=None, types=["long"])],
        [dict(explicit="", types=["int"])],
        [dict(explicit=None, types=["float"])],
    ]
    member_sets = [
        lambda: [mkfn("push", usesT=True), mkfn("clear"), mkfn("clear")],
        lambda: [mkfn("ctor", nparams=0, isCtor=True), mkfn("ctor", nparams=1, isCtor=True), mkfn("push", usesT=True),
                 mkfn("size", nparams=2, ndefaults=1)],
        lambda: [mkfn("push", usesT=True), mkfn("push", nparams=2, usesT=True), mkfn("other")],
        lambda: [mkfn("fill", nparams=2, ndefaults=1, usesT=True), mkfn("clear", suffix="_all")],
        lambda: [mkfn("getValue", nparams=2, usesT=True), mkfn("setValue", nparams=2, generics=[None, "_dbl"])],
    ]
    bases = [[], [("ns", "geo")], [("nsf", "geo")]]
    k = 0
    for insts in inst_sets:
        for ms in member_sets:
            base = bases[k % 3]
            k += 1
            conts = [tmpl_container(base, "vec", insts, i, ms()) for i in range(len(insts))]
            if k % 2:
                conts.append(dict(path=base + [("cls", "Plain")], fns=[mkfn("clear"), mkfn("clear")]))
            if k % 3 == 0:
                conts.append(dict(path=base, fns=[mkfn("push"), mkfn("push", nparams=2)]))
            yield dict(library="tpl", wrap=(True, True, False, False), cprefix=None, containers=conts)


def cppif_programs(thorough, r):
    """Overload sets whose members carry `cpp_if` conditions: none, one, some, all the same, all different; as
    class methods (type-bound generics), free functions and constructors (generic interfaces), with default
    arguments and fortran_generic lists."""
    A, B = "if defined(USE_A)", "ifdef USE_B"
    patterns = [(None, None, A), (A, None, None), (A, A, A), (A, B, None), (A, B, A), (None, A, None), (A, A, None)]
    k = 0
    for pat in patterns:
        for kind in range(4):
            k += 1
            def ov(name, extra=()):
                fns = [mkfn(name, nparams=1 + i, cpp_if=c) for i, c in enumerate(pat)]
                return fns + list(extra)
            if kind == 0:
                conts = [dict(path=[("cls", "Buf")], fns=ov("put") + [mkfn("get"), mkfn("get", nparams=2)])]
            elif kind == 1:
                conts = [dict(path=[], fns=ov("put") + [mkfn("single", cpp_if=pat[2])])]
            elif kind == 2:
                conts = [dict(path=[("cls", "Buf")], fns=[mkfn("ctor", nparams=i, isCtor=True, cpp_if=c) for i, c in enumerate(pat)]
                              + [mkfn("put", nparams=2, ndefaults=1, cpp_if=pat[0]), mkfn("put", nparams=3, cpp_if=pat[1])]),
                         dict(path=[("cls", "Plain")], fns=[mkfn("put"), mkfn("put", nparams=2)])]
            else:
                conts = [dict(path=[("nsf", "ns1")], fns=[mkfn("gen", nparams=2, generics=[None, "_dbl"], cpp_if=pat[0]),
                                                          mkfn("gen", nparams=3, cpp_if=pat[1])]),
                         dict(path=[("cls", "Buf")], fns=ov("put"))]
            yield dict(library="cif", wrap=(True, True, False, False), cprefix=None, containers=conts)


def wrapflag_programs(thorough, r):
    """Libraries wrapped for a subset of the languages (Python only, Lua only, C without Fortran, ...) and
    overload sets in which single overloads switch a language off in their own `options:`: the overload
    numbering and the per-language name tables must not depend on which languages are wrapped."""
    libwraps = [(False, False, True, False), (False, False, False, True), (False, False, True, True),
                (True, False, True, False), (True, True, True, True)]
    offs = [(False, True, True, True), (True, False, True, True), (False, False, True, True), (True, True, False, False)]
    k = 0
    for lw in libwraps:
        for oi, off in enumerate(offs if thorough else offs[:3]):
            k += 1
            def ovl(name, n=3):
                fns = [mkfn(name, nparams=1 + i) for i in range(n)]
                return fns
            over = ovl("over")
            mix = ovl("mix", 2)
            # one overload switches languages off for itself
            mix[k % 2]["wrap"] = tuple(a and b for a, b in zip(lw, off))
            meth = ovl("meth", 2) + [mkfn("solo")]
            meth[0]["wrap"] = tuple(a and b for a, b in zip(lw, off)) if k % 3 == 0 else None
            conts = [dict(path=[], fns=over + mix + [mkfn("single", nparams=2, ndefaults=1)]),
                     dict(path=[("cls", "Cls")], fns=[mkfn("ctor", nparams=i, isCtor=True) for i in range(2)] + meth)]
            yield dict(library="wfl", wrap=lw, cprefix=None, containers=conts)


def cfi_programs(thorough, r):
    """Entry points that get a clone for Fortran (a std::string argument) under option F_CFI: the clone is the
    `_CFI` one instead of `_bufferify`.  Single functions, overload sets, default-argument variants, fortran_generic
    variants, explicit suffixes, F_CFI on some overloads only, in library / namespace / flattened namespace / class
    scope, with the wrap-flag combinations that decide whether a clone is made at all."""
    def group(mode):
        if mode == 0:
            return [mkfn("measure", hasBuf=True, cfi=True), mkfn("plain"),
                    mkfn("rename", hasBuf=True, cfi=True), mkfn("rename", nparams=2, hasBuf=True, cfi=True)]
        if mode == 1:
            return [mkfn("setName", nparams=3, ndefaults=2, hasBuf=True, cfi=True),
                    mkfn("accept", hasBuf=True), mkfn("accept", nparams=2, hasBuf=True, cfi=True)]
        if mode == 2:
            return [mkfn("label", nparams=2, hasBuf=True, cfi=True, suffix="_txt"), mkfn("label", nparams=3, hasBuf=True, cfi=True),
                    mkfn("scaleBy", nparams=2, hasBuf=True, cfi=True, generics=[None, "_dbl"])]
        return [mkfn("send", nparams=2, ndefaults=1, hasBuf=True, cfi=True, dsuffix=["_short", "_long"]),
                mkfn("noString", nparams=2, ndefaults=1, cfi=True), mkfn("send2", hasBuf=True, cfi=True)]
    paths = [[], [("ns", "outer")], [("nsf", "flat")], [("cls", "Cls")], [("ns", "outer"), ("cls", "Mesh")]]
    wraps = [(True, True, False, False), (False, True, False, False), (True, False, False, False), (True, True, True, False)]
    k = 0
    for mode in range(4):
        for pi, path in enumerate(paths if thorough else paths[:4]):
            k += 1
            w = wraps[0] if (k % 3) else wraps[(k // 3) % 4]
            fns = group(mode)
            if k % 4 == 0:
                # one overload keeps Fortran but drops its own C wrapper: the CFI clone is still made
                fns[-1]["wrap"] = (False, True, False, False)
            conts = [dict(path=path, fns=fns)]
            if pi % 2:
                conts.append(dict(path=[], fns=group((mode + 1) % 4)))
            yield dict(library="cfi", wrap=w, cprefix=None, containers=conts)


def nested_class_programs(thorough, r):
    """Classes of the same name in nested scopes (`::Cls`, `ns::Cls`, `ns::inner::Cls`; `ns::Solo`,
    `ns::inner::Solo`), declared outer-first and inner-first: each keeps its own scope prefix and files."""
    def members(i):
        return [mkfn("meth"), mkfn("meth", nparams=2), mkfn("only%d" % i)]
    sets = [
        [[("cls", "Cls")], [("ns", "ns"), ("cls", "Cls")]],
        [[("cls", "Cls")], [("ns", "ns"), ("cls", "Cls")], [("ns", "ns"), ("ns", "inner"), ("cls", "Cls")]],
        [[("ns", "ns"), ("cls", "Solo")], [("ns", "ns"), ("ns", "inner"), ("cls", "Solo")]],
        [[("nsf", "ns"), ("cls", "Cls")], [("ns", "other"), ("cls", "Cls")], [("ns", "other"), ("nsf", "deep"), ("cls", "Solo")]],
    ]
    for paths in sets:
        for order in (paths, paths[::-1]):
            conts = [dict(path=p, fns=members(i)) for i, p in enumerate(order)]
            conts.append(dict(path=[], fns=[mkfn("freeFn")]))
            yield dict(library="lib", wrap=(True, True, False, False), cprefix=None, containers=conts)


def table_programs(thorough, r):
    """Programs wrapped for all four languages whose overload sets are adjacent, interleaved or split by other
    declarations, at library level, in classes and in class templates, with and without `block:` groups: the
    Python / Lua method tables and wrapper definitions depend on the order of the declarations."""
    orders = [
        lambda a, b, c: [a(), a(2), b()],
        lambda a, b, c: [a(), b(), a(2)],
        lambda a, b, c: [a(), b(), a(2), c(), b(2), a(3)],
        lambda a, b, c: [b(), a(), c(), a(2)],
        lambda a, b, c: [a(2, 1), b(), a(3)],
    ]
    def mkf(name):
        return lambda np=1, nd=0: mkfn(name, nparams=np, ndefaults=nd)
    k = 0
    for oi, order in enumerate(orders):
        for shape in range(4):
            k += 1
            free = order(mkf("setValue"), mkf("getValue"), mkf("reset"))
            meth = order(mkf("scale"), mkf("move"), mkf("size"))
            if shape == 0:
                conts = [dict(path=[], fns=free)]
            elif shape == 1:
                conts = [dict(path=[], fns=free), dict(path=[("cls", "Mesh")], fns=[mkfn("ctor", nparams=0, isCtor=True)] + meth)]
            elif shape == 2:
                insts = [dict(explicit=None, types=["int"]), dict(explicit=None, types=["double"])]
                ms = [mkfn("put", usesT=True)] + meth
                conts = [tmpl_container([], "Box", insts, i, json.loads(json.dumps(ms))) for i in range(2)]
            else:
                conts = [dict(path=[("cls", "Mesh")], fns=meth), dict(path=[("cls", "Grid")], fns=order(mkf("move"), mkf("scale"), mkf("size")))]
            p = dict(library="tab", wrap=(True, True, True, True), cprefix=None, containers=conts)
            yield p
            if thorough or k % 2:
                yield with_blocks(p, k % 3)


def batch_programs(progs, size=20):
    """Put the single-scope programs of a list side by side as namespaces b0..b<n> of one library (the
    per-library start-up cost of Shroud dominates the run time).  Every 10th program is kept as it is."""
    out, pend = [], []
    for i, p in enumerate(progs):
        simple = (len(p["containers"]) == 1 and not p["containers"][0]["path"] and p["library"] == "nm"
                  and tuple(p["wrap"]) == (True, True, False, False) and p.get("cprefix") is None)
        if simple and i % 10:
            pend.append(p)
            if len(pend) == size:
                out.append(dict(library="nm", wrap=(True, True, False, False), cprefix=None,
                                containers=[dict(path=[("ns", "b%d" % j)], fns=q["containers"][0]["fns"]) for j, q in enumerate(pend)]))
                pend = []
        else:
            out.append(p)
    if pend:
        out.append(dict(library="nm", wrap=(True, True, False, False), cprefix=None,
                        containers=[dict(path=[("ns", "b%d" % j)], fns=q["containers"][0]["fns"]) for j, q in enumerate(pend)]))
    return out


def exhaustive_programs(thorough, r):
    # one function, every configuration
    for fn in single_configs():
        yield root_prog([fn])
    # two overloads
    cfgs2 = list(small_configs(2))
    for a, b in itertools.product(cfgs2, repeat=2):
        yield root_prog([mk_small("fooBar", a, 0), mk_small("fooBar", b, 1)])
    # three overloads
    cfgs1 = list(small_configs(1))
    for a, b, c in itertools.product(cfgs1, repeat=3):
        yield root_prog([mk_small("get", a, 0), mk_small("get", b, 1), mk_small("get", c, 2)])
    # up to three names, one or two overloads each (interleaved declaration order)
    names = ["foo", "fooBar", "getHTTPCode"]
    groups = [[(a,) for a in cfgs1] + [(a, b) for a in cfgs1[:4] for b in cfgs1[:4]]] * 3
    allc = list(itertools.product(*groups))
    if not thorough:
        allc = r.sample(allc, 1200)
    for combo in allc:
        fns = []
        for j in range(2):
            for nm, grp in zip(names, combo):
                if j < len(grp):
                    fns.append(mk_small(nm, grp[j], j))
        yield root_prog(fns)
    # namespaces / classes
    paths = [[], [("ns", "outer")], [("cls", "Cls1")], [("ns", "outer"), ("cls", "Cls1")],
             [("ns", "outer"), ("ns", "Inner")], [("ns", "outer"), ("ns", "Inner"), ("cls", "myClass")]]
    for k in (1, 2, 3):
        for ps in itertools.combinations(paths, k):
            for cfg in cfgs1[:4]:
                conts = []
                for p in ps:
                    fns = [mk_small("doIt", cfg, 0), mk_small("doIt", cfgs1[0], 1), mk_small("other", cfg, 0)]
                    if p and p[-1][0] == "cls":
                        fns = [mkfn("ctor", nparams=0, isCtor=True), mkfn("ctor", nparams=2, ndefaults=1, isCtor=True)] + fns
                    conts.append(dict(path=p, fns=fns))
                yield dict(library="library", wrap=(True, True, False, False), cprefix=None, containers=conts)
    for wrap in itertools.product((False, True), repeat=4):
        yield root_prog([mk_small("fooBar", (1, 2, 2, None), 0), mk_small("fooBar", (0, 0, 0, None), 1),
                         mkfn("str", nparams=2, ndefaults=1, hasBuf=True)], wrap=wrap)


SUFFIX_POOL = [None, None, None, "_x", "_y", "_1", "_0", "", "_Flt", "_10", "x", "_bufferify", "_0_1"]
NAME_POOL = ["f", "foo", "fooBar", "FooBar", "getHTTPResponseCode", "get", "get_1", "aB", "XMLParser", "x1Y", "foo_bar"]


def random_program(r):
    conts = []
    k1, k2 = r.choice(["ns", "nsf"]), r.choice(["ns", "nsf"])
    paths = [[], [(k1, "outer")], [("cls", "Cls1")], [(k1, "outer"), ("cls", "Cls2")], [(k2, "ns2")],
             [(k1, "outer"), (k2, "Inner")], [(k1, "outer"), (k2, "Inner"), ("nsf", "deep")]]
    for p in r.sample(paths, r.randrange(1, 5)):
        fns = []
        names = r.sample(NAME_POOL, r.randrange(1, 6))
        for _ in range(r.randrange(1, 9)):
            nd = r.randrange(0, 4)
            tk = r.choice([0, 0, 0, 1, 2, 3, 4])
            hb = (tk == 0) and r.random() < 0.2
            ng = r.choice([0, 0, 0, 1, 2, 3])
            ds = r.choice([0, 0, 1, 2])
            dsl = [] if ds == 0 else [r.choice(["_d%d" % k, "_%d" % k, ""]) for k in range(r.randrange(1, nd + 2))]
            tinst = [dict(t) for t in TK[tk]]
            if tk and r.random() < 0.3:
                tinst.append(dict(explicit=r.choice([None, "_third", "_0"]), types=list(tinst[0]["types"])))
            fns.append(mkfn(r.choice(names), nparams=nd + (2 if tk == 3 else 1) + r.randrange(0, 2), ndefaults=nd,
                            suffix=r.choice(SUFFIX_POOL), dsuffix=dsl, tinst=tinst,
                            generics=[r.choice([None, None, "_g%d" % j, "_1"]) for j in range(ng)], hasBuf=hb,
                            cfi=hb and r.random() < 0.35))
        if p and p[-1][0] == "cls" and r.random() < 0.7:
            for k in range(r.randrange(1, 4)):
                fns.insert(r.randrange(0, len(fns) + 1), mkfn("ctor", nparams=k + 1, ndefaults=r.randrange(0, 2), isCtor=True,
                                                               suffix=r.choice([None, None, "_c%d" % k])))
        conts.append(dict(path=p, fns=fns))
    wrap = (r.random() < 0.9, r.random() < 0.9, r.random() < 0.3, r.random() < 0.3)
    if r.random() < 0.15:
        for c in conts:
            for f in c["fns"]:
                if r.random() < 0.4:
                    f["cpp_if"] = r.choice(["if defined(USE_A)", "ifdef USE_B"])
    if r.random() < 0.25:
        for c in conts:
            for i, f in enumerate(c["fns"]):
                f["block"] = r.choice([None, 1, 1, 2]) if i else None
            # blocks group consecutive declarations only
            c["fns"].sort(key=lambda f: 0) if False else None
    return dict(library=r.choice(["nm", "library", "ab", "Tutorial"]), wrap=wrap,
                cprefix=r.choice([None, None, None, "XY_", "p", ""]), containers=conts)


# ------------------------------------------------------------------ documented names (from the input alone)
AUTO = re.compile(r"^_[0-9]+$")
TOKEN = re.compile(r"^_[a-z0-9]+$")


def scope_info(prog, path):
    """Documented scope values of a declaration path: C prefix, C_name_scope, F_name_scope, Fortran module
    (the innermost namespace that is not flattened into its parent), class name."""
    cprefix = prog.get("cprefix")
    if cprefix is None:
        cprefix = prog["library"].upper()[:3] + "_"
    cscope = "".join(n + "_" for _, n in path)
    fscope = "".join(n.lower() + "_" for k, n in path if k in ("nsf", "cls"))
    last = max([i for i, (k, _) in enumerate(path) if k == "ns"], default=-1)
    module = tuple(n for _, n in path[:last + 1])
    cls = path[-1][1] if path and path[-1][0] == "cls" else None
    return cprefix, cscope, fscope, module, cls


def entries_of(fns):
    """Entry points of one C++ name in declaration order: (explicit suffix or None, template suffix, generic
    suffixes, bufferify?) -- default-argument variants first, then the declaration / its instantiations."""
    out = []
    for fn in fns:
        gs = [g if g is not None else "_%d" % j for j, g in enumerate(fn["generics"])]
        fn = dict(fn, hasBuf=(("cfi" if fn.get("cfi") else "buf") if fn["hasBuf"] else False))
        if fn["tinst"] and fn["ndefaults"]:
            # every instantiation gets its default-argument variants, numbered per instantiation
            for i, t in enumerate(fn["tinst"]):
                ts = t["explicit"] or (FLAT[t["types"][0]] if len(t["types"]) == 1 else "_%d" % i)
                for k in range(fn["ndefaults"] + 1):
                    e = fn["dsuffix"][k] if k < len(fn["dsuffix"]) else fn["suffix"]
                    out.append((e if e is not None else "_%d" % k, ts, gs, fn["hasBuf"], True, fn.get("cpp_if"), fn.get("wrap")))
            continue
        for k in range(fn["ndefaults"]):
            e = fn["dsuffix"][k] if k < len(fn["dsuffix"]) else fn["suffix"]
            out.append((e, "", gs, fn["hasBuf"], bool(fn["tinst"]), fn.get("cpp_if"), fn.get("wrap")))
        e = fn["dsuffix"][fn["ndefaults"]] if (fn["ndefaults"] and fn["ndefaults"] < len(fn["dsuffix"])) else fn["suffix"]
        if fn["tinst"]:
            for i, t in enumerate(fn["tinst"]):
                ts = t["explicit"] or (FLAT[t["types"][0]] if len(t["types"]) == 1 else "_%d" % i)
                out.append((e, ts, gs, fn["hasBuf"], True, fn.get("cpp_if"), fn.get("wrap")))
        else:
            out.append((e, "", gs, fn["hasBuf"], False, fn.get("cpp_if"), fn.get("wrap")))
    return out


DOC_COND_I = []  # documented (interface, module procedure, conditions)
DOC_COND_T = []  # documented (derived type, generic, binding, conditions)
TYPE_DOC = []   # filled by documented_names: (derived type, {"generic": [(key, bindings)], "proc": [(binding, impl)]})


def documented_names(prog):
    """All names the documented templates give: C entry points, Fortran specifics per module and the generic
    interfaces (key -> members) per module.  Overload numbers count the non-template entry points of a name."""
    w = prog["wrap"]
    cnames, fspec, generics = [], {}, {}
    del TYPE_DOC[:]
    del DOC_COND_I[:]
    del DOC_COND_T[:]
    for c in prog["containers"]:
        cprefix, cscope, fscope, module, cls = scope_info(prog, c["path"])
        tdoc = {"generic": [], "proc": []}
        ts0 = ""
        if c.get("tmpl"):
            # an explicit template_suffix of the instantiation is inherited by every member
            ts0 = c["tmpl"]["insts"][c["tmpl"]["index"]]["explicit"] or ""
        if cls is not None and w[1]:
            TYPE_DOC.append((cls.lower(), tdoc))
        groups = {}
        for fn in c["fns"]:
            groups.setdefault(fn["name"], []).append(fn)
        for name, fns in groups.items():
            ents = entries_of(fns)
            nnum = sum(1 for e in ents if not e[4])
            i = 0
            members = []
            u = doc_un_camel(name)
            mconds = []
            for (e, ts, gs, hb, templ, cif, fwrap) in ents:
                wf = fwrap or w
                ts = ts or ts0
                if templ:
                    sfx = e or ""
                else:
                    sfx = e if e is not None else ("_%d" % i if nnum > 1 else "")
                    i += 1
                # the overload number counts every overload; a name exists where the language is wrapped
                if wf[0]:
                    cnames.append(cprefix + cscope + u + sfx + ts)
                # the clone every Fortran-wrapped entry point with a string argument gets: `_bufferify` next to
                # its C wrapper, or with option F_CFI `_CFI` (function_suffix + C_cfi_suffix), C wrapper or not
                if hb == "cfi" and wf[1]:
                    cnames.append(cprefix + cscope + u + sfx + "_CFI" + ts)
                elif hb == "buf" and wf[0] and wf[1]:
                    cnames.append(cprefix + cscope + u + sfx + "_bufferify" + ts)
                for g in ((gs or [""]) if wf[1] else []):
                    members.append((fscope + u + sfx + g + ts).lower())
                    mconds.append((cif.lower(),) if cif else ())
            fspec.setdefault(module, []).extend(members)
            if cls is None:
                if len(members) > 1 or (members and any(f["generics"] for f in fns)):
                    generics.setdefault(module, {})[(fscope + u).lower()] = sorted(members)
                    DOC_COND_I.extend(((fscope + u).lower(), m, cd) for m, cd in zip(members, mconds))
            elif fns[0]["isCtor"] and members:
                generics.setdefault(module, {})[cls.lower()] = sorted(members)
                DOC_COND_I.extend((cls.lower(), m, cd) for m, cd in zip(members, mconds))
            else:
                # type-bound: bindings are F_name_function (no scope), `generic ::` only for several bindings
                binds = [m[len(fscope):] for m in members]
                tdoc["proc"].extend((b, m) for b, m in zip(binds, members))
                if len(binds) > 1:
                    tdoc["generic"].append((u.lower(), tuple(sorted(binds))))
                    # every binding is a member exactly under the condition (cpp_if) of its own declaration
                    DOC_COND_T.extend((cls.lower(), u.lower(), b, cd) for b, cd in zip(binds, mconds))
    return cnames, fspec, generics


# ------------------------------------------------------------------ oracle (implementation only)
def in_domain(prog):
    """The property's hypothesis, decided on the input alone with the documented un_camel rule: explicit
    suffixes attached to the entry points of one name are pairwise distinct (also ignoring case), single
    `_token`s and not of the form _<digits>; generic suffixes likewise; a templated function has no default
    arguments and shares its name with no other function; scope + underscore forms of different names are not
    prefixes of one another (C: whole program; Fortran: per module)."""
    cst, fst = [], {}
    types = {}
    for c in prog["containers"]:
        cprefix, cscope, fscope, module, cls = scope_info(prog, c["path"])
        if cls is not None:
            # derived types of one Fortran module (F_derived_name = lower-cased class name) must differ
            if cls.lower() in types.setdefault(module, set()):
                return False
            types[module].add(cls.lower())
        byname = {}
        for fn in c["fns"]:
            byname.setdefault(fn["name"], []).append(fn)
        for name, fns in byname.items():
            u = doc_un_camel(name)
            cst.append(cscope + u)
            fst.setdefault(module, []).append((fscope + u).lower())
            expl = []
            for fn in fns:
                if fn.get("usesT") and (fn["generics"] or fn["hasBuf"]):
                    return False
                if fn["tinst"]:
                    if len(fns) > 1 or (fn["ndefaults"] and (fn["suffix"] is not None or
                                                            0 < len(fn["dsuffix"]) <= fn["ndefaults"])):
                        return False
                    ts = [t["explicit"] or (FLAT[t["types"][0]] if len(t["types"]) == 1 else "_%d" % i)
                          for i, t in enumerate(fn["tinst"])]
                    if len(set(ts)) != len(ts) or any(not re.match(r"^_[A-Za-z0-9]+$", t) for t in ts):
                        return False
                gs = [g if g is not None else "_%d" % j for j, g in enumerate(fn["generics"])]
                if len(set(gs)) != len(gs) or any(not TOKEN.match(g) for g in gs):
                    return False
            for (e, ts, gs, hb, templ, _cif, _fw) in entries_of(fns):
                if e is not None:
                    expl.append(e)
            if any(AUTO.match(e) or not TOKEN.match(e) or e in ("_bufferify", "_cfi") for e in expl):
                return False
            if any(fn["tinst"] for fn in fns):
                continue
            if len(set(expl)) != len(expl):
                return False
    if len(set(cst)) != len(cst):
        return False
    for a in cst:
        for b in cst:
            if a != b and b.startswith(a):
                return False
    for lst in fst.values():
        if len(set(lst)) != len(lst):
            return False
        for a in lst:
            for b in lst:
                if a != b and b.startswith(a):
                    return False
    return True


def c_definitions(text, prefix=None):
    """Names of the functions defined (not only declared) in a C/C++ source."""
    out = []
    lines = text.split("\n")
    pat = re.compile(r"^[A-Za-z_].*?\b(" + (re.escape(prefix) + r"\w*" if prefix is not None else r"[A-Za-z_]\w*") + r")\(")
    for i, ln in enumerate(lines[:-1]):
        m = pat.match(ln)
        if m and not ln.rstrip().endswith(";") and not ln.startswith(("static ", "typedef ", "extern ", "//", "using ", "namespace ")):
            j = i
            while j < len(lines) and ")" not in lines[j]:
                j += 1
            if j + 1 < len(lines) and lines[j + 1].strip() == "{" and not lines[j].rstrip().endswith(";"):
                out.append(m.group(1))
    return out


IFACE_COND = []  # filled by fortran_entities: (interface, module procedure, preprocessor conditions in force)
TYPES_OUT = {}   # filled by fortran_entities: derived type -> {"generic": [(key, [bindings])], "proc": [(binding, impl)]}


def fortran_types(text):
    TYPES_OUT.clear()
    fortran_entities(text)
    return {k: {"generic": list(v["generic"]), "proc": list(v["proc"]), "gcond": list(v.get("gcond", []))}
            for k, v in TYPES_OUT.items()}


def fortran_entities(text):
    """(module procedures after `contains`, bind(C) interface bodies, generic interfaces name -> members),
    lower-cased."""
    text = re.sub(r"&\n\s*", "", text)
    procs, binds, ifaces, dup_if = [], [], {}, []
    cur_iface = None
    cur_type = None
    in_contains = False
    conds = []
    for ln in text.split("\n"):
        s = ln.strip()
        low = s.lower().replace("\t", "")
        if low.startswith("#"):
            # preprocessor context: conditions in force for the following lines
            if low.startswith("#if"):
                conds.append(low[1:])
            elif low.startswith("#endif") and conds:
                conds.pop()
            continue
        if low.startswith("!"):
            continue
        m = re.match(r"^type(?:\s*,\s*[\w\(\) ]+)*\s*(?:::)?\s*(\w+)$", low)
        if m and not in_contains and not low.startswith("type("):
            cur_type = m.group(1)
            TYPES_OUT.setdefault(cur_type, {"generic": [], "proc": []})
            continue
        if cur_type is not None:
            if low.startswith("end type"):
                cur_type = None
                continue
            m = re.match(r"^generic\s*::\s*(\w+)\s*=>\s*(.*)$", low)
            if m:
                binds_ = [x.strip() for x in m.group(2).split(",")]
                # several `generic :: key => ...` lines of one key extend the same generic
                for ent in TYPES_OUT[cur_type]["generic"]:
                    if ent[0] == m.group(1):
                        ent[1].extend(binds_)
                        break
                else:
                    TYPES_OUT[cur_type]["generic"].append((m.group(1), binds_))
                for b_ in binds_:
                    TYPES_OUT[cur_type].setdefault("gcond", []).append((m.group(1), b_, tuple(conds)))
                continue
            m = re.match(r"^procedure(?:\s*,\s*\w+)*\s*::\s*(\w+)\s*=>\s*(\w+)$", low)
            if m:
                TYPES_OUT[cur_type]["proc"].append((m.group(1), m.group(2)))
            continue
        if low == "contains":
            in_contains = True
            continue
        m = re.match(r"^interface\s+(\w+)$", low)
        if m:
            cur_iface = m.group(1)
            if cur_iface in ifaces:
                dup_if.append(cur_iface)
            ifaces.setdefault(cur_iface, [])
            continue
        if low.startswith("end interface"):
            cur_iface = None
            continue
        m = re.match(r"^module procedure\s+(\w+)$", low)
        if m and cur_iface:
            ifaces[cur_iface].append(m.group(1))
            IFACE_COND.append((cur_iface, m.group(1), tuple(conds)))
            continue
        m = re.match(r"^(?:[\w\(\)=,\* ]+\s)?(subroutine|function)\s+(\w+)\s*\(", low)
        if m and not low.startswith("end "):
            if "bind(c" in low:
                binds.append(m.group(2))
            elif in_contains:
                procs.append(m.group(2))
    return procs, binds, ifaces, dup_if


def method_tables(fn, text):
    """{table name: [keys]} of PyMethodDef / luaL_Reg tables."""
    out = {}
    if fn.startswith("py") and fn.endswith((".cpp", ".c")):
        for m in re.finditer(r"static PyMethodDef (\w+)\[\] = \{(.*?)\n\};", text, re.S):
            out["py:" + m.group(1)] = re.findall(r'\{"(\w+)",', m.group(2))
    if fn.startswith("lua") and fn.endswith((".cpp", ".c")):
        for m in re.finditer(r"static const struct luaL_Reg (\w+) \[\] = \{(.*?)\n\};", text, re.S):
            out["lua:" + m.group(1)] = re.findall(r'\{"(\w+)",', m.group(2))
    return out


def scan_outputs(files, prefix):
    """Return (problems, C definitions, {fortran file: (procs, binds, ifaces)})."""
    problems = []
    ftab = {}
    cdefs = []
    for fn, data in files.items():
        text = data.decode()
        if fn.startswith("wrap") and fn.endswith((".cpp", ".c")):
            cdefs.extend(n for n in c_definitions(text, prefix) if not n.startswith(prefix + "SHROUD_"))
    dup = sorted({n for n in cdefs if cdefs.count(n) > 1})
    if dup:
        problems.append(("dup-c", "C function defined more than once: %s" % ", ".join(dup)))
    for fn, data in files.items():
        if not fn.endswith(".f"):
            continue
        procs, binds, ifaces, dup_if = fortran_entities(data.decode())
        for k in dup_if:
            problems.append(("dup-f-interface", "generic interface %s declared twice in %s" % (k, fn)))
        for kind, lst in (("f-proc", procs), ("f-bind", binds)):
            d = sorted({n for n in lst if lst.count(n) > 1})
            if d:
                problems.append(("dup-" + kind, "Fortran %s defined more than once in %s: %s" % (kind, fn, ", ".join(d))))
        # every bind(C) interface of a module names its own C symbol
        targets = re.findall(r'bind\(C, name="(\w+)"\)', data.decode())
        d = sorted({n for n in targets if targets.count(n) > 1})
        if d:
            problems.append(("dup-f-bind-target", "several Fortran interfaces of %s bind to one C symbol: %s" % (fn, ", ".join(d))))
        ents = procs + binds + list(ifaces.keys())
        d = sorted({n for n in ents if ents.count(n) > 1} - {n for n in procs if procs.count(n) > 1}
                   - {n for n in binds if binds.count(n) > 1})
        if d:
            problems.append(("dup-f-entity", "Fortran module entity names coincide in %s: %s" % (fn, ", ".join(d))))
        for k, members in ifaces.items():
            if len(set(members)) != len(members):
                problems.append(("dup-f-generic-member", "generic interface %s lists a procedure twice" % k))
            for mname in members:
                if mname not in procs:
                    problems.append(("f-generic-member-missing", "generic interface %s lists %s which is not a module procedure of %s" % (k, mname, fn)))
        ftab[fn] = (procs, binds, ifaces)
    for fn, data in files.items():
        text = data.decode()
        defs = []
        if fn.startswith("lua") and fn.endswith((".cpp", ".c")):
            defs = re.findall(r"^static int (\w+)\(lua_State", text, re.M)
        elif fn.startswith("py") and fn.endswith((".cpp", ".c")):
            defs = re.findall(r"^(\w+)\($", text, re.M)
        d = sorted({k for k in defs if defs.count(k) > 1})
        if d:
            problems.append(("dup-wrapper-definition", "wrapper functions defined more than once in %s: %s" % (fn, ", ".join(d))))
    for fn, data in files.items():
        for tname, keys in method_tables(fn, data.decode()).items():
            d = sorted({k for k in keys if keys.count(k) > 1})
            if d:
                problems.append(("dup-" + tname.split(":")[0] + "-method", "method table %s has duplicate keys %s" % (tname, d)))
    return problems, cdefs, ftab


MT_REQS = []   # (prog, model request lines, PyMethodDef key lists, luaL_Reg tables)
GI_REQS = []   # (prog, model request lines, parsed interfaces) collected for the generic-table correspondence


def oracle_full(ctx, prog, tag):
    """Generate for real; compare every emitted name with the documented one; report duplicate, missing and
    misfiled names.  Returns True if a failure was recorded."""
    import yaml
    from tools import shroudrun
    d = common.scratch()
    try:
        yd = program_yaml(prog)
        ytext = yaml.safe_dump(yd, default_flow_style=False)
        path = shroudrun.write_yaml(d, "c08.yaml", ytext)
        cfg, exc, out = shroudrun.run_inproc([path], d)
        ctx.count(1)
        replay = {"yaml": ytext, "prog": prog}
        has_tdef = any(fn["tinst"] and fn["ndefaults"] for c in prog["containers"] for fn in c["fns"])
        if exc is not None:
            if has_tdef:
                return ctx.fail("template-default-args", "function template with default arguments: generation raises %s, "
                                "no wrapper for these signatures" % type(exc).__name__, replay)
            ctx.note("generation_errors", ctx.notes.get("generation_errors", 0) + 1)
            ctx.notes.setdefault("generation_error_samples", [])
            if len(ctx.notes["generation_error_samples"]) < 3:
                ctx.notes["generation_error_samples"].append({"exc": repr(exc)[:200], "yaml": ytext})
            return False
        files = shroudrun.read_tree(d, skip_ext=(".log", ".json", ".yaml"))
        cprefix = scope_info(prog, [])[0]
        del IFACE_COND[:]
        problems, cdefs, ftab = scan_outputs(files, cprefix)
        icond = sorted(IFACE_COND)
        failed = False
        for key, what in problems:
            failed |= bool(ctx.fail("%s:%s" % (tag, key), what, replay))
        doc_c, doc_f, doc_g = documented_names(prog)
        if sorted(doc_c) != sorted(cdefs):
            failed |= bool(ctx.fail("%s:names-c" % tag, "C entry points differ from the documented names: generated only %s, documented only %s"
                                    % (sorted(set(cdefs) - set(doc_c)) or (len(cdefs), "entries"), sorted(set(doc_c) - set(cdefs)) or (len(doc_c), "entries")), replay))
        # Fortran specifics: a function that needs no wrapper is exposed through its bind(C) interface under the
        # Fortran name; classes add helper procedures (get_instance, ...), so documented names must be present,
        # and for class-free programs nothing else may be
        has_cls = any(k == "cls" for c in prog["containers"] for k, _ in c["path"])
        allf = [n for v in ftab.values() for n in v[0] + [b for b in v[1] if not b.startswith("c_")]]
        docf = [n for lst in doc_f.values() for n in lst]
        missing = sorted(set(docf) - set(allf))
        extra_f = sorted(set(allf) - set(docf)) if not has_cls else []
        if missing or extra_f or (not has_cls and len(allf) != len(docf)):
            lw = prog.get("wrap") or (True, True, False, False)
            # library-level wrap_c: false with wrap_fortran: true is a configuration of its own (open finding: only the
            # functions that get a _CFI / _bufferify clone keep a Fortran specific); it has its own key so that the
            # finding never hides a disagreement in any other configuration
            fkey = "%s:names-f" % tag if (lw[0] or not lw[1] or extra_f) else "%s:names-f:library-wrap_c-off-fortran-on" % tag
            failed |= bool(ctx.fail(fkey, "Fortran specific procedures differ from the documented names: missing %s, undocumented %s "
                                    "(%d generated, %d documented)" % (missing, extra_f, len(allf), len(docf)), replay))
        # generic interfaces: per generic name exactly the specifics of that scope's C++ name
        got = sorted((k, tuple(sorted(mem))) for v in ftab.values() for k, mem in v[2].items())
        exp = sorted((k, tuple(mem)) for m in doc_g.values() for k, mem in m.items())
        if got != exp:
            failed |= bool(ctx.fail("%s:generic-interfaces" % tag, "generic interfaces differ from the documented ones: generated only %s, documented only %s"
                                    % ([g for g in got if g not in exp], [e for e in exp if e not in got]), replay))
        # type-bound generics: per class exactly the bindings of that class's C++ name, each once
        tgot = []
        for fn_, data in files.items():
            if fn_.endswith(".f"):
                for tname, v in fortran_types(data.decode()).items():
                    tgot.append((tname, sorted((k, tuple(sorted(m))) for k, m in v["generic"]), sorted(v["proc"])))
        doc_types = {t for t, _ in TYPE_DOC}
        tg = sorted((t, g) for t, g, _ in tgot if t in doc_types)
        te = sorted((t, sorted(v["generic"])) for t, v in TYPE_DOC)
        if tg != te:
            failed |= bool(ctx.fail("%s:type-bound-generics" % tag, "type-bound generics differ from the documented ones: generated only %s, documented only %s"
                                    % ([x for x in tg if x not in te], [x for x in te if x not in tg]), replay))
        tcond = sorted((t, k, b, cd) for fn_, data in files.items() if fn_.endswith(".f")
                       for t, v in fortran_types(data.decode()).items() if t in doc_types for k, b, cd in v["gcond"])
        if tcond != sorted(DOC_COND_T):
            failed |= bool(ctx.fail("%s:type-bound-generic-conditions" % tag, "members of type-bound generics are not in force exactly under their own "
                                    "cpp_if: generated only %s, documented only %s"
                                    % ([x for x in tcond if x not in DOC_COND_T], [x for x in DOC_COND_T if x not in tcond]), replay))
        if icond != sorted(DOC_COND_I):
            failed |= bool(ctx.fail("%s:interface-member-conditions" % tag, "members of generic interfaces are not in force exactly under their own "
                                    "cpp_if: generated only %s, documented only %s"
                                    % ([x for x in icond if x not in DOC_COND_I], [x for x in DOC_COND_I if x not in icond]), replay))
        for t, v in TYPE_DOC:
            have = [p for tt, _, procs in tgot if tt == t for p in procs]
            miss = [p for p in v["proc"] if p not in have]
            if miss:
                failed |= bool(ctx.fail("%s:type-bound-procedures" % tag, "derived type %s lacks the documented bindings %s" % (t, miss), replay))
        w = "".join("1" if b else "0" for b in prog["wrap"])
        lib = common.enc(prog["library"]) if prog.get("cprefix") is None else "P" + common.enc(prog["cprefix"])
        reqs = [("gi %s %s %s" % (w, lib, enc_container(c)),
                 c["path"][-1][1].lower() if (c["path"] and c["path"][-1][0] == "cls") else None) for c in prog["containers"]]
        GI_REQS.append((prog, reqs, got, sorted((t, k, m) for t, g in tg for k, m in g), icond, tcond))
        if prog["wrap"][2] or prog["wrap"][3]:
            pyt, luat = [], {}
            for fn_, data in files.items():
                for tname, keys in method_tables(fn_, data.decode()).items():
                    if tname.startswith("py:"):
                        pyt.append(keys)
                    else:
                        luat[tname[4:]] = keys
            MT_REQS.append((prog, [q.replace("gi ", "mt ", 1) for q, _ in reqs], pyt, luat))
        return failed
    finally:
        common.rmtree(d)


ASSUMED_RANK_YAML = """\
library: nm
declarations:
- decl: int sumit(int *values+dimension(..), int n = 1)
- decl: void scale(double *x+dimension(..), double f = 2.0, int n = 1)
"""


def oracle_assumed_rank(ctx):
    """Assumed-rank arguments (rank variants are fortran_generic entries made by process_assumed_rank, outside the
    Lean model) combined with default arguments: generation must succeed, every default-argument variant gets
    each rank exactly once under the one generic name, no name twice (repaired in /repo 0781edc)."""
    from tools import shroudrun
    d = common.scratch()
    try:
        path = shroudrun.write_yaml(d, "ar.yaml", ASSUMED_RANK_YAML)
        cfg, exc, out = shroudrun.run_inproc([path], d)
        ctx.count(1)
        replay = {"yaml": ASSUMED_RANK_YAML}
        if exc is not None:
            return ctx.fail("full:assumed-rank-default-args", "assumed-rank argument with default arguments: generation raises %s: %s"
                            % (type(exc).__name__, str(exc)[:100]), replay)
        files = shroudrun.read_tree(d, skip_ext=(".log", ".json", ".yaml"))
        problems, cdefs, ftab = scan_outputs(files, "NM_")
        for key, what in problems:
            ctx.fail("full:assumed-rank-default-args:" + key, what, replay)
        ifaces = {k: v for t in ftab.values() for k, v in t[2].items()}
        for name, nvar in (("sumit", 2), ("scale", 3)):
            mem = ifaces.get(name, [])
            ranks = sorted(m.rsplit("_", 1)[1] for m in mem)
            want = sorted(["%dd" % k for k in range(8)] * nvar)
            if ranks != want or len(set(mem)) != len(mem):
                ctx.fail("full:assumed-rank-default-args:members", "generic interface %s lists %s, expected every rank 0d..7d once for each of the "
                         "%d default-argument variants" % (name, mem, nvar), replay)
    finally:
        common.rmtree(d)


CB_SIGS = [("int", ["int", "int"]), ("bool", ["double"]), ("void", ["int"]), ("double", ["double", "int"]), ("int", ["int"])]
F_OF_C = {"int": "integer(c_int)", "double": "real(c_double)", "bool": "logical(c_bool)", "long": "integer(c_long)"}


def callback_programs(thorough):
    """Callback (function pointer) arguments: the same method and argument name in two or three classes, in
    overloads and in free functions, with equal and with different callback signatures.  Each entry:
    (class or None, function name, callback argument name, signature index, extra int parameters)."""
    shapes = [
        [("Sorter", "setCompare", "cmp", 0, 0), ("Filter", "setCompare", "cmp", 1, 0)],
        [("Sorter", "setCompare", "cmp", 0, 0), ("Filter", "setCompare", "cmp", 0, 0), ("Mapper", "setCompare", "cmp", 2, 0)],
        [(None, "apply", "fn", 4, 0), (None, "apply", "fn", 1, 1)],
        [(None, "apply", "fn", 4, 0), (None, "apply", "fn", 4, 1), ("Sorter", "apply", "fn", 3, 0)],
        [("Sorter", "visit", "cb", 2, 0), ("Sorter", "visit", "cb", 3, 1), ("Filter", "visit", "cb", 3, 0), (None, "visit", "cb", 0, 0)],
        [("Sorter", "setCompare", "cmp", 0, 0), ("Sorter", "setOrder", "cmp", 1, 0), ("Filter", "setCompare", "other", 1, 0)],
    ]
    return shapes if thorough else shapes[:5]


def callback_yaml(shape):
    decls, classes = [], {}
    for cls, name, arg, si, extra in shape:
        ret, ps = CB_SIGS[si]
        d = {"decl": "void %s(%s (*%s)(%s)%s)" % (name, ret, arg, ", ".join("%s p%d" % (t, i) for i, t in enumerate(ps)),
                                                   "".join(", int x%d" % i for i in range(extra)))}
        if cls is None:
            decls.append(d)
        else:
            if cls not in classes:
                classes[cls] = {"decl": "class " + cls, "declarations": []}
                decls.append(classes[cls])
            classes[cls]["declarations"].append(d)
    return {"library": "cbk", "declarations": decls}


def oracle_abstract_interfaces(ctx, thorough):
    """Fortran abstract interfaces made for callback arguments: two different callback signatures never share
    one abstract interface, and every `procedure(<name>)` dummy refers to an abstract interface whose arguments
    and result agree with the callback of ITS declaration (repaired in /repo b2da8bc)."""
    import yaml
    from tools import shroudrun
    nchecked = 0
    for shape in callback_programs(thorough):
        d = common.scratch()
        try:
            ytext = yaml.safe_dump(callback_yaml(shape), default_flow_style=False)
            path = shroudrun.write_yaml(d, "cb.yaml", ytext)
            cfg, exc, out = shroudrun.run_inproc([path], d)
            ctx.count(1)
            replay = {"yaml": ytext, "shape": shape}
            if exc is not None:
                ctx.fail("full:abstract-interface:crash", "callback arguments: generation raises %s" % type(exc).__name__, replay)
                continue
            text = "".join(data.decode() for fn, data in sorted(shroudrun.read_tree(d).items()) if fn.endswith(".f"))
            text = re.sub(r"&\n\s*", "", text).lower()
            # abstract interfaces: name -> (result type or None, [dummy types])
            absif = {}
            names = []
            for blk in re.findall(r"abstract interface\n(.*?)\n\s*end interface", text, re.S):
                for m in re.finditer(r"^\s*(function|subroutine)\s+(\w+)\(([^)]*)\)\s*bind\(c\)(.*?)^\s*end (?:function|subroutine)", blk, re.S | re.M):
                    kind, name, dummies, body = m.groups()
                    names.append(name)
                    types = {}
                    for tm in re.finditer(r"^\s*([\w\(\)]+)(?:\s*,\s*\w+)*\s*::\s*(\w+)", body, re.M):
                        types[tm.group(2)] = tm.group(1)
                    dl = [x.strip() for x in dummies.split(",") if x.strip()]
                    absif[name] = (types.get(name) if kind == "function" else None, [types.get(x) for x in dl])
            dup = sorted({n for n in names if names.count(n) > 1})
            if dup:
                ctx.fail("full:abstract-interface:duplicate", "abstract interface defined more than once: %s" % dup, replay)
            # documented wrapper names of the declarations in order (overload numbers per scope and name)
            groups = {}
            for cls, name, arg, si, extra in shape:
                groups.setdefault((cls, name), []).append(si)
            seen = {}
            for cls, name, arg, si, extra in shape:
                k = seen.get((cls, name), 0)
                seen[(cls, name)] = k + 1
                sfx = "_%d" % k if len(groups[(cls, name)]) > 1 else ""
                wname = "c_" + ((cls.lower() + "_") if cls else "") + doc_un_camel(name).lower() + sfx
                m = re.search(r"subroutine %s\((.*?)end subroutine %s" % (re.escape(wname), re.escape(wname)), text, re.S)
                if not m:
                    # a function that needs no Fortran wrapper is bound under its Fortran name
                    m = re.search(r"subroutine %s\((.*?)end subroutine %s" % (re.escape(wname[2:]), re.escape(wname[2:])), text, re.S)
                if not m:
                    ctx.fail("full:abstract-interface:wrapper-missing", "no bind(C) interface %s" % wname, replay)
                    continue
                pm = re.search(r"procedure\((\w+)\)\s*::\s*%s\b" % re.escape(arg.lower()), m.group(1))
                if not pm or pm.group(1) not in absif:
                    ctx.fail("full:abstract-interface:unknown", "%s: callback %s has no abstract interface" % (wname, arg), replay)
                    continue
                ret, ps = CB_SIGS[si]
                want = (None if ret == "void" else F_OF_C[ret], [F_OF_C[t] for t in ps])
                nchecked += 1
                if absif[pm.group(1)] != want:
                    ctx.fail("full:abstract-interface:signature", "%s declares its callback %s as procedure(%s) = %s, but the callback of this "
                             "declaration is %s (%s): two callable signatures share one abstract interface"
                             % (wname, arg, pm.group(1), absif[pm.group(1)], want, "%s (*)(%s)" % (ret, ", ".join(ps))), replay)
        finally:
            common.rmtree(d)
    ctx.note("callback_dummies_checked", nchecked)


FLATTEN_TYPES_YAML = """\
library: lib
declarations:
- decl: class Cls
  declarations:
  - decl: void meth(int a0)
- decl: namespace ns
  options:
    F_flatten_namespace: true
  declarations:
  - decl: class Cls
    declarations:
    - decl: void meth(int a0)
"""


def oracle_flatten_types(ctx):
    """Derived types are module entities as well: classes of the same name folded into one Fortran module
    (a class and a same-named class of a namespace flattened into that module) must not give two `type` of
    one name (F_derived_name has no scope component)."""
    from tools import shroudrun
    d = common.scratch()
    try:
        path = shroudrun.write_yaml(d, "ft.yaml", FLATTEN_TYPES_YAML)
        cfg, exc, out = shroudrun.run_inproc([path], d)
        ctx.count(1)
        if exc is not None:
            return
        for fn, data in shroudrun.read_tree(d).items():
            if fn.endswith(".f"):
                types = re.findall(r"^\s*type\s+(\w+)\s*$", data.decode().lower(), re.M)
                dup = sorted({t for t in types if types.count(t) > 1})
                if dup:
                    ctx.fail("full:dup-derived-type:flatten-namespace", "classes of the same name in one Fortran module (class Cls and ns::Cls "
                             "with F_flatten_namespace) give two derived types named %s in %s: F_derived_name is the lower-cased class "
                             "name without scope" % (dup, fn), {"yaml": FLATTEN_TYPES_YAML})
    finally:
        common.rmtree(d)


def gi_correspondence(ctx, drv):
    """Tie: the model's generic tables (driver op `gi`: module-level interfaces and type-bound generics per
    class, members with the preprocessor condition in force after the model's emission functions) vs the
    interfaces / `generic ::` lines parsed with their #if context from the generated Fortran."""
    bad = []
    lines = [q for item in GI_REQS for q, _ in item[1]]
    if not lines:
        return
    res = iter(drv.run(lines))
    ntb = ncond = 0
    for prog, reqs, got, tgot, icond, tcond in GI_REQS:
        model, tmodel, mic, mtc = [], [], [], []
        for _, cls in reqs:
            t = next(res)
            if t == "~":
                continue
            for ent in t.split(";"):
                kind, k, force, mem, conds = ent.split("=")
                key = common.dec(k).lower()
                members = tuple(sorted(common.dec(x).lower() for x in mem.split("+")))
                if force == "1" or len(members) > 1:
                    cl = []
                    for mc in conds.split("+"):
                        m_, c_ = mc.split("@")
                        cl.append((common.dec(m_).lower(), () if c_ == "N" else (common.dec(c_[1:]).lower(),)))
                    if kind == "M":
                        model.append((key, members))
                        mic.extend((key, m_, c_) for m_, c_ in cl)
                    else:
                        tmodel.append((cls, key, members))
                        mtc.extend((cls, key, m_, c_) for m_, c_ in cl)
        ctx.count(1)
        ntb += len(tmodel)
        ncond += sum(1 for x in mic + mtc if x[-1])
        if sorted(model) != got or sorted(tmodel) != tgot or sorted(mic) != icond or sorted(mtc) != tcond:
            bad.append({"prog": prog, "model": [sorted(model), sorted(tmodel), sorted(mic), sorted(mtc)],
                        "impl": [got, tgot, icond, tcond]})
    ctx.note("generic_tables_compared", len(GI_REQS))
    ctx.note("type_bound_generics_compared", ntb)
    ctx.note("conditional_generic_members_compared", ncond)
    if bad:
        ctx.tie_broken("generic-table-correspondence", bad[:3])


def mt_correspondence(ctx, drv):
    """Tie: the model's PyMethodDef / luaL_Reg keys per scope (driver op `mt`) vs the tables parsed from the
    generated Python and Lua sources."""
    bad = []
    lines = [q for _, reqs, _, _ in MT_REQS for q in reqs]
    if not lines:
        return
    res = iter(drv.run(lines))
    for prog, reqs, pyt, luat in MT_REQS:
        mpy, mlua_mod, mlua_cls = [], [], []
        clsnames = set()
        for c in prog["containers"]:
            t = next(res)
            pk, lk = [common.decs(x[2:]) for x in t.split(" ")]
            iscls = bool(c["path"]) and c["path"][-1][0] == "cls"
            if prog["wrap"][2] and pk:
                mpy.append(pk)
            if prog["wrap"][3]:
                if iscls:
                    clsnames.add(c["path"][-1][1])
                    if lk:
                        mlua_cls.append(sorted(lk))
                else:
                    mlua_mod.extend(lk)
        ctx.count(1)
        ok = True
        if prog["wrap"][2] and sorted(mpy) != sorted(k for k in pyt if k):
            ok = False
        if prog["wrap"][3]:
            mods = [v for k, v in luat.items() if k.endswith("_Reg") and k[2:-4] == prog["library"]]
            clss = sorted(sorted(v) for k, v in luat.items() if not (k.endswith("_Reg") and k[2:-4] == prog["library"]) and v)
            got_mod = sorted(x for v in mods for x in v if x not in clsnames)
            if got_mod != sorted(mlua_mod) or clss != sorted(mlua_cls):
                ok = False
        if not ok:
            bad.append({"prog": prog, "model": {"py": mpy, "lua_module": mlua_mod, "lua_class": mlua_cls},
                        "impl": {"py": pyt, "lua": luat}})
    ctx.note("method_tables_compared", len(MT_REQS))
    if bad:
        ctx.tie_broken("method-table-correspondence", bad[:3])


# ------------------------------------------------------------------ documented reference outputs
REF_QUICK = ["tutorial", "names", "namespace", "scope", "generic", "templates", "classes"]


def reference_names(ctx, thorough):
    """The project's reference outputs (regression/reference/<config>) are its documented expected output:
    every C definition, Fortran procedure / bind(C) interface / generic interface and method-table key that the
    checkout generates for an upstream input must be the one in the reference."""
    from tools import shroudrun
    refroot = os.path.join(common.REPO, "regression", "reference")
    names = [n for n, _, _ in shroudrun.CORPUS] if thorough else REF_QUICK
    compared = 0
    for name in names:
        ref = os.path.join(refroot, name)
        if not os.path.isdir(ref):
            continue
        d = common.scratch()
        try:
            cfg, exc, _ = shroudrun.run_corpus_inproc(name, d)
            ctx.count(1)
            if exc is not None:
                continue
            for fn, data in sorted(shroudrun.read_tree(d, skip_ext=(".log", ".json")).items()):
                rp = os.path.join(ref, fn)
                if not os.path.exists(rp):
                    continue
                gen, old = data.decode(), open(rp, "rb").read().decode()
                if fn.endswith((".cpp", ".c")) and fn.startswith("wrap"):
                    a, b = c_definitions(gen), c_definitions(old)
                elif fn.endswith(".f"):
                    ea, eb = fortran_entities(gen), fortran_entities(old)
                    a = [ea[0], ea[1], sorted(ea[2].items())]
                    b = [eb[0], eb[1], sorted(eb[2].items())]
                elif fn.startswith(("py", "lua")) and fn.endswith((".cpp", ".c")):
                    a, b = method_tables(fn, gen), method_tables(fn, old)
                else:
                    continue
                compared += 1
                if a != b:
                    fa = json.dumps(a)
                    fb = json.dumps(b)
                    ga = set(re.findall(r"\w+", fa))
                    gb = set(re.findall(r"\w+", fb))
                    ctx.fail("reference-names:%s:%s" % (name, fn),
                             "names generated for the upstream input %s differ from the reference output %s: generated only %s, reference only %s"
                             % (name, fn, sorted(ga - gb)[:12], sorted(gb - ga)[:12]),
                             {"corpus": name, "file": fn, "generated_only": sorted(ga - gb), "reference_only": sorted(gb - ga)})
        finally:
            common.rmtree(d)
    ctx.note("reference_files_compared", compared)


def frozen_un_camel(ctx, sutil):
    """corpus/c08_uncamel.txt: documented output for every identifier over {x,C,c,1,_} up to length 5 and the
    examples of the docstring; the implementation must reproduce it."""
    path = os.path.join(common.CORPUS, "c08_uncamel.txt")
    n = bad = 0
    for ln in open(path):
        ln = ln.rstrip("\n")
        if not ln or ln.startswith("#"):
            continue
        src, want = ln.split(" ")
        n += 1
        try:
            got = sutil.un_camel(src)
        except Exception as e:  # noqa
            got = "<%s>" % type(e).__name__
        if got != want or doc_un_camel(src) != want:
            bad += 1
            if bad <= 5:
                ctx.fail("un_camel-documented:%s" % src, "un_camel(%r) = %r, documented %r" % (src, got, want),
                         {"un_camel": src, "got": got, "documented": want})
    ctx.count(n)
    ctx.note("frozen_un_camel_cases", n)


# ------------------------------------------------------------------ run
def uc_strings(thorough, r):
    alpha = "aBC1_"
    for n in range(0, (8 if thorough else 7)):
        for t in itertools.product(alpha, repeat=n):
            yield "".join(t)
    chars = "abcxyzABCXYZ019_"
    for _ in range(20000 if thorough else 4000):
        yield "".join(r.choice(chars) for _ in range(r.randrange(1, 24)))
    for s in NAME_POOL + ["CamelCase", "getHTTPResponseCode", "HTTPResponse", "A", "AB", "ABc", "aBc", "abC", "aBCd"]:
        yield s


def distribution(progs):
    dist = {"programs": len(progs), "containers": 0, "functions": 0, "flattened_namespace": 0, "depth>=2": 0, "depth>=3": 0,
            "class_in_namespace": 0, "same_name_in_two_scopes": 0, "explicit_C_prefix": 0, "with_defaults": 0,
            "with_template": 0, "with_generics": 0, "with_bufferify": 0, "with_F_CFI_clone": 0, "with_ctor": 0, "overload_sets>=2": 0,
            "explicit_suffix": 0, "modules_with>=2_classes": 0, "method_name_shared_by_classes": 0,
            "shared_method_overloaded_in_some_single_in_others": 0,
            "class_template_instantiations": 0, "members_using_template_parameter": 0,
            "functions_with_cpp_if": 0, "functions_with_own_wrap_options": 0, "libraries_without_c_or_fortran": 0,
            "same_class_name_in_nested_scopes": 0, "scopes_with_block_groups": 0, "non_adjacent_overload_sets": 0, "wrapped_for_python_or_lua": 0}
    for p in progs:
        dist["containers"] += len(p["containers"])
        if p.get("cprefix") is not None:
            dist["explicit_C_prefix"] += 1
        dist["wrapped_for_python_or_lua"] += bool(p["wrap"][2] or p["wrap"][3])
        dist["libraries_without_c_or_fortran"] += not (p["wrap"][0] and p["wrap"][1])
        cn_ = [c["path"][-1][1] for c in p["containers"] if c["path"] and c["path"][-1][0] == "cls"]
        dist["same_class_name_in_nested_scopes"] += len(set(cn_)) != len(cn_)
        names = {}
        for c in p["containers"]:
            path = c["path"]
            nsdepth = sum(1 for k, _ in path if is_ns(k))
            dist["flattened_namespace"] += any(k == "nsf" for k, _ in path)
            dist["depth>=2"] += nsdepth >= 2
            dist["depth>=3"] += nsdepth >= 3
            dist["class_in_namespace"] += bool(path) and path[-1][0] == "cls" and nsdepth >= 1
            dist["class_template_instantiations"] += bool(c.get("tmpl"))
            dist["scopes_with_block_groups"] += any(f.get("block") is not None for f in c["fns"])
            dist["functions_with_cpp_if"] += sum(1 for f in c["fns"] if f.get("cpp_if"))
            dist["functions_with_own_wrap_options"] += sum(1 for f in c["fns"] if f.get("wrap"))
            pos = {}
            for i, f in enumerate(c["fns"]):
                pos.setdefault(f["name"], []).append(i)
            dist["non_adjacent_overload_sets"] += sum(1 for v in pos.values() if len(v) > 1 and v[-1] - v[0] + 1 > len(v))
            dist["members_using_template_parameter"] += sum(1 for f in c["fns"] if f.get("usesT"))
            seen = {}
            for f in c["fns"]:
                dist["functions"] += 1
                dist["with_defaults"] += f["ndefaults"] > 0
                dist["with_template"] += bool(f["tinst"])
                dist["with_generics"] += bool(f["generics"])
                dist["with_bufferify"] += f["hasBuf"]
                dist["with_F_CFI_clone"] += bool(f["hasBuf"] and f.get("cfi"))
                dist["with_ctor"] += f["isCtor"]
                dist["explicit_suffix"] += f["suffix"] is not None or bool(f["dsuffix"])
                seen[f["name"]] = seen.get(f["name"], 0) + 1
            dist["overload_sets>=2"] += sum(1 for v in seen.values() if v > 1)
            for n in seen:
                names.setdefault(n, set()).add(tuple(path))
        dist["same_name_in_two_scopes"] += any(len(v) > 1 for v in names.values())
        mods = {}
        for c in p["containers"]:
            if c["path"] and c["path"][-1][0] == "cls":
                cnt = {}
                for f in c["fns"]:
                    if not f["isCtor"]:
                        cnt[f["name"]] = cnt.get(f["name"], 0) + 1 + f["ndefaults"] + max(0, len(f["generics"]) - 1)
                mods.setdefault(scope_info(p, c["path"])[3], []).append(cnt)
        for lst in mods.values():
            if len(lst) >= 2:
                dist["modules_with>=2_classes"] += 1
                shared = {n for i, a in enumerate(lst) for n in a for b in lst[i + 1:] if n in b}
                dist["method_name_shared_by_classes"] += bool(shared)
                dist["shared_method_overloaded_in_some_single_in_others"] += any(
                    {min(1, a[n] - 1) for a in lst if n in a} == {0, 1} for n in shared)
    return {k: int(v) for k, v in dist.items()}


def run(ctx):
    thorough = ctx.tier == "thorough"
    del GI_REQS[:]
    del MT_REQS[:]
    ok = ctx.lean(MODULES, THEOREMS, extra_targets=("drv_names",))
    drv = common.Driver("drv_names")
    r = common.rng("c08")
    ctx.cov["trusted_base"] = [
        "Lean 4.33.0 kernel; axioms within {propext, Classical.choice, Quot.sound}",
        "hand-written model Model/Names.lean of define_function_suffix (incl. class-template instantiation scopes) / Namify / un_camel / "
        "wrapf generic tables / wrapp+wrapl method tables, tied by differential correspondence",
        "identifiers and suffixes are ASCII (str.isupper/islower/lower modelled on ASCII)",
        "documented names: regression/reference/<config> of the checkout, corpus/c08_uncamel.txt, the name templates of docs/reference.rst",
    ]
    ctx.cov["rule"] = ("expansion: every per-function configuration below the bound (<=2 defaults x <=2 instantiations x <=2 generics x "
                       "explicit/default suffixes), all pairs/triples of overloads over reduced configurations, <=3 names, namespaces nested "
                       "up to 3 deep with and without F_flatten_namespace, classes inside namespaces, 2-4 classes per module sharing method names, "
                       "class templates with 1-3 instantiations and members using the template parameter, declarations grouped in `block:` "
                       "groups, overload sets adjacent / interleaved / split by other declarations wrapped for all four languages, same names "
                       "in several scopes, libraries wrapped for a subset of the languages and overloads with their own wrap options, classes of the "
                       "same name in nested scopes declared outer-first and inner-first, option F_CFI on single functions / overload sets / default-argument and "
                       "fortran_generic variants with a string argument (with and without their own C wrapper), "
                       "explicit C_prefix, all wrap-flag combinations; seeded random programs above the bound. un_camel: every string over "
                       "{a,B,C,1,_} up to a length bound + random identifiers + frozen documented table. Non-trivial = the implementation "
                       "produced at least one clone; distinct = distinct request lines.")
    ctx.assumptions += [
        "theorems are about the Lean model; the model is validated against the Python code by differential testing on generated inputs only",
        "distinctness is proved inside the stated domain (CoreOK / FortranOK / ScopesSep / FScopesSep / PyNamesPF): explicit suffixes attached "
        "to the entry points of one name pairwise distinct single `_token`s not of the form _<digits>, templated entry points (function "
        "templates, members using a class template parameter) without bufferify or fortran_generic and sharing their name only with "
        "templated entry points of different suffixes, scope + underscore forms of different names not prefixes of one another",
        "module_entities_distinct_partial takes as given that no generic interface name equals a specific and that derived-type / "
        "enumeration names are apart from both (those names are not modelled)",
        "return_this, assumed-rank, fortran_generic_c variants, CFI / bufferify clones caused by results or vector arguments (the model's clones come from a std::string argument), explicit C_cfi_suffix / C_bufferify_suffix, format overrides of single names and the names of Fortran abstract "
        "interfaces (callback arguments) are not modelled; the last two are covered by implementation-only oracles",
    ]
    from shroud import ast as sast, util as sutil

    # ---------------- tie (T): templates
    disagreements = []
    if drv.available() and ok:
        model_t = drv.run(["tm"])[0].split(" ")
        o = sast.LibraryNode().options
        real_t = [o.C_name_template, o.F_C_name_template, o.F_name_impl_template, o.F_name_function_template,
                  o.F_name_generic_template]
        ctx.count(5)
        if model_t != real_t:
            ctx.tie_broken("name-templates", {"model": model_t, "real": real_t})
    else:
        ctx.tie_broken("names-correspondence", "driver not built")

    # ---------------- oracle: un_camel against the frozen documented table (implementation only)
    frozen_un_camel(ctx, sutil)

    # ---------------- tie (D): un_camel
    ucs = list(dict.fromkeys(uc_strings(thorough, r)))
    real_uc = []
    for s in ucs:
        try:
            real_uc.append(common.enc(sutil.un_camel(s)))
        except Exception as e:  # noqa
            real_uc.append("crash " + type(e).__name__)
    ctx.count(len(ucs))
    uc_bad = []
    if drv.available() and ok:
        model_uc = drv.run(["uc " + common.enc(s) for s in ucs])
        for s, a, b in zip(ucs, real_uc, model_uc):
            if a != b:
                uc_bad.append({"input": s, "impl": a, "model": b})
            if common.dec(a) != s if not a.startswith("crash") else True:
                ctx.nontrivial("uc:" + s)
        if uc_bad:
            ctx.tie_broken("un_camel-correspondence", uc_bad[:5])
    ctx.note("un_camel_cases", len(ucs))

    # ---------------- tie (D): expansion
    progs = []
    cpath = os.path.join(common.CORPUS, "c08.txt")
    if os.path.exists(cpath):
        for ln in open(cpath):
            ln = ln.strip()
            if ln and not ln.startswith("#"):
                progs.append(normalize(json.loads(ln)))
    ncorpus = len(progs)
    progs.extend(scope_programs(thorough, r))
    progs.extend(class_programs(thorough, r))
    progs.extend(class_template_programs(thorough, r))
    blocked = [with_blocks(p, i % 3) for i, p in enumerate(progs[ncorpus:]) if i % (2 if thorough else 4) == 0]
    progs.extend(blocked)
    tables = list(table_programs(thorough, r))
    progs.extend(tables)
    cppifs = list(cppif_programs(thorough, r))
    progs.extend(cppifs)
    wflags = list(wrapflag_programs(thorough, r)) + list(nested_class_programs(thorough, r))
    progs.extend(wflags)
    cfis = list(cfi_programs(thorough, r))
    progs.extend(cfis)
    nscope = len(progs) - ncorpus
    progs.extend(exhaustive_programs(thorough, r))
    nexh = len(progs) - ncorpus - nscope
    nrand = 5000 if thorough else 550
    for _ in range(nrand):
        progs.append(random_program(r))
    ctx.note("distribution", distribution(progs))
    runs = batch_programs(progs)
    reqs = [enc_prog(p) for p in runs]
    impl = [real_expand(p) for p in runs]
    ctx.count(len(progs))
    if drv.available() and ok:
        model = drv.run(reqs)
        for p, q, a, b in zip(runs, reqs, impl, model):
            if a != b:
                if len(disagreements) < 5:
                    disagreements.append({"prog": p, "impl": a, "model": b})
                else:
                    disagreements.append(None)
            if a.startswith("crash"):
                continue
            for ci, cont in enumerate(a.split("#")):
                if "has_default_arg" in cont or "cxx_template" in cont or "fortran_generic" in cont or "arg_to_buffer" in cont or "arg_to_cfi" in cont:
                    ctx.nontrivial("%s#%d" % (q, ci))
        if disagreements:
            ctx.tie_broken("expand-correspondence", [d for d in disagreements if d][:5])
    ctx.note("corpus_programs", ncorpus)
    ctx.note("scope_programs", nscope)
    ctx.note("exhaustive_programs", nexh)
    ctx.note("random_programs", nrand)
    ctx.note("library_runs", len(runs))
    ctx.note("disagreements", len(disagreements) + len(uc_bad))
    ctx.note("impl_crashes", sum(1 for a in impl if a.startswith("crash")))
    ctx.note("records_compared", sum(a.count(";") + a.count("#") + 1 for a in impl if not a.startswith("crash")))
    for p, a in list(zip(runs, impl))[:: max(1, len(runs) // 5)][:5]:
        ctx.sample({"prog": p, "impl": a[:400]})

    # ---------------- oracle: duplicate names straight from generate_functions (implementation only)
    dom = [p for p in progs if in_domain(p)]
    ctx.note("programs_in_domain", len(dom))
    outside_dups = 0
    nrep = 0
    for p, a in zip(runs, impl):
        if a.startswith("crash"):
            continue
        cn, fi = [], {}
        for c, cont in zip(p["containers"], a.split("#")):
            if cont == "~" or cont.startswith("scope-missing"):
                continue
            module = scope_info(p, c["path"])[3]
            for rec in cont.split(";"):
                f = rec.split("|")
                if f[5] != "N":
                    cn.append(common.dec(f[5][1:]))
                if f[7] != "N":
                    fi.setdefault(module, []).append(common.dec(f[7][1:]).lower())
        dups = sorted({x for x in cn if cn.count(x) > 1} | {x for lst in fi.values() for x in lst if lst.count(x) > 1})
        if dups:
            if in_domain(p):
                nrep += 1
                if nrep <= 5:
                    ctx.fail("dup-names:generate_functions", "generate_functions gives the same name to two wrappers: %s" % dups,
                             {"prog": p, "yaml": program_yaml(p)})
            else:
                outside_dups += 1
    ctx.note("duplicate_names_outside_domain", outside_dups)

    # ---------------- known issues outside the domain hypothesis: recorded, never an alarm
    def clash(fns):
        a = real_expand(root_prog(fns))
        cn = [x for x in (rec.split("|")[5] for rec in a.split(";")) if x != "N"] if not a.startswith("crash") else []
        return len(set(cn)) != len(cn)
    ctx.note("explicit_suffix__1_clashes_with_auto_numbering", clash([mkfn("f", suffix="_1"), mkfn("f"), mkfn("f")]))
    ctx.note("function_named_like_auto_suffix_clashes", clash([mkfn("get"), mkfn("get"), mkfn("get_1")]))
    ctx.note("multi_argument_template_suffix_clashes_with_overload_numbering",
             clash([mkfn("f"), mkfn("f"), mkfn("f", nparams=2, tinst=TK[3])]))
    ctx.note("explicit_function_suffix_inherited_by_default_clones_clashes", clash([mkfn("f", nparams=2, ndefaults=1, suffix="_x")]))

    # ---------------- oracle: documented reference outputs of the upstream inputs
    reference_names(ctx, thorough)

    # ---------------- oracle: full generation + output scan (implementation only)
    def interesting(p):
        return (p.get("cprefix") != "" and p["wrap"][0] and p["wrap"][1] and
                (len(p["containers"]) > 1 or any(k == "nsf" for c in p["containers"] for k, _ in c["path"]) or
                 any(fn["ndefaults"] or fn["tinst"] or fn["generics"] or fn["hasBuf"] for c in p["containers"] for fn in c["fns"])))
    cand = [p for p in dom if interesting(p)]
    scoped = [p for p in cand if len(p["containers"]) > 1 or p["containers"][0]["path"]]
    plain = [p for p in cand if not (len(p["containers"]) > 1 or p["containers"][0]["path"])]
    nfull = (300 if thorough else 22) * (3 if ctx.broken else 1)
    tmplc = [p for p in cand if any(c.get("tmpl") for c in p["containers"])]
    tabs = [p for p in cfis if in_domain(p)][:: (1 if thorough else 2)] + [p for p in wflags if in_domain(p)] + [p for p in tables if in_domain(p)] + [p for p in cppifs if in_domain(p)][:: (1 if thorough else 2)]
    blk = [p for p in blocked if in_domain(p) and any(c.get("tmpl") for c in p["containers"])]
    pick = ([p for p in progs[:ncorpus] if in_domain(p)] + tmplc[:: max(1, len(tmplc) // (18 if thorough else 5))] +
            tabs[:: (1 if thorough else 2)] + blk[:: max(1, len(blk) // (12 if thorough else 4))] +
            scoped[:: max(1, len(scoped) // nfull)][:nfull] + plain[:: max(1, len(plain) // nfull)][:nfull])
    # make sure the scanners see Python and Lua tables as well
    extra = []
    for p in pick[:: max(1, len(pick) // (60 if thorough else 10))]:
        q = normalize(json.loads(json.dumps(p)))
        q["wrap"] = (True, True, True, True)
        # Python/Lua method tables are flat per module/class: names must be distinct program-wide there
        clsn = [c["path"][-1][1] for c in q["containers"] if c["path"] and c["path"][-1][0] == "cls"]
        free = [n for c in q["containers"] if not (c["path"] and c["path"][-1][0] == "cls") for n in {f["name"] for f in c["fns"]}]
        if (not any(fn["hasBuf"] for c in q["containers"] for fn in c["fns"])
                and len(set(clsn)) == len(clsn) and len(set(free)) == len(free)):
            extra.append(q)
    nfail = 0
    for p in pick + extra:
        if oracle_full(ctx, p, "full"):
            nfail += 1
            if nfail > 3:
                break
    # template + default arguments (repaired in /repo 22341aa): (d+1) x t entry points with documented names
    oracle_full(ctx, root_prog([mkfn("tmpl", nparams=3, ndefaults=2, tinst=TK[2])]), "full")
    # class-template member with default arguments (repaired in /repo 8609034)
    insts2 = [dict(explicit=None, types=["int"]), dict(explicit=None, types=["double"])]
    oracle_full(ctx, dict(library="nm", wrap=(True, True, False, False), cprefix=None, containers=[
        tmpl_container([], "vec", insts2, i, [mkfn("fill", nparams=3, ndefaults=2, usesT=True), mkfn("push", usesT=True)])
        for i in range(2)]), "full")
    oracle_assumed_rank(ctx)
    oracle_abstract_interfaces(ctx, thorough)
    oracle_flatten_types(ctx)
    ctx.note("full_generations", len(pick) + len(extra) + 3)
    if drv.available() and ok:
        gi_correspondence(ctx, drv)
        mt_correspondence(ctx, drv)


def replay(path):
    d = json.load(open(path))

    class C(object):
        notes = {}

        def count(self, n=1):
            pass

        def note(self, k, v):
            self.notes[k] = v

        def fail(self, key, what, replay):
            print("FAIL", key, "->", what)
            return True
    c = C()
    for f in d.get("failing", []):
        rp = f["replay"]
        if "un_camel" in rp:
            from shroud import util
            print(f["key"], "->", repr(util.un_camel(rp["un_camel"])), "documented", repr(rp["documented"]))
            continue
        if "corpus" in rp:
            print(f["key"], "->", f["what"])
            continue
        prog = rp.get("prog")
        if prog is None:
            continue
        prog = normalize(prog)
        print(f["key"])
        print(real_expand(prog).replace(";", "\n"))
        oracle_full(c, prog, "full")
    return 0
