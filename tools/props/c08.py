"""C08 Every callable C++ signature gets exactly one, distinct wrapper name.

Proof: lean/ShroudVerif/Props/C08.lean over the model Model/Names.lean.
Tie (T): name templates of LibraryNode.default_options vs the model's templates.
Tie (D): real ast.create_library_from_dictionary + generate.generate_functions vs the Lean driver
         (ordered list of (ast.name, arity, _generated, wrap flags, _overloaded, all names) per container);
         real util.un_camel vs the model.
Oracle: full generation into a scratch dir, then scan the emitted C / Fortran / Python / Lua sources
        for duplicate definitions, missing entry points and wrong generic-interface membership.
"""
import io
import itertools
import json
import os
import re

from tools import common

LEVEL = "proof"
MANIFEST = dict(
    category="proof",
    text="Lean 4 theorems over a model of GenFunctions.define_function_suffix (default-argument clones, template clones, "
         "overload numbering, bufferify and fortran_generic clones), Namify and util.un_camel: entry-point counts, pairwise "
         "distinct C and Fortran names for every overload set inside the stated domain, generic-interface membership, "
         "template-determined names, un_camel characterisation; the model is tied to generate.py/ast.py/util.py on every run by "
         "differential correspondence (exhaustive below a size bound, seeded sampling above); an implementation-only oracle "
         "generates the wrappers and scans them for duplicate or missing names.",
    design="3 C08",
    note="Trusted: Lean kernel; the hand-written model (validated on generated inputs only); ASCII identifiers. Distinctness is "
         "proved for default/template/overload expansion (C and Fortran names of one scope); for bufferify/fortran_generic "
         "clones it is proved as a separate extension lemma under an extra no-collision hypothesis. Class template "
         "instantiation, return_this, CFI, assumed-rank and fortran_generic_c variants are not modelled.",
    technique="Lean 4 proof by induction over the expansion + differential correspondence model/implementation + output scan",
)
MODULES = ["ShroudVerif.Props.C08"]
THEOREMS = {
    "ShroudVerif.Props.C08": [
        "Shroud.Names.unCamel_inserts",
        "Shroud.Names.unCamel_noUpper",
        "Shroud.Names.unCamel_idempotent",
        "Shroud.Names.autoSuffix_injective",
        "Shroud.Names.autoSuffix_isAuto",
        "Shroud.Names.stage1Fn_length",
        "Shroud.Names.count_c_entry_points",
        "Shroud.Names.count_fortran_specifics",
        "Shroud.Names.core_names_nodup",
        "Shroud.Names.c_names_distinct",
        "Shroud.Names.fortran_names_distinct",
        "Shroud.Names.explicit_suffix_clash",
        "Shroud.Names.distinct_underscore_forms_insufficient",
        "Shroud.Names.expand_c_names_distinct_partial",
        "Shroud.Names.generic_interface_members",
        "Shroud.Names.c_name_predictable",
        "Shroud.Names.f_names_predictable",
    ]
}

NATIVE = ["int", "long", "float", "double"]


# ------------------------------------------------------------------ descriptions
def mkfn(name, nparams=1, ndefaults=0, suffix=None, dsuffix=(), tinst=(), generics=(), hasBuf=False, isCtor=False):
    # fortran_generic on a function whose C prototype "order" differs from the generic's (no required parameter,
    # or a second template parameter) makes generic_function add a fortran_generic_c variant: not modelled.
    if nparams - ndefaults == 0 or any(len(t["types"]) > 1 for t in tinst):
        generics = ()
    return dict(name=name, nparams=nparams, ndefaults=ndefaults, suffix=suffix, dsuffix=list(dsuffix),
                tinst=[dict(t) for t in tinst], generics=list(generics), hasBuf=hasBuf, isCtor=isCtor)


def fn_decl(fn, ov, clsname=None):
    """C++ declaration text for a description (overload number `ov` picks the parameter type)."""
    ty = NATIVE[ov % 4]
    params = []
    ntargs = max([len(t["types"]) for t in fn["tinst"]], default=0)
    for i in range(fn["nparams"]):
        if fn["hasBuf"] and i == 0:
            p = "const std::string & a0"
        elif fn["tinst"] and i == 0:
            p = "T a0"
        elif fn["tinst"] and i == 1 and ntargs == 2:
            p = "U a1"
        elif fn["generics"] and i == 0:
            p = "double a0"
        else:
            p = "%s a%d" % (ty, i)
        if i >= fn["nparams"] - fn["ndefaults"]:
            p += " = %d" % i
        params.append(p)
    if fn["isCtor"]:
        head = clsname
    else:
        head = "void " + fn["name"]
    decl = "%s(%s)" % (head, ", ".join(params))
    if fn["tinst"]:
        decl = ("template<typename T, typename U> " if ntargs == 2 else "template<typename T> ") + decl
    return decl


def fn_yaml(fn, ov, clsname=None):
    d = {"decl": fn_decl(fn, ov, clsname)}
    if fn["suffix"] is not None:
        d["format"] = {"function_suffix": fn["suffix"]}
    if fn["dsuffix"]:
        d["default_arg_suffix"] = list(fn["dsuffix"])
    if fn["tinst"]:
        lst = []
        for t in fn["tinst"]:
            e = {"instantiation": "<%s>" % ",".join(t["types"])}
            if t["explicit"] is not None:
                e["format"] = {"template_suffix": t["explicit"]}
            lst.append(e)
        d["cxx_template"] = lst
    if fn["generics"]:
        lst = []
        for j, g in enumerate(fn["generics"]):
            e = {"decl": "(%s a0)" % ["float", "double", "int", "long"][j % 4]}
            if g is not None:
                e["function_suffix"] = g
            lst.append(e)
        d["fortran_generic"] = lst
    return d


def normalize(prog):
    """JSON round trip turns tuples into lists; restore the hashable forms."""
    prog["wrap"] = tuple(prog["wrap"])
    prog["containers"] = [dict(path=[tuple(s) for s in c["path"]], fns=c["fns"]) for c in prog["containers"]]
    return prog


def program_yaml(prog):
    """prog = dict(library, wrap=(c,f,py,lua), containers=[dict(path=[(kind,name)..], fns=[...])])."""
    w = prog["wrap"]
    top = {"library": prog["library"],
           "options": {"wrap_c": w[0], "wrap_fortran": w[1], "wrap_python": w[2], "wrap_lua": w[3]},
           "declarations": []}
    nodes = {(): top}

    def node_for(path):
        path = tuple(path)
        if path in nodes:
            return nodes[path]
        parent = node_for(path[:-1])
        kind, name = path[-1]
        d = {"decl": ("namespace " if kind == "ns" else "class ") + name, "declarations": []}
        parent["declarations"].append(d)
        nodes[path] = d
        return d

    for c in prog["containers"]:
        n = node_for(c["path"])
        clsname = c["path"][-1][1] if c["path"] and c["path"][-1][0] == "cls" else None
        seen = {}
        for fn in c["fns"]:
            ov = seen.get(fn["name"], 0)
            seen[fn["name"]] = ov + 1
            n["declarations"].append(fn_yaml(fn, ov, clsname))
    return top


class _Cfg(object):
    pass


def real_generate(yd):
    from shroud import ast, generate, typemap
    typemap.initialize()
    lib = ast.create_library_from_dictionary(json.loads(json.dumps(yd)))
    cfg = _Cfg()
    cfg.log = io.StringIO()
    with contextlib_redirect():
        generate.generate_functions(lib, cfg)
    return lib


class contextlib_redirect(object):
    def __enter__(self):
        import sys
        self._o = sys.stdout
        sys.stdout = io.StringIO()

    def __exit__(self, *a):
        import sys
        sys.stdout = self._o


def find_node(lib, path):
    node = lib.wrap_namespace
    for kind, name in path:
        if kind == "ns":
            node = [n for n in node.namespaces if n.name == name][0]
        else:
            node = [n for n in node.classes if n.name == name][0]
    return node


def opt(fmt, name):
    return ("S" + common.enc(fmt.get(name))) if fmt.inlocal(name) else "N"


def real_records(node):
    out = []
    for f in node.functions:
        w = f.wrap
        fm = f.fmtdict
        out.append("|".join([
            common.enc(f.ast.name), str(len(f.ast.params)), str(f._generated),
            "".join("1" if b else "0" for b in (w.c, w.fortran, w.python, w.lua)),
            "1" if f._overloaded else "0",
            opt(fm, "C_name"), opt(fm, "F_C_name"), opt(fm, "F_name_impl"), opt(fm, "F_name_function"),
            opt(fm, "F_name_generic")]))
    return ";".join(out) if out else "~"


def real_expand(prog):
    try:
        lib = real_generate(program_yaml(prog))
    except Exception as e:  # noqa
        return "crash " + type(e).__name__
    return "#".join(real_records(find_node(lib, c["path"])) for c in prog["containers"])


FLAT = {"int": "_int", "long": "_long", "float": "_float", "double": "_double"}


def enc_opt(s):
    return "N" if s is None else "S" + common.enc(s)


def enc_fn(fn):
    ti = "+".join("%s/%d/%s" % (enc_opt(t["explicit"]), len(t["types"]), common.enc(FLAT[t["types"][0]]))
                  for t in fn["tinst"]) or "~"
    return ":".join([
        common.enc(fn["name"]), str(fn["nparams"]), str(fn["ndefaults"]), enc_opt(fn["suffix"]),
        "+".join(common.enc(s) for s in fn["dsuffix"]) or "~", ti,
        "+".join(enc_opt(g) for g in fn["generics"]) or "~",
        "1" if fn["hasBuf"] else "0", "1" if fn["isCtor"] else "0"])


def enc_container(c):
    path = "/".join(("c=" if k == "cls" else "n=") + common.enc(n) for k, n in c["path"]) or "~"
    return path + "@" + ("!".join(enc_fn(f) for f in c["fns"]) or "~")


def enc_prog(prog):
    w = "".join("1" if b else "0" for b in prog["wrap"])
    return "ex %s %s %s" % (w, common.enc(prog["library"]), " ".join(enc_container(c) for c in prog["containers"]))


# ------------------------------------------------------------------ generators
def t_int(explicit=None):
    return dict(explicit=explicit, types=["int"])


TK = {
    0: [],
    1: [t_int()],
    2: [t_int(), dict(explicit=None, types=["double"])],
    3: [dict(explicit=None, types=["int", "long"]), dict(explicit=None, types=["float", "double"])],
    4: [t_int("_i32"), dict(explicit="", types=["double"])],
}


def single_configs():
    """Every per-function configuration below the bound (<=2 defaults, <=2 instantiations, <=2 generics)."""
    for nd, tk, ng, sfx, ds, hb in itertools.product((0, 1, 2), (0, 1, 2, 3, 4), (0, 1, 2), (None, "_x"), (0, 1, 2), (False, True)):
        npar = nd + (2 if tk == 3 else 1) + (1 if ng and tk != 3 else 0)
        dsl = [] if ds == 0 else (["_d%d" % k for k in range(nd + 1)] if ds == 1 else ["_d0"])
        gens = [None, "_dbl"][:ng]
        if hb and tk:
            continue
        yield mkfn("fooBar", nparams=npar, ndefaults=nd, suffix=sfx, dsuffix=dsl, tinst=TK[tk], generics=gens, hasBuf=hb)


def small_configs(level):
    if level == 2:
        space = itertools.product((0, 1, 2), (0, 2), (0, 2), (None, "E"))
    else:
        space = itertools.product((0, 1), (0, 1), (0, 1), (None,))
    for nd, tk, ng, sfx in space:
        yield (nd, tk, ng, sfx)


def mk_small(name, cfg, idx):
    nd, tk, ng, sfx = cfg
    return mkfn(name, nparams=nd + 1 + (1 if ng else 0), ndefaults=nd, suffix=(None if sfx is None else "_e%d" % idx),
                tinst=TK[tk], generics=[None, None][:ng])


def root_prog(fns, wrap=(True, True, False, False), library="nm"):
    return dict(library=library, wrap=wrap, containers=[dict(path=[], fns=fns)])


def exhaustive_programs(thorough, r):
    # one function, every configuration
    for fn in single_configs():
        yield root_prog([fn])
    # two overloads
    cfgs2 = list(small_configs(2))
    for a, b in itertools.product(cfgs2, repeat=2):
        yield root_prog([mk_small("fooBar", a, 0), mk_small("fooBar", b, 1)])
    # three overloads
    cfgs1 = list(small_configs(1))
    for a, b, c in itertools.product(cfgs1, repeat=3):
        yield root_prog([mk_small("get", a, 0), mk_small("get", b, 1), mk_small("get", c, 2)])
    # up to three names, one or two overloads each (interleaved declaration order)
    names = ["foo", "fooBar", "getHTTPCode"]
    groups = [[(a,) for a in cfgs1] + [(a, b) for a in cfgs1[:4] for b in cfgs1[:4]]] * 3
    allc = list(itertools.product(*groups))
    if not thorough:
        allc = r.sample(allc, 1200)
    for combo in allc:
        fns = []
        for j in range(2):
            for nm, grp in zip(names, combo):
                if j < len(grp):
                    fns.append(mk_small(nm, grp[j], j))
        yield root_prog(fns)
    # namespaces / classes
    paths = [[], [("ns", "outer")], [("cls", "Cls1")], [("ns", "outer"), ("cls", "Cls1")],
             [("ns", "outer"), ("ns", "Inner")], [("ns", "outer"), ("ns", "Inner"), ("cls", "myClass")]]
    for k in (1, 2, 3):
        for ps in itertools.combinations(paths, k):
            for cfg in cfgs1[:4]:
                conts = []
                for p in ps:
                    fns = [mk_small("doIt", cfg, 0), mk_small("doIt", cfgs1[0], 1), mk_small("other", cfg, 0)]
                    if p and p[-1][0] == "cls":
                        fns = [mkfn("ctor", nparams=0, isCtor=True), mkfn("ctor", nparams=2, ndefaults=1, isCtor=True)] + fns
                    conts.append(dict(path=p, fns=fns))
                yield dict(library="library", wrap=(True, True, False, False), containers=conts)
    for wrap in itertools.product((False, True), repeat=4):
        yield root_prog([mk_small("fooBar", (1, 2, 2, None), 0), mk_small("fooBar", (0, 0, 0, None), 1),
                         mkfn("str", nparams=2, ndefaults=1, hasBuf=True)], wrap=wrap)


SUFFIX_POOL = [None, None, None, "_x", "_y", "_1", "_0", "", "_Flt", "_10", "x", "_bufferify", "_0_1"]
NAME_POOL = ["f", "foo", "fooBar", "FooBar", "getHTTPResponseCode", "get", "get_1", "aB", "XMLParser", "x1Y", "foo_bar"]


def random_program(r):
    conts = []
    paths = [[], [("ns", "outer")], [("cls", "Cls1")], [("ns", "outer"), ("cls", "Cls2")], [("ns", "ns2")]]
    for p in r.sample(paths, r.randrange(1, 4)):
        fns = []
        names = r.sample(NAME_POOL, r.randrange(1, 6))
        for _ in range(r.randrange(1, 9)):
            nd = r.randrange(0, 4)
            tk = r.choice([0, 0, 0, 1, 2, 3, 4])
            hb = (tk == 0) and r.random() < 0.2
            ng = r.choice([0, 0, 0, 1, 2, 3])
            ds = r.choice([0, 0, 1, 2])
            dsl = [] if ds == 0 else [r.choice(["_d%d" % k, "_%d" % k, ""]) for k in range(r.randrange(1, nd + 2))]
            tinst = [dict(t) for t in TK[tk]]
            if tk and r.random() < 0.3:
                tinst.append(dict(explicit=r.choice([None, "_third", "_0"]), types=list(tinst[0]["types"])))
            fns.append(mkfn(r.choice(names), nparams=nd + (2 if tk == 3 else 1) + r.randrange(0, 2), ndefaults=nd,
                            suffix=r.choice(SUFFIX_POOL), dsuffix=dsl, tinst=tinst,
                            generics=[r.choice([None, None, "_g%d" % j, "_1"]) for j in range(ng)], hasBuf=hb))
        if p and p[-1][0] == "cls" and r.random() < 0.7:
            for k in range(r.randrange(1, 4)):
                fns.insert(r.randrange(0, len(fns) + 1), mkfn("ctor", nparams=k + 1, ndefaults=r.randrange(0, 2), isCtor=True,
                                                               suffix=r.choice([None, None, "_c%d" % k])))
        conts.append(dict(path=p, fns=fns))
    wrap = (r.random() < 0.9, r.random() < 0.9, r.random() < 0.3, r.random() < 0.3)
    return dict(library=r.choice(["nm", "library", "ab", "Tutorial"]), wrap=wrap, containers=conts)


# ------------------------------------------------------------------ oracle (implementation only)
def in_domain(prog):
    """The property's hypothesis, decided on the input alone: explicit suffixes attached to the entry points of
    one name are pairwise distinct and not of the form _<digits>; a templated function has no default arguments
    and shares its name with no other function; underscore forms of distinct names are not prefixes of each other
    (per scope; scopes are disjoint by construction of the generator)."""
    from shroud import util  # un_camel is part of the documented name rule
    auto = re.compile(r"^_[0-9]+$")
    stems = []
    for c in prog["containers"]:
        byname = {}
        for fn in c["fns"]:
            byname.setdefault(fn["name"], []).append(fn)
        for name, fns in byname.items():
            stems.append("_".join(n for _, n in c["path"]) + "|" + util.un_camel(name))
            expl = []
            for fn in fns:
                if fn["tinst"]:
                    if fn["ndefaults"] or len(fns) > 1:
                        return False
                    ts = []
                    for i, t in enumerate(fn["tinst"]):
                        ts.append(t["explicit"] or (FLAT[t["types"][0]] if len(t["types"]) == 1 else "_%d" % i))
                    if len(set(ts)) != len(ts):
                        return False
                gs = [g if g is not None else "_%d" % j for j, g in enumerate(fn["generics"])]
                if len(set(gs)) != len(gs):
                    return False
                for k in range(fn["ndefaults"] + 1):
                    if fn["ndefaults"] and k < len(fn["dsuffix"]):
                        expl.append(fn["dsuffix"][k])
                    elif fn["suffix"] is not None:
                        expl.append(fn["suffix"])
            if len(set(expl)) != len(expl) or any(auto.match(e) for e in expl):
                return False
            low = [e.lower() for e in expl]
            if len(set(low)) != len(low):
                return False
            if any("_bufferify" in e for e in expl):
                return False
            if (expl or any(fn["generics"] for fn in fns)) and len(fns) + sum(f["ndefaults"] for f in fns) > 1:
                # suffix concatenations (explicit + generic) are outside the proven core; keep them simple
                if any(not re.match(r"^_[a-z][a-z0-9]*$", e) for e in expl):
                    return False
    for a in stems:
        for b in stems:
            if a != b and b.startswith(a):
                return False
    return True


C_DEF = re.compile(r"^[A-Za-z_][\w \*&:<>,]*?\b(\w+)\($")
F_PROC = re.compile(r"^\s*(?:[\w\(\)=, \*]*\s)?(?:subroutine|function)\s+(\w+)\s*\(", re.I)


def scan_outputs(files, prog):
    """Return list of (key, what) problems found in the generated sources."""
    problems = []
    ftab = {}
    prefix = prog["library"].upper()[:3] + "_"
    cdefs = []
    for fn, data in files.items():
        text = data.decode()
        if fn.startswith("wrap") and (fn.endswith(".cpp") or fn.endswith(".c")):
            lines = text.split("\n")
            for i, ln in enumerate(lines[:-1]):
                m = re.match(r"^[A-Za-z_].*?\b(" + re.escape(prefix) + r"\w+)\(", ln)
                if m and not ln.rstrip().endswith(";"):
                    # a definition: the closing parenthesis line is followed by '{'
                    j = i
                    while j < len(lines) and ")" not in lines[j]:
                        j += 1
                    if (j + 1 < len(lines) and lines[j + 1].strip() == "{" and not lines[j].rstrip().endswith(";")
                            and not m.group(1).startswith(prefix + "SHROUD_")):
                        cdefs.append(m.group(1))
    dup = sorted({n for n in cdefs if cdefs.count(n) > 1})
    if dup:
        problems.append(("dup-c", "C function defined more than once: %s" % ", ".join(dup)))
    # Fortran
    for fn, data in files.items():
        if not fn.endswith(".f"):
            continue
        text = data.decode()
        # join continuation lines
        text = re.sub(r"&\n\s*", "", text)
        procs, binds, ifaces = [], [], {}
        cur_iface = None
        in_contains = False
        depth_iface = 0
        for ln in text.split("\n"):
            s = ln.strip()
            low = s.lower()
            if low.startswith("!"):
                continue
            if low == "contains":
                in_contains = True
                continue
            m = re.match(r"^interface\s+(\w+)$", s, re.I)
            if m:
                cur_iface = m.group(1)
                if cur_iface.lower() in ifaces:
                    problems.append(("dup-f-interface", "generic interface %s declared twice in %s" % (cur_iface, fn)))
                ifaces.setdefault(cur_iface.lower(), [])
                continue
            if low.startswith("end interface"):
                cur_iface = None
                continue
            m = re.match(r"^module procedure\s+(\w+)$", s, re.I)
            if m and cur_iface:
                ifaces[cur_iface.lower()].append(m.group(1).lower())
                continue
            m = re.match(r"^(?:[\w\(\)=,\* ]+\s)?(subroutine|function)\s+(\w+)\s*\(", s, re.I)
            if m and not low.startswith("end "):
                name = m.group(2).lower()
                if "bind(c" in low:
                    binds.append(name)
                elif in_contains:
                    procs.append(name)
        for kind, lst in (("f-proc", procs), ("f-bind", binds)):
            d = sorted({n for n in lst if lst.count(n) > 1})
            if d:
                problems.append(("dup-" + kind, "Fortran %s defined more than once in %s: %s" % (kind, fn, ", ".join(d))))
        ents = procs + binds + list(ifaces.keys())
        d = sorted({n for n in ents if ents.count(n) > 1} - {n for n in procs if procs.count(n) > 1}
                   - {n for n in binds if binds.count(n) > 1})
        if d:
            problems.append(("dup-f-entity", "Fortran module entity names coincide in %s: %s" % (fn, ", ".join(d))))
        for k, members in ifaces.items():
            if len(set(members)) != len(members):
                problems.append(("dup-f-generic-member", "generic interface %s lists a procedure twice" % k))
            for mname in members:
                if mname not in procs:
                    problems.append(("f-generic-member-missing", "generic interface %s lists %s which is not a module procedure of %s" % (k, mname, fn)))
        ftab[fn] = (procs, binds, ifaces)
    # Python / Lua method tables
    for fn, data in files.items():
        text = data.decode()
        if fn.startswith("py") and (fn.endswith(".cpp") or fn.endswith(".c")):
            for m in re.finditer(r"static PyMethodDef (\w+)\[\] = \{(.*?)\n\};", text, re.S):
                keys = re.findall(r'\{"(\w+)",', m.group(2))
                d = sorted({k for k in keys if keys.count(k) > 1})
                if d:
                    problems.append(("dup-py-method", "PyMethodDef %s has duplicate keys %s" % (m.group(1), d)))
        if fn.startswith("lua") and (fn.endswith(".cpp") or fn.endswith(".c")):
            for m in re.finditer(r"static const struct luaL_Reg (\w+) \[\] = \{(.*?)\n\};", text, re.S):
                keys = re.findall(r'\{"(\w+)",', m.group(2))
                d = sorted({k for k in keys if keys.count(k) > 1})
                if d:
                    problems.append(("dup-lua-method", "luaL_Reg %s has duplicate keys %s" % (m.group(1), d)))
    return problems, cdefs, ftab


def expected_counts(prog):
    """Documented number of C entry points and Fortran specifics, from the input alone."""
    nc = nf = 0
    w = prog["wrap"]
    for c in prog["containers"]:
        for fn in c["fns"]:
            sigs = (fn["ndefaults"] + 1) * max(1, len(fn["tinst"]))
            buf = 2 if (fn["hasBuf"] and w[0] and w[1]) else 1
            nc += sigs * buf
            nf += sigs * max(1, len(fn["generics"]))
    return nc, nf


def documented_c_names(prog):
    """C names by the documented rule (prefix, scope, underscore name, function suffix), computed from the input
    alone, for template-free programs: entry points of one name in declaration order (default-argument variants
    first), numbered _0.._n-1 when there are several unless a suffix was given explicitly."""
    from shroud import util
    names = []
    prefix = prog["library"].upper()[:3] + "_"
    w = prog["wrap"]
    for c in prog["containers"]:
        scope = "".join(n + "_" for _, n in c["path"])
        groups = {}
        for fn in c["fns"]:
            if fn["tinst"]:
                return None
            g = groups.setdefault(fn["name"], [])
            for k in range(fn["ndefaults"] + 1):
                e = fn["dsuffix"][k] if (fn["ndefaults"] and k < len(fn["dsuffix"])) else fn["suffix"]
                g.append((e, fn["hasBuf"]))
        for name, g in groups.items():
            for i, (e, hb) in enumerate(g):
                sfx = e if e is not None else ("_%d" % i if len(g) > 1 else "")
                names.append(prefix + scope + util.un_camel(name) + sfx)
                if hb and w[0] and w[1]:
                    names.append(prefix + scope + util.un_camel(name) + sfx + "_bufferify")
    return names


def oracle_full(ctx, prog, tag):
    """Generate for real; report duplicate / missing names.  Returns True if a failure was recorded."""
    import yaml
    from tools import shroudrun
    if not (prog["wrap"][0] and prog["wrap"][1]):
        return False
    d = common.scratch()
    try:
        yd = program_yaml(prog)
        path = shroudrun.write_yaml(d, "c08.yaml", yaml.safe_dump(yd, default_flow_style=False))
        cfg, exc, out = shroudrun.run_inproc([path], d)
        ctx.count(1)
        replay = {"yaml": yaml.safe_dump(yd, default_flow_style=False), "prog": prog}
        has_tdef = any(fn["tinst"] and fn["ndefaults"] for c in prog["containers"] for fn in c["fns"])
        if exc is not None:
            if has_tdef:
                return ctx.fail("template-default-args", "function template with default arguments: generation raises %s "
                                "(the default-argument clones are never instantiated), no wrapper for these signatures"
                                % type(exc).__name__, replay)
            ctx.note("generation_errors", ctx.notes.get("generation_errors", 0) + 1)
            ctx.notes.setdefault("generation_error_samples", [])
            if len(ctx.notes["generation_error_samples"]) < 3:
                ctx.notes["generation_error_samples"].append({"exc": repr(exc)[:200], "yaml": replay["yaml"]})
            return False
        files = shroudrun.read_tree(d, skip_ext=(".log", ".json", ".yaml"))
        problems, cdefs, ftab = scan_outputs(files, prog)
        failed = False
        for key, what in problems:
            failed |= bool(ctx.fail("%s:%s" % (tag, key), what, replay))
        ec, ef = expected_counts(prog)
        # a function that needs no Fortran wrapper is exposed through its bind(C) interface under the
        # Fortran name (no F_C_prefix "c_"); it counts as the specific procedure of that signature
        nprocs = sum(len(v[0]) + len([b for b in v[1] if not b.startswith("c_")]) for v in ftab.values())
        # class helper procedures (get_instance, ...) only exist for classes; compare for class-free programs
        has_cls = any(k == "cls" for c in prog["containers"] for k, _ in c["path"])
        if len(cdefs) != ec and not has_cls:
            failed |= bool(ctx.fail("%s:count-c" % tag, "expected %d C entry points, generated %d (%s)" % (ec, len(cdefs), sorted(cdefs)), replay))
        if nprocs != ef and not has_cls:
            failed |= bool(ctx.fail("%s:count-f" % tag, "expected %d Fortran specific procedures, generated %d" % (ef, nprocs), replay))
        doc = documented_c_names(prog)
        if doc is not None and not has_cls and sorted(doc) != sorted(cdefs):
            failed |= bool(ctx.fail("%s:names-c" % tag, "C entry points %s differ from the documented names %s" % (sorted(cdefs), sorted(doc)), replay))
        # generic interface membership for class-free programs: every name with >1 Fortran specific has an
        # interface listing exactly its specifics
        if not has_cls:
            from shroud import util
            expected = []
            for c in prog["containers"]:
                byname = {}
                for fn in c["fns"]:
                    byname.setdefault(fn["name"], []).append(fn)
                for name, fns in byname.items():
                    n = sum((f["ndefaults"] + 1) * max(1, len(f["tinst"])) * max(1, len(f["generics"])) for f in fns)
                    if n > 1 or any(f["generics"] for f in fns):
                        expected.append((util.un_camel(name).lower(), n))
            got = []
            for fn_, v in ftab.items():
                for g, mem in v[2].items():
                    got.append((g, len(mem)))
                    if any(not m.startswith(g) for m in mem):
                        failed |= bool(ctx.fail("%s:generic-members" % tag, "generic interface %s of %s lists %s: not all specifics of that name" % (g, fn_, mem), replay))
            if sorted(got) != sorted(expected):
                failed |= bool(ctx.fail("%s:generic-interfaces" % tag, "generic interfaces (name, members) %s, expected %s" % (sorted(got), sorted(expected)), replay))
        return failed
    finally:
        common.rmtree(d)


# ------------------------------------------------------------------ run
def uc_strings(thorough, r):
    alpha = "aBC1_"
    for n in range(0, (8 if thorough else 7)):
        for t in itertools.product(alpha, repeat=n):
            yield "".join(t)
    chars = "abcxyzABCXYZ019_"
    for _ in range(20000 if thorough else 4000):
        yield "".join(r.choice(chars) for _ in range(r.randrange(1, 24)))
    for s in NAME_POOL + ["CamelCase", "getHTTPResponseCode", "HTTPResponse", "A", "AB", "ABc", "aBc", "abC", "aBCd"]:
        yield s


def run(ctx):
    thorough = ctx.tier == "thorough"
    ok = ctx.lean(MODULES, THEOREMS, extra_targets=("drv_names",))
    drv = common.Driver("drv_names")
    r = common.rng("c08")
    ctx.cov["trusted_base"] = [
        "Lean 4.33.0 kernel; axioms within {propext, Classical.choice, Quot.sound}",
        "hand-written model Model/Names.lean of define_function_suffix / Namify / un_camel, tied by differential correspondence",
        "identifiers and suffixes are ASCII (str.isupper/islower/lower modelled on ASCII)",
    ]
    ctx.cov["rule"] = ("expansion: every per-function configuration below the bound (<=2 defaults x <=2 instantiations x <=2 generics x "
                       "explicit/default suffixes), all pairs/triples of overloads over reduced configurations, <=3 names, namespace/class "
                       "paths, all wrap-flag combinations; seeded random programs above the bound. un_camel: every string over {a,B,C,1,_} "
                       "up to a length bound + random identifiers. Non-trivial = the implementation produced at least one clone; distinct = "
                       "distinct request lines.")
    ctx.assumptions += [
        "theorems are about the Lean model; the model is validated against the Python code by differential testing on generated inputs only",
        "distinctness is proved inside the stated domain: explicit suffixes attached to the entry points of one name pairwise distinct and not "
        "of the form _<digits>, templated functions without default arguments and alone in their name, underscore forms of distinct names not "
        "prefixes of one another",
        "class template instantiation, return_this, CFI, assumed-rank, fortran_generic_c variants are not modelled",
    ]
    from shroud import ast as sast, util as sutil

    # ---------------- tie (T): templates
    disagreements = []
    if drv.available() and ok:
        model_t = drv.run(["tm"])[0].split(" ")
        o = sast.LibraryNode().options
        real_t = [o.C_name_template, o.F_C_name_template, o.F_name_impl_template, o.F_name_function_template,
                  o.F_name_generic_template]
        ctx.count(5)
        if model_t != real_t:
            ctx.tie_broken("name-templates", {"model": model_t, "real": real_t})
    else:
        ctx.tie_broken("names-correspondence", "driver not built")

    # ---------------- tie (D): un_camel
    ucs = list(dict.fromkeys(uc_strings(thorough, r)))
    real_uc = []
    for s in ucs:
        try:
            real_uc.append(common.enc(sutil.un_camel(s)))
        except Exception as e:  # noqa
            real_uc.append("crash " + type(e).__name__)
    ctx.count(len(ucs))
    uc_bad = []
    if drv.available() and ok:
        model_uc = drv.run(["uc " + common.enc(s) for s in ucs])
        for s, a, b in zip(ucs, real_uc, model_uc):
            if a != b:
                uc_bad.append({"input": s, "impl": a, "model": b})
            if common.dec(a) != s if not a.startswith("crash") else True:
                ctx.nontrivial("uc:" + s)
        if uc_bad:
            ctx.tie_broken("un_camel-correspondence", uc_bad[:5])
    ctx.note("un_camel_cases", len(ucs))

    # ---------------- tie (D): expansion
    progs = []
    cpath = os.path.join(common.CORPUS, "c08.txt")
    if os.path.exists(cpath):
        for ln in open(cpath):
            ln = ln.strip()
            if ln and not ln.startswith("#"):
                progs.append(normalize(json.loads(ln)))
    ncorpus = len(progs)
    progs.extend(exhaustive_programs(thorough, r))
    nexh = len(progs) - ncorpus
    nrand = 6000 if thorough else 1200
    for _ in range(nrand):
        progs.append(random_program(r))
    reqs = [enc_prog(p) for p in progs]
    impl = [real_expand(p) for p in progs]
    ctx.count(len(progs))
    if drv.available() and ok:
        model = drv.run(reqs)
        for p, q, a, b in zip(progs, reqs, impl, model):
            if a != b:
                if len(disagreements) < 5:
                    disagreements.append({"prog": p, "impl": a, "model": b})
                else:
                    disagreements.append(None)
            if "has_default_arg" in a or "cxx_template" in a or "fortran_generic" in a or "arg_to_buffer" in a:
                ctx.nontrivial(q)
        if disagreements:
            ctx.tie_broken("expand-correspondence", [d for d in disagreements if d][:5])
    ctx.note("corpus_programs", ncorpus)
    ctx.note("exhaustive_programs", nexh)
    ctx.note("random_programs", nrand)
    ctx.note("disagreements", len(disagreements) + len(uc_bad))
    ctx.note("impl_crashes", sum(1 for a in impl if a.startswith("crash")))
    ctx.note("records_compared", sum(a.count(";") + a.count("#") + 1 for a in impl if not a.startswith("crash")))
    for p, a in list(zip(progs, impl))[:: max(1, len(progs) // 5)][:5]:
        ctx.sample({"prog": p, "impl": a[:400]})

    # ---------------- oracle: duplicate names straight from generate_functions (implementation only)
    dom = [p for p in progs if in_domain(p)]
    ctx.note("programs_in_domain", len(dom))
    outside_dups = 0
    for p, a in zip(progs, impl):
        if a.startswith("crash"):
            continue
        for ci, cont in enumerate(a.split("#")):
            cn, fi = [], []
            if cont == "~":
                continue
            for rec in cont.split(";"):
                f = rec.split("|")
                if f[5] != "N":
                    cn.append(f[5])
                if f[7] != "N":
                    fi.append(f[7].lower())
            dupc = len(set(cn)) != len(cn)
            dupf = len(set(fi)) != len(fi)
            if dupc or dupf:
                if in_domain(p):
                    names = sorted({common.dec(x[1:]) for x in cn if cn.count(x) > 1} | {common.dec(x[1:]) for x in fi if fi.count(x) > 1})
                    ctx.fail("dup-names:generate_functions", "generate_functions gives the same name to two wrappers: %s" % names,
                             {"prog": p, "yaml": program_yaml(p)})
                else:
                    outside_dups += 1
    ctx.note("duplicate_names_outside_domain", outside_dups)

    # ---------------- known issue (design defect 18), outside the domain hypothesis: recorded, never an alarm
    p18 = root_prog([mkfn("f", suffix="_1"), mkfn("f"), mkfn("f")])
    a18 = real_expand(p18)
    cn18 = [rec.split("|")[5] for rec in a18.split(";")] if not a18.startswith("crash") else []
    ctx.note("explicit_suffix__1_clashes_with_auto_numbering", len(set(cn18)) != len(cn18))
    pg = root_prog([mkfn("get"), mkfn("get"), mkfn("get_1")])
    ag = real_expand(pg)
    cng = [rec.split("|")[5] for rec in ag.split(";")] if not ag.startswith("crash") else []
    ctx.note("function_named_like_auto_suffix_clashes", len(set(cng)) != len(cng))

    pm = root_prog([mkfn("f"), mkfn("f"), mkfn("f", nparams=2, tinst=TK[3])])
    am = real_expand(pm)
    cnm = [x for x in (rec.split("|")[5] for rec in am.split(";")) if x != "N"] if not am.startswith("crash") else []
    ctx.note("multi_argument_template_suffix_clashes_with_overload_numbering", len(set(cnm)) != len(cnm))
    pi = root_prog([mkfn("f", nparams=2, ndefaults=1, suffix="_x")])
    ai = real_expand(pi)
    cni = [rec.split("|")[5] for rec in ai.split(";")] if not ai.startswith("crash") else []
    ctx.note("explicit_function_suffix_inherited_by_default_clones_clashes", len(set(cni)) != len(cni))

    # ---------------- oracle: full generation + output scan (implementation only)
    cand = [p for p in dom if any(fn["ndefaults"] or fn["tinst"] or fn["generics"] or fn["hasBuf"] for c in p["containers"] for fn in c["fns"])]
    nfull = (400 if thorough else 60) * (3 if ctx.broken else 1)
    step = max(1, len(cand) // nfull)
    pick = cand[::step][:nfull]
    # make sure the scanners see Python and Lua tables as well
    extra = []
    for p in pick[:: max(1, len(pick) // (40 if thorough else 8))]:
        q = normalize(json.loads(json.dumps(p)))
        q["wrap"] = (True, True, True, True)
        # Python/Lua method tables are flat per module/class: names must be distinct program-wide there
        clsn = [c["path"][-1][1] for c in q["containers"] if c["path"] and c["path"][-1][0] == "cls"]
        free = [n for c in q["containers"] if not (c["path"] and c["path"][-1][0] == "cls") for n in {f["name"] for f in c["fns"]}]
        if (not any(fn["tinst"] or fn["hasBuf"] for c in q["containers"] for fn in c["fns"])
                and len(set(clsn)) == len(clsn) and len(set(free)) == len(free)):
            extra.append(q)
    nfail = 0
    for p in pick + extra:
        if oracle_full(ctx, p, "full"):
            nfail += 1
            if nfail > 3:
                break
    # template + default arguments: inside the property's quantifier, known finding
    oracle_full(ctx, root_prog([mkfn("tmpl", nparams=2, ndefaults=1, tinst=TK[2])]), "full")
    ctx.note("full_generations", len(pick) + len(extra) + 1)


def replay(path):
    d = json.load(open(path))

    class C(object):
        notes = {}

        def count(self, n=1):
            pass

        def note(self, k, v):
            self.notes[k] = v

        def fail(self, key, what, replay):
            print("FAIL", key, "->", what)
            return True
    c = C()
    for f in d.get("failing", []):
        rp = f["replay"]
        prog = rp.get("prog")
        if prog is None:
            continue
        prog = normalize(prog)
        print(f["key"])
        print(real_expand(prog).replace(";", "\n"))
        oracle_full(c, prog, "full")
    return 0
