"""C01 Fortran wrapper calls are equivalent to calling the library directly.

Proof: Props/C01.lean over Model/WrapF.lean (value-level trip of one argument through the Fortran
wrapper, the bind(C) boundary and the bufferify / CFI C wrapper; assembly of wrap_function_impl;
index-chain routing; default-argument clones; generic interface membership), byte-level string
helper semantics imported from C10.
Tie (T): tools/extract_fstmts.py regenerates Gen/FStmts.lean from statements.fc_statements
(expanded for language c and c++; template lines -> op codes by an explicit pattern table).
Tie (D): real generate_functions + Wrapc + Wrapf in-process on generated descriptions and the
upstream corpus versus assembleF / lookup / routeC / collectGenerics of the driver (tools/c01_tie.py).
Oracle: compile-and-run of real wrappers around an instrumented subject library under
{c, c++} x {F_CFI} x {debug} (tools/c01_oracle.py); expectation computed from the declaration.
"""
import json
import os

import yaml

from tools import common, shroudrun

LEVEL = "proof"
MANIFEST = dict(
    category="proof",
    text="Lean 4 theorems (84, all axioms within propext/Classical.choice/Quot.sound) on a model of the Fortran wrapper path. "
         "(1) Shape lemmas, for all values, lengths and extents, of the trip of one argument or result through Fortran pre_call, the "
         "bind(C) actuals per buf_arg, the bufferify or CFI C wrapper, the library, C post_call, storage association and Fortran "
         "post_call, for 32 kinds: logical<->bool in/out/inout; scalars by value; pointer/array pass-through and allocatable out arrays; "
         "character and std::string in/out/inout and results copied into character(len=L) (library receives the NUL-terminated text "
         "without trailing blanks, caller holds take L (s ++ blanks), temporaries released), both through the buf and the cfi entries; "
         "std::vector in/out/inout/result with and without allocatable (min(size) elements copied, exact size when allocatable, heap "
         "vector released); T** out and native pointer/allocatable results through the context struct (library address, declared "
         "extents, ranks 1-3); char** input; allocatable character / std::string results (composed with C10's allocatable_* theorems, "
         "_partial: no embedded NUL); std::vector<std::string> input (composed with C10 vecStringIn_spec), and the NEGATIVE result that "
         "std::vector<std::string> out/inout is undefined because the Fortran block is f_vector_out. "
         "(2) Table theorems over the regenerated fc_statements (language c and c++ tables): every entry reached for a key of a modelled "
         "kind is exactly the documented op sequence with the same variables in every position; pointer results take the C return value; "
         "the regenerated probe of wrapc.set_fmt_fields gives shape[i] = dimension i and size = product (ctx_size_is_product). "
         "(2b) Reachability under the generic name: every member of an emitted generic interface is guarded by exactly its own cpp_if "
         "(generic_member_own_condition); assumed-rank variants are exactly the ranks F_assumed_rank_min..max (assumed_rank_variants). "
         "(2c) Interface attributes and C-side dereference: the bind(C) interface is PURE only for +pure functions or const member "
         "functions with all-in arguments (pure_only_when_licensed, not_pure_without_licence); `&` is applied to a C wrapper parameter "
         "exactly for by-value declarations (c_addr_iff_by_value), so a struct by value, pointer or reference reaches the library as the "
         "caller's struct and comes back modified through pointer/reference (struct_pass_through; `&` on a pointer parameter is undefined). "
         "(2d) The VALUE attribute of a bind(C) dummy as check_arg_attrs defaults it (valueAttr): VALUE exactly for non-array by-value "
         "declarations and for single-pointer `void *` (value_attr_rule), an explicit +value kept (value_attr_given); `void *` gets VALUE in "
         "every const / explicit-intent spelling (void_pointer_by_value), its table entries are the default blocks, so the library receives "
         "the very address the caller's type(C_PTR) holds (void_pointer_pass_through); without VALUE it would receive the address of the "
         "caller's variable (void_pointer_without_value_wrong). "
         "(3) Assembly for all parameter lists: declaration order, this first, hidden/implied dropped from the API and supplied to C; "
         "implied expressions (size/len/len_trim/type/true/false/arithmetic) evaluate to the caller's own inquiry values and type(a) to the "
         "wrapped function's own declaration; routing through _PTR_F_C_index / _PTR_C_CXX_index chains, default-argument clones are "
         "prefixes covering every arity once, fortran_generic clones route only to their own function's C clones, generic interfaces hold "
         "exactly the wrapped specifics of a name. (4) Configuration independence _partial: language c/c++ for every modelled kind; F_CFI "
         "off/on for the character kinds that have cfi entries; the context kinds have no cfi entry (theorem) - arguments fall back to the "
         "buf entries (fix b7285e7), context RESULTS with character arguments remain an open finding; debug on/off is NOT covered here "
         "(comments only: property C16), the oracle merely runs both settings.",
    design="3 C01",
    note="Tied to the code by (T) tools/extract_fstmts.py regenerating Gen/FStmts.lean on every run (table rows for both languages, "
         "template lines -> op codes by an explicit regex pattern table that captures the variable in each position, clause-level "
         "patterns for the vector<string> loops, a probe of the real pipeline for context shape/size; unknown line => loud failure) and "
         "(D) per-function correspondence of the real generate_functions+Wrapc+Wrapf with assembleF / lookup / routeC / genericTargets / "
         "collectGenerics / IExpr.render / valueAttr (inputs and result captured around the real check_arg_attrs) on generated descriptions (feature combinations printed into the evidence) and the upstream "
         "corpus. Trusted / modelled, not verified: the meaning the pattern table assigns to template lines; the hand-written model of "
         "wrap_function_impl and generic_function; byte-level helper semantics of C10; gfortran/gcc/g++ code generation, Fortran argument "
         "association and the address sanitizer; that format dictionaries of different arguments use different names. Still opaque ops: "
         "+cdesc arguments (type-erased descriptor interpreted by the library), capsule arguments (C06), struct casts, CFI_allocate "
         "results, the non-bufferify std::string entries (plain C API: C02).",
    technique="Lean 4 proof (interpreter over regenerated op tables, induction over parameter / clone / generic lists, decide +kernel table "
              "theorems, composition with C10 lemmas) + differential correspondence + compile-and-run oracle (instrumented C and C++ "
              "subject libraries, boundary values and sizes, every modelled kind executed per run, {c, c++} x {F_CFI} x {debug}, ASan; "
              "an -O2 build with repeated calls of counter functions; builds with a guard macro undefined and defined)",
)
MODULES = ["ShroudVerif.Props.C01"]
THEOREMS = {
    "ShroudVerif.Props.C01": ["Shroud.WrapF." + t for t in [
        "table_entries_are_documented_shapes",
        "bool_in", "bool_out", "bool_inout", "scalar_by_value", "pointer_pass_through", "implied_values",
        "char_in_ftrim", "char_in_buf", "char_in_cfi", "string_in_buf", "string_in_cfi",
        "string_out_buf", "string_out_cfi", "string_inout_buf", "string_inout_cfi",
        "char_out_buf", "char_out_cfi", "char_inout_buf", "char_inout_cfi",
        "char_result_buf", "char_result_null", "string_result_buf", "char_scalar_result_buf",
        "language_independent", "call_through_table", "cfi_independent_char_in", "cfi_independent_partial",
        "lookupAux_skip_zero", "paramLoop_spec", "assembleF_spec", "this_first", "hidden_implied_dropped_and_supplied",
        "api_is_visible_params_in_order", "routeC_self", "routeC_step", "bufferify_routes",
        "defaultClones_prefix", "default_arity_clones", "generic_members", "emitted_generic_iff",
        "genericLoop_targets", "generic_routing_local",
        "native_array_pass_through", "native_out_allocatable", "copyElems_vector", "vector_in_buf", "vector_out_buf",
        "vector_out_allocatable", "vector_inout_buf", "vector_inout_allocatable", "vector_result_buf",
        "vector_result_allocatable", "ptrptr_out", "result_pointer", "result_allocatable", "char_array_in",
        "context_kinds_have_no_cfi_entry", "result_call_clause",
        "ctx_probe_canonical", "ctx_size_is_product", "implied_type_is_own_declaration", "implied_eval",
        "char_result_allocatable", "char_result_allocatable_null", "string_result_allocatable_partial",
        "string_val_result_allocatable_partial", "vector_string_in", "vector_string_out_c_wrapper",
        "vector_string_out_fortran_undefined",
        "ifaceBlockGuard_all", "generic_member_own_condition", "assumed_rank_variants",
        "pure_only_when_licensed", "not_pure_without_licence", "c_addr_iff_by_value", "struct_entry", "struct_pass_through",
        "struct_addr_of_pointer_undefined",
        "value_attr_rule", "value_attr_given", "void_pointer_by_value", "void_pointer_pass_through", "void_pointer_without_value_wrong",
    ]]
}

PARTIAL = ["+cdesc arguments (f/c_native_*_cdesc, c_void_*_cdesc) and f_native_**_out_raw: a type-erased descriptor whose meaning is "
           "given by the library; opaque ops",
           "allocatable character / std::string results: modelled for strings without an embedded NUL (C10 allocatable_*_partial); "
           "the CFI_allocate forms (c_*_result_cfi_allocatable) are opaque",
           "std::vector<std::string> out / inout: C wrapper modelled, composed call proved undefined (vector_string_out_fortran_undefined)",
           "capsule arguments (owner(caller) pointer results: f_native_*_result_buf_pointer_caller; C06)",
           "struct RESULTS (c_struct_result cast) and shadow (class instance) arguments beyond the this-argument position; struct "
           "ARGUMENTS are modelled (structArg)",
           "non-bufferify std::string entries (c_string_*_in/out/inout: strcpy forms, plain C API: C02)",
           "std::vector, T** out, context results, char**, vector<string> have no _cfi entry (theorem context_kinds_have_no_cfi_entry): "
           "no F_CFI-independence statement for them; arguments take the buf entries under F_CFI (fix b7285e7), context RESULTS with "
           "character arguments are the open finding",
           "context shape/size: ranks 1 to 3 (the probe); sizes that do not fit a C int are outside the model",
           "debug on/off is property C16; the oracle only runs both settings"]

# internal failures of Shroud on legal combinations, minimised and handed to C05 (corpus/c05.txt + known findings)
HANDED_OVER = ["'{C_array_type} *{c_var_context}'", "'int {c_var_len}'", "'Scope' object has no attribute 'c_var'"]

# ------------------------------------------------------------------ descriptions for the tie
NATIVE = ["int", "long", "double", "float", "size_t", "short", "unsigned int", "int64_t"]


def _arg(r, i, cxx, have_arrays):
    n = "a%d" % i
    t = r.choice(NATIVE)
    forms = [
        "%s %s" % (t, n), "%s %s +value" % (t, n), "const %s *%s" % (t, n), "%s *%s +intent(out)" % (t, n),
        "%s *%s +intent(inout)" % (t, n), "%s *%s +intent(in)+rank(1)" % (t, n), "%s *%s +intent(inout)+rank(2)" % (t, n),
        "%s *%s +intent(out)+dimension(3)" % (t, n), "%s *%s +intent(out)+hidden" % (t, n),
        "bool %s" % n, "bool *%s +intent(out)" % n, "bool *%s +intent(inout)" % n,
        "const char *%s" % n, "char *%s +intent(out)+charlen(20)" % n, "char *%s +intent(inout)" % n, "char %s" % n,
        "char *%s +intent(out)+len(8)" % n, "void *%s" % n, "const void *%s" % n, "void *%s +intent(in)" % n, "const void *%s +intent(in)" % n,
        "const %s *%s +intent(in)+deref(raw)" % (t, n),
        "%s **%s +intent(out)" % (t, n), "Color %s" % n, "const Pt *%s" % n, "Pt *%s +intent(out)" % n,
    ]
    if have_arrays:
        forms += ["int %s +implied(size(%s))" % (n, have_arrays), "int %s +implied(len(%s))" % (n, have_arrays)][:1]
    if cxx:
        forms += ["%s &%s +intent(out)" % (t, n), "%s &%s +intent(inout)" % (t, n), "const %s &%s" % (t, n),
                  "const std::string &%s" % n, "std::string &%s +intent(out)" % n, "std::string &%s +intent(inout)" % n,
                  "std::string *%s +intent(inout)" % n, "const std::vector<int> &%s" % n, "std::vector<double> &%s +intent(out)" % n,
                  "std::vector<int> &%s +intent(inout)" % n, "std::vector<double> &%s +intent(out)+deref(allocatable)" % n,
                  "%s *&%s +intent(out)+dimension(4)" % (t, n), "Cls *%s" % n, "const Cls &%s" % n, "bool &%s +intent(out)" % n]
    if NO_CONTEXT[0]:
        # with F_CFI=true the context kinds only reproduce the open finding: keep them to a minority of descriptions
        forms = [f for f in forms if "vector" not in f and "**" not in f and "*&" not in f]
    return r.choice(forms)


NO_CONTEXT = [False]


def _result(r, cxx):
    forms = ["void", "void", "int", "double", "bool", "const char *", "const char * +len(30)",
             "char", "int * +deref(pointer)+dimension(4)", "int * +deref(allocatable)+dimension(4)",
             "Color", "void *", "int * +dimension(3)+owner(caller)", "int", "double", "const char *"]
    if r.random() < 0.08:
        # combinations handed to C05 (internal failures when the function also needs a bufferify clone): kept rare
        forms = ["const char * +deref(raw)", "int * +deref(raw)", "int * +deref(scalar)"]
    if cxx:
        forms += ["const std::string", "const std::string &", "std::string +len(20)", "const std::string * +deref(allocatable)",
                  "std::vector<int>", "Cls *", "const std::string & +deref(result-as-arg)"[:0] or "int &"]
    if NO_CONTEXT[0]:
        forms = [f for f in forms if "vector" not in f and "dimension" not in f]
    x = r.choice(forms)
    return (x.split(" +")[0], ("+" + "+".join(x.split(" +")[1:])) if " +" in x else "")


FEATURES = []


def gen_description(r, idx):
    cxx = r.random() < 0.7
    want_cfi = r.random() < 0.35
    NO_CONTEXT[0] = want_cfi and r.random() < 0.8
    decls = [{"decl": "enum Color { RED, GREEN = 5 }"},
             {"decl": "struct Pt { int x; double y; };"}]
    if cxx:
        cd = [{"decl": "Cls()"}, {"decl": "~Cls()"}]
        for m in range(r.randrange(1, 4)):
            rt, attrs = _result(r, cxx)
            args = [_arg(r, i, cxx, None) for i in range(r.randrange(0, 3))]
            st = "static " if r.random() < 0.2 and rt != "void" else ""
            cd.append({"decl": "%s%s meth%d(%s)%s%s" % (st, rt, m, ", ".join(args), " const" if (not st and r.random() < 0.3) else "", " " + attrs if attrs else "")})
        decls.append({"decl": "class Cls", "declarations": cd})
    nf = r.randrange(3, 8)
    for f in range(nf):
        rt, attrs = _result(r, cxx)
        args, arr = [], None
        for i in range(r.randrange(0, 4)):
            a = _arg(r, i, cxx, arr)
            if "rank(1)" in a:
                arr = "a%d" % i
            args.append(a)
        if cxx and r.random() < 0.3:
            for j in range(r.randrange(1, 3)):
                args.append("%s d%d = %d" % (r.choice(["int", "double", "long"]), j, r.randrange(9)))
        d = {"decl": "%s fun%d(%s)%s" % (rt, f, ", ".join(args) if (args or cxx) else "void", " " + attrs if attrs else "")}
        if r.random() < 0.1 and rt in ("const char *", "const std::string", "const std::string &"):
            d["format"] = {"F_string_result_as_arg": "output"}
        decls.append(d)
    if cxx and r.random() < 0.6:
        decls += [{"decl": "void over(int i)"}, {"decl": "void over(double d)"}, {"decl": "int over(const std::string &s, int n = 2)"}][:r.randrange(2, 4)]
    if cxx and r.random() < 0.5:
        decls.append({"decl": "template<typename T> void tfun(T arg, int n)", "cxx_template": [{"instantiation": "<int>"}, {"instantiation": "<double>"}]})
    if r.random() < 0.5:
        decls.append({"decl": "void gfun(double arg, int *v +intent(in)+rank(1))" if r.random() < 0.5 else "void gfun(double arg)",
                      "fortran_generic": [{"decl": "(float arg)", "function_suffix": "_float"}, {"decl": "(double arg)", "function_suffix": "_double"}]}
                     if r.random() < 0.7 else
                     {"decl": "int sumv(const int *values, int nvalues)",
                      "fortran_generic": [{"decl": "(const int *values)"}, {"decl": "(const int *values+rank(1))"}]})
    if r.random() < 0.3:
        decls.append({"decl": "void arfun(double *x +intent(in)+dimension(..), int n)", "options": {"F_assumed_rank_max": 2}})
    if cxx and r.random() < 0.4:
        decls.append({"decl": "namespace inner", "declarations": [
            {"decl": "int nsfun(int a, const char *s)"}, {"decl": "void over(int i)"}, {"decl": "void over(long i)"}]})
    # ---- feature combinations (each recorded in FEATURES for the evidence notes)
    feats = []
    GEN_FD = [{"decl": "(float v)", "function_suffix": "_float"}, {"decl": "(double v)", "function_suffix": "_double"}]
    if r.random() < 0.6:
        # fortran_generic x character/std::string argument: generic clone -> function -> bufferify/CFI clone
        sarg = r.choice(["const std::string &name", "const char *name", "std::string &name +intent(inout)",
                         "char *name +intent(out)+charlen(16)"] if cxx else
                        ["const char *name", "char *name +intent(out)+charlen(16)", "char *name +intent(inout)"])
        order = r.random() < 0.5
        decls.append({"decl": "void gtag(%s)" % (", ".join([sarg, "double v"] if order else ["double v", sarg])),
                      "fortran_generic": [dict(g) for g in GEN_FD]})
        feats.append("generic*" + ("string" if "std::string" in sarg else "char"))
        if r.random() < 0.4:
            decls.append({"decl": "%s gres(double v)" % ("const std::string" if cxx else "const char *"), "fortran_generic": [dict(g) for g in GEN_FD]})
            feats.append("generic*string-result")
    ngs = r.choice([0, 2, 2, 3])
    for k in range(ngs):
        # several functions per scope whose generic lists change scalar to rank(1) (one cvariants table per function)
        extra = r.choice(["", ", const char *label", ", double scale"])
        decls.append({"decl": "int gsum%d(const int *values, int nvalues%s)" % (k, extra),
                      "fortran_generic": [{"decl": "(const int *values)", "function_suffix": "_scalar"},
                                          {"decl": "(const int *values +rank(1))", "function_suffix": "_array"}] +
                                         ([{"decl": "(const int *values +rank(2))", "function_suffix": "_2d"}] if r.random() < 0.3 else [])})
    if ngs:
        feats.append("%d-generic-functions-scalar/array%s" % (ngs, ""))
    if cxx and r.random() < 0.4:
        decls.append({"decl": "void gdef(%sdouble v, int n = 1, int m = 2)" % r.choice(["", "const std::string &s, ", "const int *values, "]),
                      "fortran_generic": [dict(g) for g in GEN_FD]})
        feats.append("generic*defaults")
    if cxx and r.random() < 0.5:
        decls.append({"decl": "int dstr(const std::string &s, int n = 2, bool f = true)"})
        decls.append({"decl": "void dchr(char *out +intent(out)+charlen(20), const char *in, int n = 1)"})
        feats.append("defaults*string")
    if cxx and r.random() < 0.5:
        decls += [{"decl": "void ovs(const std::string &s)"}, {"decl": "void ovs(const char *s, int n)"}, {"decl": "void ovs(int i)"},
                  {"decl": "const std::string ovs(double d, std::string &o +intent(out))"}][:r.randrange(2, 5)]
        feats.append("overloads*bufferify")
    if cxx and r.random() < 0.5:
        decls.append({"decl": "template<typename T> void tstr(T arg, const std::string &s, char *o +intent(out)+charlen(8))",
                      "cxx_template": [{"instantiation": "<int>"}, {"instantiation": "<double>"}]})
        feats.append("template*string")
    if r.random() < 0.3:
        decls.append({"decl": "void arstr(double *x +intent(in)+dimension(..), const char *label)", "options": {"F_assumed_rank_max": 2}})
        feats.append("assumed-rank*char")
    if r.random() < 0.5 and not NO_CONTEXT[0]:
        # rank-2 / rank-3 +dimension results and out arguments (context size = product of the extents)
        rk = r.choice([2, 3])
        dn = ["n", "m", "k"][:rk]
        how = r.choice(["+deref(allocatable)", "+deref(pointer)"])
        decls.append({"decl": "int *grid%d(%s) +dimension(%s)%s" % (rk, ", ".join("int " + d for d in dn), ",".join(dn), how)})
        decls.append({"decl": "void ogrid%d(%s, %s)" % (rk, ", ".join("int " + d for d in dn), r.choice([
            "double **p +intent(out)+dimension(%s)" % ",".join(dn), "int *o +intent(out)+deref(allocatable)+dimension(%s)" % ",".join(dn)]))})
        feats.append("rank%d-dimension-result%s" % (rk, how))
    if r.random() < 0.6:
        # implied expressions of every documented form x fortran_generic variants that change rank or type
        form = r.choice(["type", "size", "len", "arith", "bool"])
        if form == "type":
            decls.append({"decl": "void store(void *addr, int type +implied(type(addr)), size_t nitems +implied(size(addr)))",
                          "fortran_generic": [{"decl": "(%s *addr +rank(%d)+deref(raw)+intent(in))" % (t, rk), "function_suffix": "_%s%dd" % (t, rk)}
                                              for t, rk in r.sample([("int", 1), ("float", 1), ("double", 1), ("float", 2), ("long", 1)], 3)]})
        elif form == "size":
            decls.append({"decl": "int isum(const int *values, int nv +implied(size(values)))",
                          "fortran_generic": [{"decl": "(const int *values +rank(1))", "function_suffix": "_1d"},
                                              {"decl": "(const int *values +rank(2))", "function_suffix": "_2d"}]})
        elif form == "len":
            decls.append({"decl": "void ltxt(char *text +intent(out)+charlen(20), int ltext +implied(len(text)), int ttext +implied(len_trim(text)), double v)",
                          "fortran_generic": [dict(g) for g in GEN_FD]})
        elif form == "arith":
            decls.append({"decl": "int iar(const int *values +rank(1), int n2 +implied(size(values)*2-1), int n3 +implied((size(values)+1)/2), int w)"})
        else:
            decls.append({"decl": "void ibool(double v, bool up +implied(true), bool down +implied(false))", "fortran_generic": [dict(g) for g in GEN_FD]})
        feats.append("implied-" + form + ("*generic" if form != "arith" else ""))
    if cxx and r.random() < 0.5:
        # preprocessor guards on members of one generic: first / middle / last / all / none guarded, two different macros
        pat = r.choice([[1, 0, 0], [0, 1, 0], [0, 0, 1], [1, 1, 1], [1, 2, 0], [1, 1], [1, 0], [2, 1, 1]])
        sigs = ["int i", "double d", "int i, int j", "const std::string &s"]
        for k, g in enumerate(pat):
            dd = {"decl": "void pick(%s)" % sigs[k]}
            if g:
                dd["cpp_if"] = "ifdef HAVE_PICK%d" % g
            decls.append(dd)
        feats.append("cpp_if-on-generic-members:" + "".join(map(str, pat)))
    if r.random() < 0.6:
        # interface attributes that license optimisations: +pure, const methods, all-in vs out arguments, shadow / context results
        decls.append({"decl": "int pcount(int s)"})
        decls.append({"decl": "int psq(int x) +pure"})
        decls.append({"decl": "int pout(int x, int *y +intent(out)) +pure"})
        decls.append({"decl": "int *pdim(int n) +pure+dimension(n)"})
        if cxx:
            for d in decls:
                if d.get("decl") == "class Cls":
                    d["declarations"] += [{"decl": "int cget(int k) const"}, {"decl": "int cset(int k)"},
                                          {"decl": "int cout(int *k +intent(out)) const"}, {"decl": "Cls *cself(int k) const"}]
        feats.append("pure/const-interface-attributes")
    if r.random() < 0.6:
        # struct by value / pointer / reference, in / inout
        forms = ["Pt p", "const Pt *p", "Pt *p +intent(inout)", "Pt *p +intent(out)"] + (["const Pt &p", "Pt &p", "Pt &p +intent(out)"] if cxx else [])
        for k, f in enumerate(r.sample(forms, min(len(forms), 3))):
            decls.append({"decl": "double sweigh%d(%s, int by)" % (k, f)})
        feats.append("struct-by-value/pointer/reference")
    if r.random() < 0.35:
        lo, hi = r.choice([(0, 2), (0, 3), (1, 2), (1, 1), (0, 1), (2, 3)])
        decls.append({"decl": "int arsum(const int *values +dimension(..), int nvalues)",
                      "options": {"F_assumed_rank_min": lo, "F_assumed_rank_max": hi}})
        feats.append("assumed-rank-range")
    opts = {"wrap_python": False, "wrap_lua": False}
    if want_cfi:
        opts["F_CFI"] = True
        feats = [f + "*F_CFI" for f in feats]
    FEATURES.append(feats)
    if r.random() < 0.3:
        opts["debug"] = True
    if r.random() < 0.15:
        opts["F_force_wrapper"] = True
    d = {"library": "tlib%d" % idx, "cxx_header": "tlib.h", "language": "c++" if cxx else "c", "options": opts, "declarations": decls}
    return yaml.safe_dump(d, sort_keys=False), cxx


def corpus_descriptions():
    path = os.path.join(common.CORPUS, "c01.txt")
    out = []
    if os.path.exists(path):
        cur = []
        for line in open(path):
            if line.startswith("#"):
                continue
            if line.strip() == "---":
                if cur:
                    out.append("".join(cur))
                cur = []
            else:
                cur.append(line)
        if "".join(cur).strip():
            out.append("".join(cur))
    return out


def run(ctx):
    thorough = ctx.tier == "thorough"
    from tools import extract_fstmts, c01_tie, c01_oracle
    c01_oracle.KIND_RUNS.clear()
    # ------------------------------------------------------------ (T) translator
    translator_error = None
    try:
        info = extract_fstmts.regenerate()
        ctx.note("translator", info)
    except extract_fstmts.TranslatorError as e:
        translator_error = str(e)
        ctx.tie_broken("translator: tools/extract_fstmts.py cannot map the statement table", translator_error)
    ok = ctx.lean(MODULES, THEOREMS, extra_targets=("drv_wrapf",))
    ctx.cov["trusted_base"] = [
        "Lean 4.33.0 kernel; axioms within {propext, Classical.choice, Quot.sound}",
        "tools/extract_fstmts.py: the regex / clause pattern table assigns each template line the op it means (variables captured per "
        "position); the probe of wrapc.set_fmt_fields parses c_array_shape / c_array_size; unknown line => TranslatorError",
        "Model/WrapF.lean (runArgWith, assembleF, lookup, routeC, genericTargets, collectGenerics, IExpr, valueAttr, cptrAtBoundary): validated against the code by "
        "correspondence on generated descriptions and the corpus, not derived from it",
        "Model/StrHelpers.lean + Props/C10 (byte-level helper semantics, imported lemmas)",
        "gfortran/gcc/g++ 12, Fortran argument association, the address sanitizer (oracle)",
    ]
    ctx.cov["rule"] = ("tie: one evaluation per Fortran-wrapped function (assembly: statements, F_arg_c_call, F_arguments), per route "
                       "(F_C_call vs index chain), per fortran_generic function incl. default-argument clones (clone targets), per emitted "
                       "implied expression (text per wrapper), per declared parameter (VALUE attribute), per library (generic interfaces); non-trivial = >= 2 C actuals or >= 1 "
                       "argument block, a route that leaves the node, distinct clone targets, an implied expression, a library with a "
                       "generic interface; oracle: one evaluation per (library, configuration) compiled and run with a trace equal to the "
                       "expectation computed from the declaration; kind coverage per run in notes.oracle_kind_coverage; distinct = "
                       "(actual/statement signature) resp. (library, language, F_CFI, debug)")
    ctx.cov["partial"] = PARTIAL
    ctx.assumptions += [
        "format dictionaries of different arguments use different variable names (ops of different arguments commute)",
        "character input holds no NUL byte; char* intent(out) callee stores a NUL inside the buffer (C10 precondition)",
        "string lengths fit a C int (C10 narrow32); context ranks 1 to 3",
        "the C++ compiler supplies default argument values for omitted trailing arguments",
        "library memory behind a returned pointer holds at least prod(dimension) elements",
        "debug on/off changes comments only (property C16); not proved here",
    ]

    r = common.rng("c01")
    work = common.scratch()
    try:
        # ------------------------------------------------------------ (D) correspondence
        if ok and translator_error is None:
            tabs, ids = extract_fstmts.tables()
            tie = c01_tie.Tie(ctx, ids)
            n_desc = 0
            rejected = 0
            descs = [(y, None) for y in corpus_descriptions()]
            ncorpus_desc = len(descs)
            del FEATURES[:]
            accepted = set()
            import collections as _c
            rej_classes = _c.Counter()
            for i in range(160 if thorough else 60):
                descs.append(gen_description(r, i))
            for i, (ytext, _cxx) in enumerate(descs):
                d = os.path.join(work, "tie%d" % i)
                lib, exc, _ = c01_tie.run_shroud(ytext, d)
                if exc is not None or lib is None:
                    # configuration independence at generation time: the same description with F_CFI off
                    yd = yaml.safe_load(ytext)
                    exc2_ok = False
                    cfi_was = bool((yd.get("options") or {}).get("F_CFI"))
                    if (yd.get("options") or {}).get("F_CFI") and isinstance(exc, (SystemExit, AttributeError, TypeError)):
                        yd["options"]["F_CFI"] = False
                        common.rmtree(d)
                        lib2, exc2, _ = c01_tie.run_shroud(yaml.safe_dump(yd, sort_keys=False), d)
                        ctx.count(1)
                        if exc2 is None and lib2 is not None:
                            exc2_ok = True
                        if exc2_ok and isinstance(exc, SystemExit):
                            import re as _re
                            tmpl = str(exc).replace("Error with template: ", "")
                            if _re.search(r"c_var_context|cxx_T|hnamefunc0|c_var_size|C_array_type", tmpl):
                                # one root cause: arg_to_CFI clones the function without the context / size
                                # arguments (and cxx_T) that arg_to_buffer sets up for vector, ** and cdesc results
                                m = "context-or-vector-argument"
                            else:
                                m = _re.sub(r"[^A-Za-z0-9_{}]+", "-", tmpl).strip("-")[:60]
                            ctx.fail("c01:F_CFI-generation-fails:" + m,
                                     "with F_CFI=true Shroud stops with %r on a description it wraps with F_CFI=false "
                                     "(arg_to_CFI does not set up the context/len arguments that arg_to_buffer adds)" % (str(exc),),
                                     {"yaml": ytext, "config": {"F_CFI": True, "language": yd.get("language")},
                                      "function": None, "values": None})
                    rejected += 1
                    msg = "%s: %s" % (type(exc).__name__, exc)
                    if any(k in msg for k in HANDED_OVER):
                        rej_classes["internal failure on a legal combination (handed to C05: corpus/c05.txt, known findings gen:shroud:*)"] += 1
                    elif exc2_ok:
                        rej_classes["open finding c01:F_CFI-generation-fails (wrapped with F_CFI=false)"] += 1
                    elif "Error with template" in msg and (yd.get("options") or {}).get("F_CFI") is False and cfi_was:
                        rej_classes["open finding c01:F_CFI-generation-fails together with another failure"] += 1
                    else:
                        rej_classes["other: " + msg[:90]] += 1
                    if isinstance(exc, (AssertionError, KeyError, AttributeError, TypeError, IndexError)) and rejected <= 3:
                        ctx.sample({"generator_description_rejected": repr(exc)[:200], "yaml": ytext[:600]})
                    common.rmtree(d)
                    continue
                tie.add_library("gen%d" % i, lib, d, lib.language != "c")
                accepted.add(i - ncorpus_desc)
                n_desc += 1
                common.rmtree(d)
            ncorp = 0
            for name, yname, extra in shroudrun.CORPUS:
                opts, lang, wv = shroudrun.parse_cmdline(extra)
                if "wrap_fortran=false" in opts:
                    continue
                d = os.path.join(work, "corp-" + name)
                lib, exc, _ = c01_tie.run_corpus(name, d)
                if exc is None and lib is not None:
                    tie.add_library(name, lib, d, lib.language != "c")
                    ncorp += 1
                common.rmtree(d)
            bad, tinfo = tie.finish()
            import collections
            fc = collections.Counter(f for i_, fl in enumerate(FEATURES) if i_ in accepted for f in fl)
            ctx.note("feature_combinations_in_accepted_tie_descriptions", dict(sorted(fc.items())))
            ctx.note("tie_descriptions_rejected_by_shroud", dict(rej_classes))
            tinfo.update({"generated_descriptions": n_desc, "generator_rejected": rejected, "corpus_configurations": ncorp})
            ctx.note("tie", tinfo)
            for b in bad[:4]:
                ctx.sample(b)
            if bad:
                ctx.tie_broken("wrap_function_impl correspondence (%d disagreements)" % len(bad), bad[:6])

        # ------------------------------------------------------------ oracle (implementation only)
        full = [(c, d) for c in (0, 1) for d in (0, 1)]
        quick_cfg = [(0, 0), (1, 1)]
        san = c01_oracle.asan_flags(work)
        ctx.note("sanitizer", san or "not available for mixed Fortran/C++ links here")
        libs = [("fixcxx", c01_oracle.fixed_spec(True), True), ("fixc", c01_oracle.fixed_spec(False), False)]
        for i in range(6 if thorough else 1):
            cxx = (i % 3) != 2
            libs.append(("g%d" % i, c01_oracle.gen_spec(r, cxx, 6), cxx))
        nrun = 0
        for tag, funcs, cxx in libs:
            cfgs = full if (thorough or ctx.broken) else quick_cfg
            nrun += c01_oracle.check_library(ctx, work, tag, "qlib", funcs, cxx, cfgs, workers=8)
        # F_CFI wrappers whose helpers no other function requests (fixed 6fbe426)
        nrun += c01_oracle.check_library(ctx, work, "cfih", "qlib", [
            c01_oracle.Func("h0", "void", [c01_oracle.CstrIn("s0")]),
            c01_oracle.Func("h1", "void", [c01_oracle.StringInout("s1")])], True, [(1, 0)], workers=2)
        # optimised builds: functions with a call counter referenced twice in one expression (no PURE unless licensed)
        for cxx_ in (False, True):
            nrun += c01_oracle.check_library(ctx, work, "counter", "qlib", c01_oracle.counter_spec(), cxx_, [(0, 0)], workers=1, opt="-O2")
        # generic interfaces with preprocessor guards on some members: built with the macro undefined and defined
        for macros in ((), ("HAVE_PK",)):
            nrun += c01_oracle.check_library(ctx, work, "cppif" + "".join(macros), "qlib", c01_oracle.cppif_spec(), True,
                                             [(0, 0)], workers=1, macros=macros)
        # a context RESULT with a character argument under F_CFI (was the open finding; fixed in /repo 302a66e): regression
        nrun += c01_oracle.check_library(ctx, work, "cfires", "qlib", [
            c01_oracle.Func("r99", "iptr", [c01_oracle.DimArg("d99"), c01_oracle.StringIn("s99")])], True, [(1, 0)], workers=1, force=True)
        # the same C-subset description as a C library and as a C++ library: identical traces required
        cfuncs = c01_oracle.fixed_spec(False)
        nrun += c01_oracle.check_library(ctx, work, "csub", "qlib", cfuncs, True, full if thorough else [(0, 1)], workers=8)
        ctx.note("oracle_configurations_run", nrun)
        runs = dict(sorted(c01_oracle.KIND_RUNS.items()))
        cov = {k: sum(v for kk, v in runs.items() if kk.split("/")[0] == k) for k in c01_oracle.MODELLED_KINDS}
        ctx.note("oracle_kind_coverage", {"executions_with_matching_trace": runs,
                                          "modelled_kinds_not_executed": sorted(k for k, v in cov.items() if v == 0),
                                          "note": "charIn: `const char *` takes the trim()//C_NULL_CHAR path with F_CFI=false (c_char_*_in_buf is "
                                                  "not reachable: ftrim_char_in is always set) and c_char_*_in_cfi with F_CFI=true; vectorResult "
                                                  "(f_vector_result without allocatable) is not reachable from a declaration: a by-value vector "
                                                  "result always gets deref(allocatable); vecStrOut / vecStrInout: the composed call is undefined "
                                                  "(theorem vector_string_out_fortran_undefined; upstream disables these functions), so there is "
                                                  "nothing to run"})
        missing = [k for k, v in cov.items() if v == 0 and k not in ("vectorResult", "vecStrOut", "vecStrInout")]
        if missing and not ctx.failing and not ctx.broken:
            ctx.tie_broken("oracle kind coverage: modelled kinds not executed in this run", missing)
    finally:
        common.rmtree(work)


def replay(path):
    d = json.load(open(path))
    for f in d.get("failing", []):
        print(f["key"], "|", f["what"])
        rp = f.get("replay", {})
        print("config:", rp.get("config"), "function:", rp.get("function"), "values:", rp.get("values"))
        print((rp.get("yaml") or "")[:3000])
    for b in d.get("no_longer_checks", []):
        print(b.get("kind"), b.get("name"))
        print(json.dumps(b.get("detail"), default=str)[:3000])
    return 0
