"""C17 oracle parts: attribute validation and YAML-shape validation never fail internally.

Implementation only (no model).  Every case is one library dictionary that goes through the
real path of main.main_with_args after YAML loading:
    typemap.initialize(); ast.create_library_from_dictionary(d); generate.generate_functions(lib, Config())
Outcome classes: ok | diag (RuntimeError incl. NotImplementedError, SystemExit, Warning raised as
exception) | internal (everything else, RecursionError included).

Isolation: a fresh typemap table and a fresh library per case, cases grouped by language (the
statement table is rewritten per language), sentinel libraries whose full JSON dump must stay the
same from first to last case, and every internal failure is re-run alone on the unpatched path
before it is reported.  Speed: whelpers.add_all_helpers (4 ms, reads only the library format
dictionary and the native typemaps, never a declaration) is executed once per distinct
(language, C_prefix, native type names) and skipped afterwards (its result is a global table).
"""
import ast as pyast
import contextlib
import copy
import hashlib
import json
import os
import time
import traceback

from tools import common

ROLES = {"fcn": "check_fcn_attrs", "arg": "check_arg_attrs", "var": "check_var_attrs"}
FALLBACK = {
    "fcn": ["allocatable", "cdesc", "deref", "dimension", "free_pattern", "len", "name", "owner", "pure", "rank"],
    "arg": ["allocatable", "assumedtype", "capsule", "cdesc", "charlen", "external", "deref", "dimension", "hidden",
            "implied", "intent", "len", "len_trim", "name", "owner", "pass", "rank", "size", "value"],
    "var": ["name", "readonly", "dimension"],
}
UNKNOWN = ["foo", "_internal", "INTENT", "class", "const"]
SHAPES = ["", "(in)", "(out)", "(inout)", "(3)", "(-1)", "(x)", "(n+1)", "(size(x))", "()", "(a,b)", "(..)", '("s")',
          "=1", "=x"]
SHAPES_MORE = ["(pointer)", "(allocatable)", "(raw)", "(scalar)", "(caller)", "(library)", "(pat)", "(8)", "(:)", "(*)",
               "(len(x))", "(size(x,n))", "(size(q))", "(g(x))", "(size(3))", "(1.5)", "=1.5", '="s"', "=", "(IN)",
               "(", "(1+)", "(n))", "(x y)", "(-)"]
# per attribute: shapes used when attributes are combined (bare + a plausible value + an implausible one)
PAIR_SHAPES = {
    "intent": ["(in)", "(out)", "(inout)", ""], "deref": ["(pointer)", "(allocatable)", "(raw)", "(scalar)", "(x)"],
    "owner": ["(caller)", "(library)", "(x)"], "dimension": ["(n)", "(3)", "(..)", "(size(x))", ""],
    "rank": ["(1)", "(8)", "(x)", ""], "implied": ["(size(x))", "(n+1)", "(size(q))", "(len(x))", ""],
    "len": ["(n)", "(30)", ""], "len_trim": ["(n)", ""], "size": ["(n)", ""], "charlen": ["(30)", ""],
    "free_pattern": ["(pat)", "(nopat)"], "name": ["(other)", ""], "value": ["", "(x)"], "capsule": ["", "(cap)"],
}
PAIR_DEFAULT = ["", "(3)", "(x)"]

# (id, role, languages, declaration builder: list of declaration dicts with {A} (and {B}))
HOSTS = [
    ("res:int*", "fcn", "c cxx", [{"decl": "int *f(int *x, int n) {A}"}]),
    ("res:void", "fcn", "c cxx", [{"decl": "void f() {A}"}]),
    ("res:char*", "fcn", "c cxx", [{"decl": "char *f() {A}"}]),
    ("res:string", "fcn", "cxx", [{"decl": "std::string f() {A}"}]),
    ("res:vector", "fcn", "cxx", [{"decl": "std::vector<int> f() {A}"}]),
    ("arg:int", "arg", "c cxx", [{"decl": "void f(int *x, int n, int arg {A})"}]),
    ("arg:int*", "arg", "c cxx", [{"decl": "void f(int *x, int n, int *arg {A})"}]),
    ("arg:int&", "arg", "cxx", [{"decl": "void f(int *x, int n, int &arg {A})"}]),
    ("arg:cchar*", "arg", "c cxx", [{"decl": "void f(int *x, int n, const char *arg {A})"}]),
    ("arg:char**", "arg", "c cxx", [{"decl": "void f(int *x, int n, char **arg {A})"}]),
    ("arg:string&", "arg", "cxx", [{"decl": "void f(int *x, int n, std::string &arg {A})"}]),
    ("arg:vector&", "arg", "cxx", [{"decl": "void f(int *x, int n, std::vector<int> &arg {A})"}]),
    ("arg:void*", "arg", "c cxx", [{"decl": "void f(int *x, int n, void *arg {A})"}]),
    ("arg:double**", "arg", "c cxx", [{"decl": "void f(int *x, int n, double **arg {A})"}]),
    ("arg:fptr", "arg", "c cxx", [{"decl": "void f(int *x, int n, int (*cb)(int) {A})"}]),
    ("arg:fptr-param", "arg", "c cxx", [{"decl": "void f(int *x, int n, int (*cb)(int *p {A}))"}]),
    ("var:member", "var", "c cxx", [{"decl": "struct s", "declarations": [{"decl": "int n;"}, {"decl": "int x {A};"}]}]),
    ("var:member*", "var", "c cxx", [{"decl": "struct s", "declarations": [{"decl": "int n;"}, {"decl": "int *x {A};"}]}]),
    ("var:inline*", "var", "c cxx", [{"decl": "struct s {{ int n; int *x {A}; }};"}]),
    ("var:classmember", "var", "cxx", [{"decl": "class C", "declarations": [{"decl": "int *x {A};"}]}]),
    ("var:global*", "var", "c cxx", [{"decl": "int *v {A}"}]),
]
PAIR_HOSTS = [
    ("res:int*", "fcn", "c cxx", [{"decl": "int *f(int *x, int n) {A} {B}"}]),
    ("res:string", "fcn", "cxx", [{"decl": "std::string f() {A} {B}"}]),
    ("arg:int", "arg", "c cxx", [{"decl": "void f(int *x, int n, int arg {A} {B})"}]),
    ("arg:int*", "arg", "c cxx", [{"decl": "void f(int *x, int n, int *arg {A} {B})"}]),
    ("arg:char*", "arg", "c cxx", [{"decl": "void f(int *x, int n, char *arg {A} {B})"}]),
    ("arg:vector&", "arg", "cxx", [{"decl": "void f(int *x, int n, std::vector<int> &arg {A} {B})"}]),
    ("arg:two", "arg", "c cxx", [{"decl": "void f(int *x {A}, int n {B})"}]),
    ("res+arg", "arg", "c cxx", [{"decl": "int *f(int *x {B}, int n) {A}"}]),
    ("var:member*", "var", "c cxx", [{"decl": "struct s", "declarations": [{"decl": "int n;"}, {"decl": "int *x {A} {B};"}]}]),
]
# documented illegal (and a few legal) combinations, always run
COMBOS = [
    "void f(int x +intent(out))", "void f(int x +intent(inout))", "void f(int *x +intent(in)+value)",
    "void f(int x +deref(pointer))", "int f() +deref(pointer)", "void f(int x +dimension(3))",
    "void f(int *x +rank(1)+dimension(3))", "void f(int *x +allocatable+dimension(3))",
    "void f(int *x +value+dimension(3))", "void f(int x +len(3))", "void f(int x +len_trim(3))",
    "void f(int *x, int n +implied(size(y)))", "void f(int *x, int n +implied(size(x,n)))",
    "void f(int *x, int n +implied(size))", "void f(int *x, int n +implied(size()))",
    "void f(int *x, int n +implied(size(3)))", "void f(int *x, int n +implied(len(n+1)))",
    "void f(int *x, int n +implied(len()))", "void f(int *x +hidden)", "void f(int *x +intent(out)+hidden)",
    "void f(int *x +charlen(30))", "void f(char x +charlen(30))", "void f(char **x +charlen(30))",
    "void f(char *x +intent(out)+charlen)", "int *f() +free_pattern(nopat)", "int *f() +owner(me)",
    "int *f() +owner(caller)+deref(pointer)", "void f(int **x +intent(out)+cdesc)", "void f(int *x +external)",
    "void f(int (*cb)(int) +external)", "void f(int (*cb)(int x +intent(out)))", "void f(int (*cb)(int *x +dimension))",
    "void f(int (*cb)(int *x +rank(9)))", "void f(int (*cb)(int *x +foo))", "void f(int (*cb)(char x +charlen(3)))",
    "void f(void *x +assumedtype+value)", "void f(int x = 1, int y)", "void f(int *x +rank(1.5))",
    "void f(int *x +rank(-1))", "void f(int *x +rank=2)", "void f(int *x +dimension=3)", "void f(int *x +dimension=x)",
    "void f(int *x +dimension=1.5)", "void f(int n +implied=3)", "void f(int n +implied=1.5)", "void f(int *x +intent=3)",
    "void f(int *x +deref=3)", "void f(int *x +owner=3)", "int *f() +free_pattern=3", "void f(int *x +intent)",
    "void f(int *x +deref)", "void f(int *x +owner)", "int *f() +free_pattern", "void f(int n +implied)",
    "void f(int *x +name)", "void f(int *x +name(3))", "void f(int *x +name=3)", "void f(int *x +len=3)",
]


class _Null(object):
    def write(self, s):
        return len(s)

    def flush(self):
        pass


_NULL = _Null()


def known_attrs():
    """Attribute names accepted by VerifyAttrs, read from the source of generate.py."""
    out, how = {}, "source"
    try:
        tree = pyast.parse(open(os.path.join(common.REPO, "shroud", "generate.py")).read())
        for n in pyast.walk(tree):
            if isinstance(n, pyast.FunctionDef) and n.name in ROLES.values():
                for c in pyast.walk(n):
                    if (isinstance(c, pyast.Compare) and isinstance(c.left, pyast.Name) and c.left.id == "attr"
                            and isinstance(c.ops[0], pyast.NotIn) and isinstance(c.comparators[0], pyast.List)):
                        role = [r for r, f in ROLES.items() if f == n.name][0]
                        out[role] = [e.value for e in c.comparators[0].elts if isinstance(e, pyast.Constant)]
    except (OSError, SyntaxError):
        pass
    for r in ROLES:
        if not out.get(r):
            out[r], how = list(FALLBACK[r]), "fallback"
    return out, how


def lined(d, counter=None):
    """Add '__line__' to every mapping, as main.main_with_args' YAML loader does."""
    counter = counter if counter is not None else [0]
    if isinstance(d, dict):
        counter[0] += 1
        res = {"__line__": counter[0]} if "__line__" not in d else {}
        for k, v in d.items():
            res[k] = lined(v, counter)
        return res
    if isinstance(d, list):
        return [lined(v, counter) for v in d]
    return d


def library(lang, decls, options=None):
    d = {"library": "t", "language": "c" if lang == "c" else "c++", "patterns": {"pat": "free({cxx_var});"},
         "declarations": decls}
    if options:
        d["options"] = dict(options)
    return lined(d)


def subst(tmpl, a, b=""):
    if isinstance(tmpl, dict):
        return {k: subst(v, a, b) for k, v in tmpl.items()}
    if isinstance(tmpl, list):
        return [subst(v, a, b) for v in tmpl]
    return " ".join(tmpl.replace("{A}", a).replace("{B}", b).replace("{{", "{").replace("}}", "}").split())


@contextlib.contextmanager
def fast_helpers():
    """Run whelpers.add_all_helpers once per distinct input of that function."""
    from shroud import whelpers, typemap
    real, done = whelpers.add_all_helpers, set()

    def once():
        lib = whelpers._newlibrary
        key = (lib.language, lib.fmtdict.C_prefix,
               tuple(sorted(k for k, v in typemap.get_global_types().items() if v.sgroup == "native")))
        if key not in done:
            real()
            done.add(key)

    whelpers.add_all_helpers = once
    try:
        yield
    finally:
        whelpers.add_all_helpers = real


def classify(e):
    if isinstance(e, RecursionError):
        return "internal"
    if isinstance(e, (RuntimeError, SystemExit, Warning)):
        return "diag"
    return "internal"


GENERIC_FILES = ("util.py", "visitor.py")
GENERIC_FUNCS = ("tokenize", "check_decl", "check_expr", "check_dimension", "RecursiveDescent.", "ExprParser.__init__",
                 "Parser.__init__", "AstNode.eval_template")


def site_of(e):
    """(file, function#statement-hash, statement text, traceback tail).  The site is the innermost frame inside <repo>/shroud
    that is not a general helper (util.py, visitor.py, tokenizer/parser entry); when the exception comes
    out of such a helper the function part reads 'caller>helper', so that one helper reached with a bad
    value from two places gives two sites."""
    root = os.path.join(os.path.realpath(common.REPO), "shroud") + os.sep
    frames, tb = [], e.__traceback__
    while tb is not None:
        co = tb.tb_frame.f_code
        frames.append((co.co_filename, getattr(co, "co_qualname", co.co_name), tb.tb_lineno))
        tb = tb.tb_next
    texts = [(x.line or "").strip() for x in traceback.extract_tb(e.__traceback__)]
    tail = ["%s:%d %s: %s" % (os.path.basename(f), ln, q, t) for (f, q, ln), t in list(zip(frames, texts))[-4:]]
    mine = [(os.path.basename(f), q, t) for (f, q, ln), t in zip(frames, texts) if os.path.realpath(f).startswith(root)]
    if not mine:
        return "?", "?", "", tail
    inner, site = mine[-1], None
    for cand in reversed(mine):
        if cand[0] not in GENERIC_FILES and not any(cand[1] == g or (g.endswith(".") and cand[1].startswith(g)) for g in GENERIC_FUNCS):
            site = cand
            break
    site = site or inner
    func = site[1] if site is inner else site[1] + ">" + inner[1]
    # the statement text (not the line number) tells apart two failing statements of one function
    func += "#" + hashlib.sha1(site[2].encode()).hexdigest()[:4]
    return site[0], func, inner[2] if site is inner else "%s -> %s" % (site[2], inner[2]), tail


def run_dict(d, want_dump=False):
    """One case on the real code.  -> dict(cls, exc, msg, file, func, line, tail[, dump])"""
    from shroud import ast as sast, generate, typemap, main as smain, todict
    d = copy.deepcopy(d)
    res = {"cls": "ok", "exc": "", "msg": ""}
    try:
        with contextlib.redirect_stdout(_NULL):
            typemap.initialize()
            lib = sast.create_library_from_dictionary(d)
            cfg = smain.Config()
            cfg.log = _NULL          # main_with_args opens <logdir>/<name>.log here
            generate.generate_functions(lib, cfg)
            if want_dump:
                res["dump"] = hashlib.sha1(json.dumps(todict.to_dict(lib), sort_keys=True, default=str).encode()).hexdigest()
    except (KeyboardInterrupt, MemoryError):
        raise
    except BaseException as e:  # noqa: SystemExit is one of Shroud's diagnostics
        res["cls"], res["exc"], res["msg"] = classify(e), type(e).__name__, " ".join(str(e).split())[:200]
        res["file"], res["func"], res["line"], res["tail"] = site_of(e)
    return res


SENTINELS = [
    ("c", [{"decl": "int *f(int *x +dimension(n), int n +implied(size(x))) +dimension(3)"},
           {"decl": "struct s { int n; double *d +dimension(n); };"}, {"decl": "void g(s *p, const char *name)"}]),
    ("cxx", [{"decl": "class C", "declarations": [{"decl": "int m +readonly;"}, {"decl": "const std::string &name() +len(30)"}]},
             {"decl": "void g(std::vector<int> &v +intent(out), C *c)"}, {"decl": "typedef int T1"}, {"decl": "void h(T1 a = 1)"}]),
    ("cxx", [{"decl": "void f(int x +intent(out))"}]),
]


def sentinel_state():
    return [(r["cls"], r["exc"], r["msg"], r.get("dump")) for r in
            (run_dict(library(l, copy.deepcopy(ds)), want_dump=True) for l, ds in SENTINELS)]


class Tally(object):
    """Outcome bookkeeping shared by run_attrs and run_yaml."""

    def __init__(self, ctx, kind):
        self.ctx, self.kind = ctx, kind
        self.dist = {"ok": 0, "diag": 0, "internal": 0}
        self.exc = {}
        self.sites = {}   # key -> best (shortest) example

    def add(self, d, label, res, nt_key):
        self.ctx.count(1)
        self.dist[res["cls"]] += 1
        if res["exc"]:
            self.exc[res["exc"]] = self.exc.get(res["exc"], 0) + 1
        self.ctx.nontrivial(nt_key + (res["cls"],))
        if res["cls"] == "internal":
            key = "%s:%s:%s:%s" % (self.kind, res["exc"], res["file"], res["func"])
            cur = self.sites.get(key)
            if cur is None or len(label) < len(cur["label"]):
                self.sites[key] = {"label": label, "yaml": d, "res": res, "count": (cur or {}).get("count", 0)}
            self.sites[key]["count"] += 1

    def report(self):
        """Confirm each crash site alone on the unpatched path, then ctx.fail once per site."""
        out, unconfirmed = {}, {}
        for key in sorted(self.sites):
            s = self.sites[key]
            again = run_dict(s["yaml"])
            same = again["cls"] == "internal" and (again["exc"], again.get("file"), again.get("func")) == (
                s["res"]["exc"], s["res"]["file"], s["res"]["func"])
            if not same:
                unconfirmed[key] = {"example": s["label"], "first": s["res"]["msg"], "alone": again["cls"] + " " + again["msg"]}
                continue
            r = s["res"]
            explicit = r["line"].split(" -> ")[-1].startswith("raise ")
            out[key] = {"example": s["label"], "count": s["count"], "message": r["msg"], "at": r["line"],
                        "explicit_raise": explicit, "traceback_tail": r["tail"]}
            what = "%s: %s at %s:%s (%s)%s; input: %s" % (
                r["exc"], r["msg"], r["file"], r["func"], r["line"],
                " [diagnostic raised with a non-diagnostic exception class]" if explicit else "", s["label"])
            self.ctx.fail(key, what, {"kind": self.kind, "yaml": s["yaml"]})
        self.ctx.note(self.kind + "_distribution", dict(self.dist, by_exception=dict(sorted(self.exc.items()))))
        self.ctx.note(self.kind + "_crash_sites", out)
        if unconfirmed:
            self.ctx.note(self.kind + "_unconfirmed", unconfirmed)
        return out


# ------------------------------------------------------------------ attributes
def attr_cases(thorough):
    """-> list of (lang, options, decls, label, nontrivial-key)"""
    known, how = known_attrs()
    allnames = sorted(set(sum(known.values(), [])))
    r = common.rng("c17-attrs")
    cases = []
    primary = ("res:int*", "arg:int*", "arg:cchar*", "arg:fptr-param", "var:member*")
    configs = [("cxx", None, "all"), ("c", None, "all" if thorough else "primary valid")]
    if thorough:
        configs += [("cxx", {"F_CFI": True}, "valid"), ("c", {"wrap_python": True, "wrap_lua": True}, "valid")]
    # singles: attribute name x value shape x host.  thorough: the full product; quick: the full product of the
    # core shapes in C++, further shapes on one host per position, two shapes for names that the position rejects
    for lang, opts, scope in configs:
        for hid, role, langs, tmpl in HOSTS:
            if lang not in langs.split() or ("primary" in scope and hid not in primary):
                continue
            for name in allnames + UNKNOWN:
                valid = name in known[role]
                if "valid" in scope and not valid:
                    continue
                if name not in allnames:
                    shapes = SHAPES[:5] + ["=1"] if thorough else ["", "(3)", "=1"]
                elif thorough:
                    shapes = SHAPES + SHAPES_MORE
                elif not valid:
                    shapes = ["", "(n+1)"]
                else:
                    shapes = SHAPES + (SHAPES_MORE if hid in primary and lang == "cxx" else [])
                for sh in shapes:
                    a = "+" + name + sh
                    cases.append((lang, opts, subst(tmpl, a), "%s %s%s" % (hid, a, " " + json.dumps(opts) if opts else ""),
                                  ("single", hid.split(":")[0], name, sh)))
    # fixed combinations
    for lang in ("c", "cxx"):
        for decl in COMBOS:
            cases.append((lang, None, [{"decl": decl}], decl, ("combo", decl)))
    # pairs
    pairs = []
    for hid, role, langs, tmpl in PAIR_HOSTS:
        names = known[role] if hid != "res+arg" else known["arg"]
        items_b = [(n, s) for n in names + ["foo"] for s in PAIR_SHAPES.get(n, PAIR_DEFAULT)]
        items_a = items_b if hid != "res+arg" else [(n, s) for n in known["fcn"] for s in PAIR_SHAPES.get(n, PAIR_DEFAULT)]
        for lang in langs.split():
            for (n1, s1) in items_a:
                for (n2, s2) in items_b:
                    if n1 == n2 and hid not in ("arg:two", "res+arg"):
                        continue
                    pairs.append((lang, hid, tmpl, n1, s1, n2, s2))
    if not thorough:
        pairs = r.sample(pairs, min(len(pairs), 2800))
    for lang, hid, tmpl, n1, s1, n2, s2 in pairs:
        a, b = "+" + n1 + s1, "+" + n2 + s2
        cases.append((lang, None, subst(tmpl, a, b), "%s %s %s" % (hid, a, b), ("pair", hid, n1, n2)))
    cases.sort(key=lambda c: (c[0], json.dumps(c[1], sort_keys=True)))   # stable: group by language/options
    return cases, known, how


def run_attrs(ctx, thorough):
    t0 = time.time()
    cases, known, how = attr_cases(thorough)
    ctx.note("attrs_names", {"from": how, "fcn": known["fcn"], "arg": known["arg"], "var": known["var"], "unknown": UNKNOWN})
    tally = Tally(ctx, "attrs")
    before = sentinel_state()
    with fast_helpers():
        for lang, opts, decls, label, nt in cases:
            d = library(lang, decls, opts)
            tally.add(d, "[%s] %s" % (lang, label if len(decls) == 1 and "declarations" not in decls[0] else json.dumps(decls)), run_dict(d), nt)
    after = sentinel_state()
    if before != after:
        ctx.note("attrs_state_leak", {"before": before, "after": after})
        ctx.tie_broken("c17-attrs-isolation", "sentinel libraries give a different result after the attribute cases than before")
    sites = tally.report()
    for lang, opts, decls, label, nt in cases[:: max(1, len(cases) // 4)][:4]:
        ctx.sample({"attrs_case": label, "lang": lang})
    ctx.note("attrs_cases", len(cases))
    ctx.note("attrs_wall_s", round(time.time() - t0, 1))
    return sites


# ------------------------------------------------------------------ YAML shapes
BAD = [None, 3, 1.5, True, False, "", "str", "a b", [], [1], ["a"], [None], {}, {"a": 1}, [{"a": 1}], [[1]], {"a": {"b": [1]}}]
TOP_KEYS = ["library", "cxx_header", "namespace", "language", "format", "options", "copyright", "patterns", "setup",
            "typemap", "declarations", "default_arg_suffix", "cxx_template", "fortran_generic", "splicer", "splicer_code",
            "foo", "classes", "functions", "types"]
DECL_KEYS = ["decl", "declarations", "block", "format", "options", "cxx_header", "cxx_template", "fortran_generic",
             "default_arg_suffix", "attrs", "fattrs", "splicer", "fstatements", "doxygen", "return_this", "cpp_if", "fields",
             "python", "C_error_pattern", "PY_error_pattern", "C_name", "function_suffix", "base", "name", "foo"]
DECL_HOSTS = [
    ("function", {"decl": "int *f(int *x, int n)"}), ("template", {"decl": "template<typename T> void g(T x)", "cxx_template": [{"instantiation": "<int>"}]}),
    ("class", {"decl": "class C", "declarations": [{"decl": "void m()"}]}), ("struct", {"decl": "struct S", "declarations": [{"decl": "int i;"}]}),
    ("struct-inline", {"decl": "struct S { int i; };"}), ("namespace", {"decl": "namespace ns", "declarations": [{"decl": "void m()"}]}),
    ("enum", {"decl": "enum Color { RED, BLUE }"}), ("typedef", {"decl": "typedef int T1"}), ("variable", {"decl": "int v"}),
    ("block", {"block": True, "declarations": [{"decl": "void m()"}]}),
    ("template-class", {"decl": "template<typename T> class V", "cxx_template": [{"instantiation": "<int>"}], "declarations": [{"decl": "void m(T x)"}]}),
]
KINDS = ["void f()", "int v", "class C", "struct S", "struct S { int i; };", "namespace ns", "enum E { A }", "typedef int T1",
         "template<typename T> void g(T x)", "template<typename T> class V"]


def yaml_cases(thorough):
    base = {"library": "t", "declarations": [{"decl": "void f(int x)"}]}
    cases = []

    def add(label, d):
        cases.append((label, lined(d)))

    for k in TOP_KEYS:                                   # wrong type for every top-level key
        for v in BAD:
            add("top %s: %r" % (k, v), dict(base, **{k: v}))
    for v in ["fortran", "xyz", "C", "C++", "c++", "c", "cxx", "CXX", " c", "c99"]:
        add("language: %r" % v, dict(base, language=v))
    for v in ["a", "a b", "a::b", "1a", "std", "a a", "class", "int"]:
        add("namespace: %r" % v, dict(base, namespace=v))
    for v in [{"debug": 3}, {"wrap_fortran": "no"}, {"F_line_length": "x"}, {"C_API_case": 3}, {"flatten_namespace": "x"},
              {"literalinclude": 1}, {"foo": None}, {"F_module_name_library_template": "{nope}"},
              {"C_header_filename_library_template": "{"}, {"C_header_filename_library_template": 3},
              {"F_module_name_library_template": "{library.x}"}, {"wrap_class_as": "foo"}, {"wrap_struct_as": "foo"}]:
        add("options: %r" % v, dict(base, options=v, declarations=base["declarations"] + [{"decl": "class C"}, {"decl": "struct S { int i; };"}, {"decl": "namespace ns"}]))
    for v in [{"C_prefix": None}, {"C_prefix": 3}, {"F_module_name": None}, {"foo": [1]}, {"C_prefix": "{x}"}, {"function_suffix": None}]:
        add("format: %r" % v, dict(base, format=v))
    tm_bad = [{"type": "T"}, {"fields": {}}, {"type": "T", "fields": None}, {"type": "T", "fields": 3}, {"type": "T", "fields": []},
              {"type": "T", "fields": {}}, {"type": "T", "fields": {"base": "shadow"}}, {"type": "T", "fields": {"base": "struct"}},
              {"type": "T", "fields": {"base": "vector"}}, {"type": "T", "fields": {"base": 3}}, {"type": None, "fields": {"base": "shadow"}},
              {"type": 3, "fields": {"base": "shadow"}}, {"type": "a::b::T", "fields": {"base": "shadow"}}, {"type": "::T", "fields": {"base": "struct"}},
              {"type": "int", "fields": {"foo": 1}}, {"type": "int", "fields": {"cpp_if": 3}}, {"type": "int", "fields": 3}, {"type": "int", "fields": None},
              {"type": "T", "fields": {"base": "shadow", "foo": 1}}, {"type": "T", "fields": {"base": "shadow", "cxx_type": None}},
              {"type": "T", "fields": {"base": "shadow", "f_module": 3}}, {"type": ["T"], "fields": {"base": "shadow"}}, "T", None, 3, ["T"]]
    for v in tm_bad:
        add("typemap: [%r]" % (v,), dict(base, typemap=[v], declarations=[{"decl": "void f(T *x)"}]))
    add("typemap: dict", dict(base, typemap={"type": "T", "fields": {"base": "shadow"}}))
    for v in BAD:                                        # entries of `declarations`
        add("declarations: [%r]" % (v,), dict(base, declarations=[v]))
        add("decl: %r" % (v,), dict(base, declarations=[{"decl": v}]))
        add("block: %r" % (v,), dict(base, declarations=[{"block": v, "declarations": [{"decl": "void f()"}]}]))
        add("block.declarations: %r" % (v,), dict(base, declarations=[{"block": True, "declarations": v}]))
    add("block with decl", dict(base, declarations=[{"block": True, "decl": "void f()"}]))
    add("block nested", dict(base, declarations=[{"block": True, "declarations": [{"block": True, "options": {"a": 1}, "declarations": [{"decl": "void f()"}]}]}]))
    add("block only", dict(base, declarations=[{"block": True}]))
    for hname, host in DECL_HOSTS:                       # wrong type for every declaration-level key
        for k in DECL_KEYS:
            for v in BAD:
                if k in host and host[k] == v:
                    continue
                add("%s %s: %r" % (hname, k, v), dict(base, declarations=[dict(host, **{k: v})]))
    for outer in KINDS:                                  # nesting of every kind of declaration in every other
        for inner in KINDS:
            add("nest %s > %s" % (outer, inner), dict(base, declarations=[{"decl": outer, "declarations": [{"decl": inner}]}]))
        for lang in ("c", "c++"):
            add("kind %s [%s]" % (outer, lang), dict(base, language=lang, declarations=[{"decl": outer}, {"decl": outer}]))
    known, _ = known_attrs()                             # attributes given through the YAML attrs/fattrs keys
    for name in sorted(set(known["arg"] + known["fcn"])) + ["foo"]:
        for v in [True, False, None, 3, -1, 1.5, "3", "x", "size(x)", "", [1], {"a": 1}]:
            add("attrs x.%s: %r" % (name, v), dict(base, declarations=[{"decl": "int *f(int *x, int n)", "attrs": {"x": {name: v}}}]))
            add("fattrs %s: %r" % (name, v), dict(base, declarations=[{"decl": "int *f(int *x, int n)", "fattrs": {name: v}}]))
    for v in [{"c": None}, {"c": 3}, {"c": []}, {"c": {"pre_call": None}}, {"c": {"pre_call": 3}}, {"f": {"call": ""}}, {"c": {"foo": 1}},
              {"foo": {"a": 1}}, {"c": {"pre_call": {"a": 1}}}, {"py": "x"}, {"c": {"pre_call": [None, 3]}}]:
        add("fstatements: %r" % v, dict(base, declarations=[{"decl": "void f(int x)", "fstatements": v}]))
        add("splicer: %r" % v, dict(base, declarations=[{"decl": "void f(int x)", "splicer": v}]))
    for v in [[{"decl": None}], [{"decl": 3}], [{"decl": "int"}], [{"decl": "(int x)"}], [{"decl": "float y"}], [{"decl": "float x", "function_suffix": None}],
              [{"decl": "float x", "function_suffix": 3}], [{"decl": "float x", "format": 3}], [{"decl": "float x", "options": "s"}], [{"decl": ""}], [{}]]:
        add("fortran_generic: %r" % v, dict(base, declarations=[{"decl": "void f(int x)", "fortran_generic": v}]))
    for v in [[{"instantiation": None}], [{"instantiation": 3}], [{"instantiation": "int"}], [{"instantiation": "<"}], [{"instantiation": "<>"}],
              [{"instantiation": "<foo>"}], [{"instantiation": "<int,int>"}], [{"instantiation": "<int>", "format": 3}], [{"instantiation": "<int>", "options": "s"}], [{}], []]:
        add("cxx_template fn: %r" % v, dict(base, declarations=[{"decl": "template<typename T> void g(T x)", "cxx_template": v}]))
        add("cxx_template class: %r" % v, dict(base, declarations=[{"decl": "template<typename T> class V", "cxx_template": v, "declarations": [{"decl": "void m(T x)"}]}]))
        add("cxx_template plain: %r" % v, dict(base, declarations=[{"decl": "void g(int x)", "cxx_template": v}]))
    for v in [[], [None], ["_a"], ["_a", "_b", "_c"], [3], [["a"]], [{"a": 1}]]:
        add("default_arg_suffix: %r" % v, dict(base, declarations=[{"decl": "void f(int x = 1, int y = 2)", "default_arg_suffix": v}]))
    # multi-entry lists: a per-entry check must hold for EVERY entry, whatever its position (a good entry before
    # or after a bad one, two bad ones), for every list-valued section
    insts = ["<int>", "<double>", "<int,double>", "<double,long>", "<>", "<foo>", "<", "int", 3, None, "<int,int,int>"]
    hosts = [("fn1", "template<typename T> void g(T x)", None), ("fn2", "template<typename T, typename U> void g(T x, U y)", None),
             ("class1", "template<typename T> class V", [{"decl": "void m(T x)"}]), ("plain", "void g(int x)", None)]
    for hname, hdecl, sub in hosts:
        for a in insts:
            for b in insts:
                ent = {"decl": hdecl, "cxx_template": [{"instantiation": a}, {"instantiation": b}]}
                if sub:
                    ent["declarations"] = sub
                add("cxx_template2 %s: %r %r" % (hname, a, b), dict(base, declarations=[ent]))
        for a, b, c in [("<int>", "<int,double>", "<double>"), ("<int,double>", "<int>", "<double>"), ("<int>", "<double>", "<>")]:
            add("cxx_template3 %s" % hname, dict(base, declarations=[{"decl": hdecl, "cxx_template": [{"instantiation": x} for x in (a, b, c)]}]))
    gens = ["float x", "double x", "int", "(int x)", "float y", "", None, 3, "float x, int z", "double *x"]
    for a in gens:
        for b in gens:
            add("fortran_generic2: %r %r" % (a, b), dict(base, declarations=[{"decl": "void f(double x)", "fortran_generic": [{"decl": a}, {"decl": b}]}]))
    tms = [{"type": "T", "fields": {"base": "shadow"}}, {"type": "U", "fields": {"base": "struct"}}, {"type": "T"}, {"type": 3, "fields": {}},
           {"type": "V", "fields": 3}, "T", None, {"type": "W", "fields": {"base": "vector"}}, {"type": "int", "fields": {"cpp_if": "x"}}]
    for a in tms:
        for b in tms:
            add("typemap2: %r %r" % (a, b), dict(base, typemap=[a, b]))
    ents = [{"decl": "void f()"}, {"decl": "void g(int x +intent(out))"}, {"decl": 3}, "x", None, {"block": True}, {"foo": 1},
            {"decl": "class C", "declarations": 3}, {"decl": "void h(int)", "attrs": 3}, {"decl": "int v", "declarations": [{"decl": "int w"}]}]
    for a in ents:
        for b in ents:
            add("declarations2: %r %r" % (a, b), dict(base, declarations=[a, b]))
    return cases


def run_yaml(ctx, thorough):
    t0 = time.time()
    cases = yaml_cases(thorough)
    tally = Tally(ctx, "yaml")
    before = sentinel_state()
    with fast_helpers():
        for label, d in cases:
            tally.add(d, label, run_dict(d), ("yaml", label.split(":")[0]))
    after = sentinel_state()
    if before != after:
        ctx.note("yaml_state_leak", {"before": before, "after": after})
        ctx.tie_broken("c17-yaml-isolation", "sentinel libraries give a different result after the YAML-shape cases than before")
    sites = tally.report()
    ctx.note("yaml_cases", len(cases))
    ctx.note("yaml_wall_s", round(time.time() - t0, 1))
    return sites


def replay_case(replay):
    res = run_dict(replay["yaml"])
    print("%s case -> %s %s %s" % (replay.get("kind"), res["cls"], res["exc"], res["msg"]))
    if res["cls"] != "ok":
        print("   at %s:%s  %s" % (res["file"], res["func"], res["line"]))
        for t in res["tail"]:
            print("   | " + t)
    return res


if __name__ == "__main__":
    import sys
    tier = sys.argv[1] if len(sys.argv) > 1 else "quick"
    c = common.Ctx("C17", tier, "proof")
    for fn in (run_attrs, run_yaml):
        t = time.time()
        s = fn(c, tier == "thorough")
        print("%s: %.1fs, evaluations so far %d, crash sites %d" % (fn.__name__, time.time() - t, c.cov["evaluations"], len(s)))
        for k, v in s.items():
            print("  %s  x%d\n      example: %s\n      %s\n      %s" % (k, v["count"], v["example"], v["message"], " <- ".join(reversed(v["traceback_tail"]))))
    print(json.dumps({k: v for k, v in c.notes.items() if k.endswith("distribution") or k.endswith("unconfirmed") or k.endswith("leak")}, indent=1, default=str))
