"""C04 Fortran bind(C) interfaces agree with the C functions and structs they bind to.

Proof: Props/C04.lean over Model/Interop.lean (ParamC/DummyF classes, the Fortran 2018 18.3 interoperability
table, protoList/ifaceList as folds over the same (argument, buf_args) list).
Tie (T): tools/extract_interop.py regenerates Gen/Interop.lean (lookup-path pairs computed with the real
lookup_fc_stmts, typemap rows, helper struct / derived-type pairs, ShroudTypeDefines, declaration templates).
Tie (D): real Wrapc + Wrapf in-process with build_proto_list / build_arg_list_interface observed per call; the
declarations each call appends are classified and compared with the model's protoList / ifaceList for the same
(argument, buf_args) (driver drv_interop).
Oracle (implementation only): every bind(C) name of the generated Fortran is defined by a generated prototype /
definition (or is the user's own C function, then the YAML declaration is the reference), with the same number of
arguments, pairwise interoperable (Python table in tools/interop_parse.py), interoperable result; structs and
derived types are compared structurally.  Thorough: gfortran -fc-prototypes view of every module against the real
prototypes, _Static_assert(sizeof/offsetof) for struct pairs, LP64 table against gcc/gfortran.
"""
import glob
import json
import os
import re
import subprocess

from tools import common, shroudrun
from tools import interop_parse as ip
from tools.gen import libgen

LEVEL = "proof"
MANIFEST = dict(
    category="proof",
    text="Lean 4 theorems (39, no _partial statements). "
         "(1) Unbounded: for every list of (argument, buf_args) the C prototype classes built as in Wrapc.build_proto_list and the "
         "Fortran dummy classes built as in Wrapf.build_arg_list_interface have the same length, the same number of dummy names, and "
         "are pairwise interoperable (Fortran 2018 18.3; list induction from a per-buf_arg lemma) under per-argument side conditions "
         "(itemOK) whose necessity is shown by decide witnesses (+value on a pointer; a CFI entry reached without a descriptor); for "
         "every parameter list of a callback the abstract interface (dump_abstract_interfaces) is pairwise interoperable with the C "
         "function-pointer parameter list and its result; for every function the C return type chosen by wrap_function (forced "
         "return_type, deref(scalar), declarator) and the result declaration or `subroutine` chosen by wrap_function_interface "
         "(f_result_decl, return_cptr, return_type, deref, bind_c) are interoperable under resultOK (result_interop); for every "
         "member list of a user struct the C copy (Wrapc.wrap_struct) and the "
         "bind(C) derived type (Wrapf.wrap_struct) are field-wise interoperable. "
         "(2) Table theorems (decide +kernel) over data regenerated from the working tree on every run: the wrapc and wrapf statement "
         "lookup paths reach the same entry for all 22,680 (sgroup, spointer, intent, suffix, deref, cdesc, specialize) combinations per "
         "language; result paths (ctor/dtor/bare vs result) and result-that-becomes-an-argument paths (scalar vs pointer) reach entries "
         "with the same interface signature; every one of the 83 statement entries uses only buf_arg kinds both builders handle, carries "
         "exactly one c_arg_decl / f_arg_decl pair iff it asks for arg_decl, and forces a return type only in ways Fortran declares "
         "consistently; all 29 declaration-template pairs and the f_result_decl are interoperable; all 27 typemap rows name a Fortran "
         "type/kind of the class and size of the C type (and discharge the side conditions of (1) for arguments and struct members); "
         "capsule_data / array_context / class-capsule struct pairs and 22 helper interfaces are interoperable; the two "
         "ShroudTypeDefines tables define the same name -> value map; names: in a probe library that pulls in every helper pair and "
         "whose 26 user-settable name format fields are symbolic, the name= of every bind(C) interface body (wrappers, capsule "
         "destructor, copy_string, copy_array; F_CFI off and on) is, as a template over the fields, the name of a C function the "
         "generated code declares or defines - hence for EVERY value of those fields (bind_names_defined_all_envs). Struct members "
         "carry their extents: C order on the C side, reversed on the Fortran side, for every rank, arrays of pointers included.",
    design="3 C04",
    note="Ties: (T) tools/extract_interop.py recomputes all tables with the real lookup_fc_stmts / typemaps / helper texts and fails "
         "loudly on a template it cannot classify; (D) every call of build_proto_list / build_arg_list_interface and every wrap_struct on "
         "the whole upstream corpus + generated libraries is observed in-process and the declarations it appends are compared with the "
         "model (driver drv_interop); the two call sequences (argument, buf_args, entry) are compared with each other. The function result (C_return_type vs the emitted "
         "result declaration) and every callback (C function-pointer type vs the emitted abstract interface, parameters and "
         "result) are compared with the model in the same way; functions whose arguments/result do not satisfy the theorems' "
         "side conditions are listed in the evidence (notes.side_condition_false: today only example.yaml's user-asserted "
         "SidreLength typemap). Generated libraries override a random subset of the name format fields and pull in "
         "the capsule destructor / copy_string / copy_array helpers; the translator's probe library is also run through the oracle. "
         "Still oracle-only (not modelled in Lean): function-pointer members of structs, user-overridden C_prototype / "
         "F_C_arguments, abstract interfaces nested inside callbacks. Option F_auto_reference_count (its own array_destructor "
         "interface) cannot be generated at all (Shroud stops with 'Error with template') and is not explored. Oracle (implementation only, Python table independent of the model): every bind(C) name is "
         "defined by a generated prototype/definition or by the YAML declaration (language c), same argument count, names not permuted, "
         "pairwise interoperable arguments and result, callbacks against their abstract interface, struct / derived-type pairs field by "
         "field (typedefs and structs declared in the YAML are resolved), emitted type-code tables; thorough: gfortran -fc-prototypes of "
         "every module (dependency order, specification part alone when a wrapper body does not compile) against the real prototypes, "
         "_Static_assert(sizeof/offsetof) against gfortran's c_sizeof / c_loc offsets, LP64 tables against gcc sizeof and gfortran "
         "storage_size. Trusted / modelled-not-verified: Lean kernel; LP64 size tables and the C and Fortran declaration parsers of "
         "tools/interop_parse.py; the translator's template classification; the hand-written models; signedness is not distinguished; a "
         "union of pointers counts as one pointer member; void * accepts any dummy passed by reference; gfortran 12's -fc-prototypes "
         "shows descriptor dummies as T * and gives up on type(*) / dummy procedures (those pairs rest on the Python table); types that "
         "exist only in another library's headers stay unresolved and are listed in the evidence.",
    technique="Lean 4 proof (list induction, decide +kernel over regenerated tables) + per-call differential correspondence + "
              "prototype/interface/struct oracle + compiler cross-check (gfortran -fc-prototypes, _Static_assert)",
)
MODULES = ["ShroudVerif.Props.C04"]
THEOREMS = {
    "ShroudVerif.Props.C04": [
        "Shroud.Interop.per_buf",
        "Shroud.Interop.proto_iface_interop",
        "Shroud.Interop.proto_iface_length",
        "Shroud.Interop.proto_iface_pointwise",
        "Shroud.Interop.name_count",
        "Shroud.Interop.callback_interop",
        "Shroud.Interop.callback_length",
        "Shroud.Interop.callback_result_interop",
        "Shroud.Interop.callback_bindc_only_not_interop",
        "Shroud.Interop.result_interop",
        "Shroud.Interop.result_bad_not_interop",
        "Shroud.Interop.struct_fields_interop",
        "Shroud.Interop.struct_fields_length",
        "Shroud.Interop.struct_member_old_not_interop",
        "Shroud.Interop.struct_member_unreversed_not_interop",
        "Shroud.Interop.protoItem_length",
        "Shroud.Interop.ifaceItem_length",
        "Shroud.Interop.typemap_members_ok",
        "Shroud.Interop.all_entries_ok",
        "Shroud.Interop.value_on_pointer_not_interop",
        "Shroud.Interop.cfi_without_descriptor_not_interop",
        "Shroud.Interop.lookup_paths_agree_c",
        "Shroud.Interop.lookup_paths_agree_cxx",
        "Shroud.Interop.result_paths_agree",
        "Shroud.Interop.result_as_arg_paths_agree",
        "Shroud.Interop.result_entries_ok",
        "Shroud.Interop.typemap_rows_ok",
        "Shroud.Interop.typemap_args_ok",
        "Shroud.Interop.struct_pairs_ok",
        "Shroud.Interop.helper_ifaces_ok",
        "Shroud.Interop.type_defines_agree",
        "Shroud.Interop.bind_names_defined_all_envs",
        "Shroud.Interop.probe_bind_names_defined",
        "Shroud.Interop.probe_bind_names_defined_all_envs",
        "Shroud.Interop.hardcoded_name_differs",
        "Shroud.Interop.tmplOK_interop",
        "Shroud.Interop.decl_rows_ok",
        "Shroud.Interop.decl_row_gives_declOK",
        "Shroud.Interop.result_decl_rows_ok",
    ]
}

QUICK_CORPUS = ["tutorial", "types", "classes", "pointers-c", "pointers-cxx", "struct-c", "struct-cxx", "vectors",
                "strings", "strings-cfi", "generic-cfi", "cdesc", "clibrary", "ownership", "templates"]
BUFCODE = {"arg": 0, "shadow": 1, "arg_decl": 2, "size": 3, "capsule": 4, "context": 5, "len_trim": 6, "len": 7}
HDR_EXT = (".h", ".hh", ".hpp", ".hxx")
SRC_EXT = (".c", ".cc", ".cpp", ".cxx")
F_EXT = (".f", ".f90", ".F", ".F90")


# ================================================================== observation of the two builders
class Recorder:
    """Observe Wrapc.wrap_function/build_proto_list and Wrapf.wrap_function_interface/build_arg_list_interface."""

    def __init__(self):
        self.c = {}      # id(node) -> record
        self.f = {}
        self.order = []
        self.structs = []
        self.callbacks = {}
        self.nodes = {}
        self._cur_c = None
        self._cur_f = None
        self._saved = None

    def __enter__(self):
        from shroud import wrapc, wrapf
        rec = self
        o_wf, o_bp = wrapc.Wrapc.wrap_function, wrapc.Wrapc.build_proto_list
        o_wi, o_bi = wrapf.Wrapf.wrap_function_interface, wrapf.Wrapf.build_arg_list_interface
        self._saved = (wrapc.Wrapc, o_wf, o_bp, wrapf.Wrapf, o_wi, o_bi)

        def wrap_function(self, cls, node):
            r = {"calls": [], "this": None}
            rec._cur_c = r
            try:
                return o_wf(self, cls, node)
            finally:
                rec._cur_c = None
                if r["calls"] or node.wrap.c:
                    rec.c[id(node)] = r
                    rec.nodes[id(node)] = node
                    rec.order.append(id(node))
                    fd = node.fmtdict
                    r["C_name"] = getattr(fd, "C_name", None)
                    r["C_prototype"] = getattr(fd, "C_prototype", None)
                    r["C_return_type"] = getattr(fd, "C_return_type", None)

        def build_proto_list(self, fmt, ast, intent_blk, buf_args, proto_list, need_wrapper, name=None):
            r = rec._cur_c
            n0 = len(proto_list)
            res = o_bp(self, fmt, ast, intent_blk, buf_args, proto_list, need_wrapper, name=name)
            if r is not None:
                if r["this"] is None:
                    r["this"] = n0
                r["calls"].append({"ast": ast, "bufs": list(buf_args), "blk": intent_blk, "new": list(proto_list[n0:])})
            return res

        def wrap_function_interface(self, cls, node, fileinfo):
            r = {"calls": [], "this": None}
            rec._cur_f = r
            n0 = len(fileinfo.c_interface)
            try:
                return o_wi(self, cls, node, fileinfo)
            finally:
                rec._cur_f = None
                rec.f[id(node)] = r
                rec.nodes[id(node)] = node
                r["F_C_name"] = getattr(node.fmtdict, "F_C_name", None)
                r["F_C_subprogram"] = getattr(node.fmtdict, "F_C_subprogram", None)
                r["F_result"] = getattr(node.fmtdict, "F_result", None)
                r["iface_lines"] = [x for x in fileinfo.c_interface[n0:] if isinstance(x, str)]

        o_ai = wrapf.Wrapf.add_abstract_interface
        self._saved_ai = o_ai

        def add_abstract_interface(self, node, arg, fileinfo):
            name = o_ai(self, node, arg, fileinfo)
            rec.callbacks.setdefault(name, (node, arg))
            return name
        wrapf.Wrapf.add_abstract_interface = add_abstract_interface

        def build_arg_list_interface(self, node, fileinfo, fmt, ast, intent_blk, buf_args, modules, imports,
                                     arg_c_names, arg_c_decl, intent=None):
            r = rec._cur_f
            n0, d0 = len(arg_c_names), len(arg_c_decl)
            res = o_bi(self, node, fileinfo, fmt, ast, intent_blk, buf_args, modules, imports, arg_c_names, arg_c_decl,
                       intent=intent)
            if r is not None:
                if r["this"] is None:
                    r["this"] = n0
                r["calls"].append({"ast": ast, "bufs": list(buf_args), "blk": intent_blk, "names": list(arg_c_names[n0:]),
                                   "new": list(arg_c_decl[d0:]), "f_type": getattr(fmt, "f_type", ""),
                                   "f_c_dimension": getattr(fmt, "f_c_dimension", "")})
            return res

        o_ws = wrapf.Wrapf.wrap_struct
        self._saved_ws = o_ws

        def wrap_struct(self, node, fileinfo):
            rec.structs.append(node)
            return o_ws(self, node, fileinfo)
        wrapf.Wrapf.wrap_struct = wrap_struct
        wrapc.Wrapc.wrap_function, wrapc.Wrapc.build_proto_list = wrap_function, build_proto_list
        wrapf.Wrapf.wrap_function_interface, wrapf.Wrapf.build_arg_list_interface = wrap_function_interface, build_arg_list_interface
        return self

    def __exit__(self, *a):
        W, o_wf, o_bp, F, o_wi, o_bi = self._saved
        W.wrap_function, W.build_proto_list = o_wf, o_bp
        F.wrap_function_interface, F.build_arg_list_interface = o_wi, o_bi
        F.wrap_struct = self._saved_ws
        F.add_abstract_interface = self._saved_ai
        return False


class Env:
    """Struct / derived-type identities of one library for the model encoding (ids as in Model/Interop.lean)."""

    def __init__(self):
        from shroud import typemap
        self.cs, self.ft = {}, {}
        self.fresh = 900
        for i, (name, t) in enumerate(typemap.shared_typedict.items()):
            if t.base == "shadow":
                if t.c_type:
                    self.cs[t.c_type] = 1
                if t.f_capsule_data_type:
                    self.ft[t.f_capsule_data_type.lower()] = 1
                if t.f_derived_type:
                    self.ft.setdefault(t.f_derived_type.lower(), 100 + i)
            elif t.base == "struct":
                if t.c_type:
                    self.cs[t.c_type] = 10 + i
                if t.f_derived_type:
                    self.ft[t.f_derived_type.lower()] = 10 + i

    def set_lib(self, fmt):
        for a, i in (("C_capsule_data_type", 1), ("C_array_type", 2)):
            v = getattr(fmt, a, None)
            if v:
                self.cs[v] = i
        for a, i in (("F_capsule_data_type", 1), ("F_array_type", 2)):
            v = getattr(fmt, a, None)
            if v:
                self.ft[v.lower()] = i

    def cid(self, n):
        if n not in self.cs:
            self.fresh += 1
            self.cs[n] = self.fresh
        return self.cs[n]

    def fid(self, n):
        n = n.lower()
        if n not in self.ft:
            self.fresh += 1
            self.ft[n] = self.fresh
        return self.ft[n]


from tools.extract_interop import CB, FB, SHAPE, parse_c_template, parse_f_template, enc_ct, enc_ft, TranslatorError  # noqa: E402


def c_code(p, env):
    b = p["base"]
    ptr = p["ptr"] + (1 if p.get("array") else 0)
    if b[0] == "struct":
        return "%d.%d.%d" % (CB["struct"], env.cid(b[1]), ptr)
    n = 1 if b[0] in ("bool", "char") else b[1]
    return "%d.%d.%d" % (CB[b[0]], n, ptr)


def f_code(d, env):
    b = d["base"]
    if b[0] == "derived":
        n = env.fid(b[1])
    elif b[0] in ("procedure", "cptr", "funptr", "assumedtype"):
        n = 0
    elif b[0] == "char":
        n = 1
    else:
        n = b[1]
    return "%d.%d.%d.%d" % (FB[b[0]], n, 1 if d["value"] else 0, SHAPE[d["shape"]])


def cbase_codes(text, env):
    if text is None:
        return None
    p = ip.parse_c_param(text, want_name=False)
    b = p["base"]
    if b[0] == "struct":
        return (CB["struct"], env.cid(b[1]))
    return (CB[b[0]], b[1])


def fbase_codes(text, env):
    if not text:
        return None
    base, _ = ip.parse_f_type(text.replace("character(*)", "character(len=*)"))
    if base[0] == "derived":
        return (FB["derived"], env.fid(base[1]))
    if base[0] in ("procedure", "cptr", "funptr", "assumedtype"):
        return (FB[base[0]], 0)
    return (FB[base[0]], base[1])


def encode_arg(ast, env, fcall=None):
    """The argument record of the model (Arg) for one declaration: exactly what the builders read from it."""
    attrs = ast.attrs
    tm = ast.typemap
    ntm = ast.template_arguments[0].typemap if ast.template_arguments else tm
    cb = cbase_codes(ntm.c_type, env) or (CB["void"], 0)
    fb = fbase_codes(ntm.f_c_type or ntm.f_type, env) or (FB["cptr"], 0)
    ft = fbase_codes((fcall or {}).get("f_type") or ntm.f_type, env) or fb
    scb = cbase_codes(tm.c_type, env) or cb
    sfb = fbase_codes(tm.f_c_type, env) or fb
    ptr = ast.is_array()
    farray = (tm.base == "vector") or (ntm.base == "string" and not attrs["value"]) or bool(attrs["dimension"]) or \
             (attrs["rank"] is not None and attrs["rank"] > 0) or bool(attrs["allocatable"])
    dim = (fcall or {}).get("f_c_dimension") or ""
    fcdim = 0 if dim == "" else (2 if (".." in dim or ":" in dim) else 1)
    return [cb[0], 1 if cb[0] in (4, 5) else cb[1], fb[0], 1 if fb[0] == 5 else fb[1], ft[0], 1 if ft[0] == 5 else ft[1],
            scb[0], 1 if scb[0] in (4, 5) else scb[1], sfb[0], 1 if sfb[0] == 5 else sfb[1], ptr,
            1 if attrs["value"] else 0, 1 if farray else 0, 1 if attrs["assumedtype"] else 0,
            1 if (attrs["rank"] or attrs["dimension"]) else 0, 1 if ast.is_function_pointer() else 0, fcdim]


def encode_item(ccall, fcall, env):
    """(argument, buf_args) as the model sees it -> driver token.  Reads exactly what the two builders read."""
    ast = ccall["ast"]
    a = encode_arg(ast, env, fcall)
    bufs = ccall["bufs"]
    blk = ccall["blk"]
    cd = fd = "-"
    if "arg_decl" in bufs:
        cs = [enc_ct(parse_c_template(t)) for t in blk.c_arg_decl]
        fs = [enc_ft(parse_f_template(t)) for t in blk.f_arg_decl]
        cd = "/".join(".".join(str(x) for x in t) for t in cs) or "-"
        fd = "/".join(".".join(str(x) for x in t) for t in fs) or "-"
    return "%s|%s|%s|%s" % (",".join(str(x) for x in a), ".".join(str(BUFCODE[b]) for b in bufs) or "-", cd, fd)


def run_library(ctx, tag, yaml_path, options, language, write_version, replay):
    """Run real Shroud once with the recorder; returns dict(outdir, rec, env, fmt) or None."""
    d = common.scratch()
    rec = Recorder()
    with rec:
        cfg, exc, out = shroudrun.run_inproc([yaml_path], d, options=options, language=language, write_version=write_version)
    if exc is not None:
        common.rmtree(d)
        return {"exc": exc, "outdir": None, "wrapping_started": bool(rec.c)}
    env = Env()
    libfmt = None
    for node in rec.nodes.values():
        libfmt = node.fmtdict
        break
    if libfmt is not None:
        env.set_lib(libfmt)
    return {"exc": None, "outdir": d, "rec": rec, "env": env, "tag": tag}


# ================================================================== (D)(i) model correspondence
def tie_library(ctx, res, replay, drv_lines, drv_meta):
    rec, env = res["rec"], res["env"]
    for nid in rec.order:
        node = rec.nodes[nid]
        cr, fr = rec.c[nid], rec.f.get(nid)
        fname = node.declgen if hasattr(node, "declgen") else str(node.ast.name)
        if fr is None:
            continue       # no Fortran interface for this C wrapper (wrap.c without interface): nothing to pair
        ctx.count(1)
        def ename(c):
            # a result that became an argument: wrapc and wrapf use different spointers (table theorem
            # result_as_arg_paths_agree): compare what the builders read from the entry, not its name
            if c["ast"].metaattrs.get("is_result"):
                b = c["blk"]
                return repr((list(b.buf_args), list(b.buf_extra), list(b.c_arg_decl), list(b.f_arg_decl)))
            return getattr(c["blk"], "name", "?")
        # same argument, same buf_args; same statement entry for arguments (for the function result wrapc may use the
        # ctor / dtor / bare entry where wrapf uses `result`: table theorem result_paths_agree)
        cseq = [(id(c["ast"]), tuple(c["bufs"]), ename(c) if c["ast"] is not node.ast else "") for c in cr["calls"] if c["bufs"]]
        fseq = [(id(c["ast"]), tuple(c["bufs"]), ename(c) if c["ast"] is not node.ast else "") for c in fr["calls"] if c["bufs"]]
        meta = {"lib": res["tag"], "function": fname, "replay": dict(replay, function=fname), "same_seq": cseq == fseq}
        if cseq != fseq:
            meta["detail"] = "wrapc and wrapf used different (argument, buf_args) sequences: C %s, Fortran %s" % (
                [(c["ast"].name, c["bufs"], ename(c)) for c in cr["calls"] if c["bufs"]],
                [(c["ast"].name, c["bufs"], ename(c)) for c in fr["calls"] if c["bufs"]])
        ccalls = [c for c in cr["calls"] if c["bufs"]]
        fcalls = [c for c in fr["calls"] if c["bufs"]]
        try:
            items = [encode_item(c, fcalls[k] if k < len(fcalls) else None, env) for k, c in enumerate(ccalls)]
            cact = [c_code(ip.parse_c_param(s), env) for c in ccalls for s in c["new"]]
            fact = []
            for c in fcalls:
                for s in c["new"]:
                    for _nm, dcl in ip.parse_f_decl(s):
                        fact.append(f_code(dcl, env))
            nnames = sum(len(c["names"]) for c in fcalls)
        except (ip.ParseError, TranslatorError) as e:
            meta["error"] = "cannot classify: %s" % e
            drv_meta.append(meta)
            drv_lines.append("fn 0 ~")
            continue
        this = 1 if cr["this"] else 0
        meta.update(cact=cact, fact=fact, this_c=cr["this"], this_f=fr["this"], nnames=nnames + (fr["this"] or 0),
                    args=[(c["ast"].name, c["bufs"], getattr(c["blk"], "name", "?")) for c in ccalls])
        for c in ccalls:
            for b in c["bufs"]:
                ctx.nontrivial(("buf", b, getattr(c["blk"], "name", "?")))
        drv_meta.append(meta)
        drv_lines.append("fn %d %s" % (this, ";".join(items) if items else "~"))


def tie_structs(ctx, res, replay, drv_lines, drv_meta):
    """Model structC/structF for the member list of every wrapped struct vs the generated C struct / derived type."""
    from shroud import todict
    rec, env, d = res["rec"], res["env"], res["outdir"]
    if not rec.structs:
        return
    protos, defs, structs, defines, uprotos, modules = read_outputs(d)
    ftypes = {}
    for fn, (ifaces, types, params) in modules.items():
        ftypes.update(types)
    for node in rec.structs:
        tm = node.typemap
        mems, okm = [], True
        for var in node.variables:
            ast = var.ast
            vt = ast.typemap
            alen = []
            if ast.array:
                alen = ip.dims_list([todict.print_node(x) for x in ast.array])
                if alen is None:
                    okm = False
                    break
            try:
                cb = cbase_codes(vt.c_type, env)
                fb = fbase_codes(vt.f_c_type or vt.f_type, env)
            except ip.ParseError:
                okm = False
                break
            if cb is None or fb is None:
                okm = False
                break
            mems.append("%d,%d,%d,%d,%d,%s" % (cb[0], 1 if cb[0] in (4, 5) else cb[1], fb[0], 1 if fb[0] == 5 else fb[1], ast.is_indirect(),
                                               "x".join(str(x) for x in alen) or "-"))
        if not okm:
            continue
        meta = {"kind": "struct", "lib": res["tag"], "function": "struct " + node.name, "replay": dict(replay, struct=node.name)}
        ft = ftypes.get((tm.f_derived_type or "").lower())
        cs = structs.get(tm.c_type)
        if ft is None or ft["error"]:
            meta["error"] = "derived type %s not found/parsable in the generated module" % tm.f_derived_type
        else:
            dl = lambda xs: "x".join(re.sub(r"\s+", "", x) for x in xs) or "-"
            meta["fact"] = ["%s.%s" % (f_code(dcl, env).rsplit(".", 2)[0], dl(ip.split_top(dcl["extent"])) if dcl["shape"] == "array" else "-")
                            for _n, dcl in ft["fields"]]
            meta["cact"] = None
            if isinstance(cs, list) and node.wrap.c and res.get("language_cxx"):
                meta["cact"] = ["%s.%s" % (c_code(dict(f, array=None), env), dl(f["array"]) if f.get("array") else "-") for f in cs]
        ctx.count(1)
        ctx.nontrivial(("struct-members", len(mems)))
        drv_meta.append(meta)
        drv_lines.append("st " + (";".join(mems) if mems else "~"))


def _rt_class(text, tm, env):
    """A statement entry's return_type template -> C class token ('-' if absent)."""
    if not text:
        return "-"
    t = text.replace("{c_type}", tm.c_type or "void").replace("{cxx_type}", tm.cxx_type or "void")
    if "{" in t:
        raise TranslatorError("return_type template %r" % text)
    return c_code(ip.parse_c_param(t, want_name=False), env)


def tie_results(ctx, res, replay, drv_lines, drv_meta):
    """Model resultC / resultF for every wrapped function vs C_return_type and the emitted result declaration."""
    from shroud import typemap as stypemap
    rec, env = res["rec"], res["env"]
    for nid in rec.order:
        node = rec.nodes[nid]
        cr, fr = rec.c[nid], rec.f.get(nid)
        if fr is None or not cr["calls"] or not fr["calls"] or cr.get("C_return_type") is None:
            continue
        ast = node.ast
        if cr["calls"][0]["ast"] is not ast or fr["calls"][0]["ast"] is not ast:
            continue
        cblk, fblk = cr["calls"][0]["blk"], fr["calls"][0]["blk"]
        fname = getattr(node, "declgen", str(ast.name))
        meta = {"kind": "result", "lib": res["tag"], "function": "result of " + fname, "replay": dict(replay, function=fname)}
        try:
            tm = ast.typemap
            ntm = ast.template_arguments[0].typemap if ast.template_arguments else tm
            cb = cbase_codes(ntm.c_type, env) or (CB["void"], 0)
            fb = fbase_codes(ntm.f_c_type or ntm.f_type, env) or (FB["cptr"], 0)
            attrs = ast.attrs
            farray = (tm.base == "vector") or (ntm.base == "string" and not attrs["value"]) or bool(attrs["dimension"]) or \
                     (attrs["rank"] is not None and attrs["rank"] > 0) or bool(attrs["allocatable"])
            deref = ast.metaattrs["deref"]
            retc = _rt_class(cblk.return_type, tm, env)
            hasretf = 1 if fblk.return_type else 0
            retf = "-"
            if fblk.return_type:
                t2 = stypemap.lookup_type(fblk.return_type)
                if t2 is not None and t2.f_type:
                    c2 = fbase_codes(t2.f_type, env)
                    retf = "%d.%d" % (c2[0], 1 if c2[0] == 5 else c2[1])
            rdecl = "-"
            if fblk.f_result_decl:
                tt = parse_f_template(fblk.f_result_decl[0])
                if tt[0] != "fixed":
                    raise TranslatorError("f_result_decl %r" % fblk.f_result_decl[0])
                rdecl = f_code(tt[1], env)
            line = "rs %d %d.%d %d.%d %d %d %d %d %s %d %s %d %s" % (
                1 if ast.get_subprogram() == "subroutine" else 0, cb[0], 1 if cb[0] in (4, 5) else cb[1], fb[0], 1 if fb[0] == 5 else fb[1],
                ast.is_indirect(), 1 if farray else 0, 1 if deref == "scalar" else 0, 1 if deref in ("pointer", "allocatable", "raw") else 0,
                retc, hasretf, retf, 1 if fblk.return_cptr else 0, rdecl)
            cact = c_code(ip.parse_c_param(cr["C_return_type"].replace("\t", " "), want_name=False), env)
            fact = "-"
            if fr.get("F_C_subprogram") == "function":
                want = (fr.get("F_result") or "").lower()
                fact = None
                seen_implicit = False
                for ln in fr.get("iface_lines", []):
                    st = ln.strip()
                    if st.lower().startswith("implicit none"):
                        seen_implicit = True
                        continue
                    if not seen_implicit or st.lower().startswith("end "):
                        continue
                    try:
                        for nm, dcl in ip.parse_f_decl(st):
                            if nm == want:
                                fact = f_code(dcl, env)
                    except ip.ParseError:
                        pass
                if fact is None:
                    raise TranslatorError("result declaration of %s not found" % want)
        except (ip.ParseError, TranslatorError) as e:
            meta["error"] = "cannot classify the result: %s" % e
            drv_meta.append(meta)
            drv_lines.append("io 1.4.0 1.4.1.0")
            continue
        meta.update(cact=cact, fact=fact, entries=(getattr(cblk, "name", "?"), getattr(fblk, "name", "?")))
        ctx.count(1)
        ctx.nontrivial(("result", getattr(cblk, "name", "?"), getattr(fblk, "name", "?"), cact, fact))
        drv_meta.append(meta)
        drv_lines.append(line)


def tie_callbacks(ctx, res, replay, drv_lines, drv_meta):
    """Model cbProto / cbIface for every callback argument vs the C function-pointer type and the abstract interface."""
    rec, env, d = res["rec"], res["env"], res["outdir"]
    if not rec.callbacks:
        return
    protos, defs, structs, defines, uprotos, modules = read_outputs(d)
    abstract = {}
    for fn, (ifaces, types, params) in modules.items():
        for it in ifaces:
            if it["bind"] is None:
                abstract[it["fname"].lower()] = it
    for name, (node, arg) in sorted(rec.callbacks.items()):
        meta = {"kind": "callback", "lib": res["tag"], "function": "callback %s" % name, "replay": dict(replay, callback=name)}
        try:
            items = [",".join(str(x) for x in encode_arg(p, env)) for p in arg.params]
            cp = ip.parse_c_param(arg.gen_arg_as_c())
            if "fp_params" not in cp:
                raise TranslatorError("function pointer type of %s: %s" % (name, cp.get("fp_error")))
            cact = [c_code(q, env) for q in cp["fp_params"]]
            ai = abstract.get(name.lower())
            if ai is None or ai["errors"]:
                raise TranslatorError("abstract interface %s not found/parsable" % name)
            fact = [f_code(ai["decls"][a], env) for a in ai["args"]]
            resreq, cres, fres = "", None, None
            if arg.get_subprogram() == "function":
                tm = arg.typemap
                rcb = cbase_codes(tm.c_type, env) or (CB["void"], 0)
                rfb = fbase_codes(tm.f_c_type or tm.f_type, env) or (FB["cptr"], 0)
                resreq = " %d.%d.%d.%d.%d" % (rcb[0], 1 if rcb[0] in (4, 5) else rcb[1], arg.is_indirect(), rfb[0], 1 if rfb[0] == 5 else rfb[1])
                cres = c_code(cp["fp_ret"], env)
                fres = f_code(ai["decls"][ai["result"]], env)
        except (ip.ParseError, TranslatorError, KeyError) as e:
            meta["error"] = "cannot classify the callback: %s" % e
            drv_meta.append(meta)
            drv_lines.append("io 1.4.0 1.4.1.0")
            continue
        meta.update(cact=cact, fact=fact, cres=cres, fres=fres)
        ctx.count(1)
        ctx.nontrivial(("callback-params", len(items), cres, fres))
        drv_meta.append(meta)
        drv_lines.append("cb " + (";".join(items) if items else "~") + resreq)


def tie_compare(ctx, drv_lines, drv_meta, out, notok=None):
    bad = []
    notok = notok if notok is not None else []
    for line, meta, o in zip(drv_lines, drv_meta, out):
        if meta.get("kind") == "struct" and "error" not in meta:
            m = re.match(r"^C ?(.*)#F ?(.*)$", o)
            if not m:
                bad.append({"function": meta["function"], "lib": meta["lib"], "what": "driver: " + o, "request": line})
            elif m.group(2).split() != meta["fact"] or (meta["cact"] is not None and m.group(1).split() != meta["cact"]):
                bad.append({"function": meta["function"], "lib": meta["lib"], "model_C": m.group(1).split(), "code_C": meta["cact"],
                            "model_F": m.group(2).split(), "code_F": meta["fact"], "request": line})
            continue
        if "error" in meta:
            bad.append({"function": meta["function"], "lib": meta["lib"], "what": meta["error"]})
            continue
        if meta.get("kind") == "result":
            m = re.match(r"^C (\S+)#F (\S+)#ok=(\d)$", o)
            if not m:
                bad.append({"function": meta["function"], "lib": meta["lib"], "what": "driver: " + o, "request": line})
            elif m.group(1) != meta["cact"] or m.group(2) != meta["fact"]:
                bad.append({"function": meta["function"], "lib": meta["lib"], "entries": meta["entries"], "model_C": m.group(1),
                            "code_C": meta["cact"], "model_F": m.group(2), "code_F": meta["fact"], "request": line})
            elif m.group(3) != "1":
                notok.append({"function": meta["function"], "lib": meta["lib"], "request": line, "replay": meta["replay"]})
            continue
        if meta.get("kind") == "callback":
            m = re.match(r"^P ?([^#]*)#F ?([^#]*)(?:#R (\S+) (\S+))?$", o)
            if not m:
                bad.append({"function": meta["function"], "lib": meta["lib"], "what": "driver: " + o, "request": line})
            elif m.group(1).split() != meta["cact"] or m.group(2).split() != meta["fact"] or \
                    (m.group(3), m.group(4)) != (meta["cres"], meta["fres"]):
                bad.append({"function": meta["function"], "lib": meta["lib"], "model_C": m.group(1).split(), "code_C": meta["cact"],
                            "model_F": m.group(2).split(), "code_F": meta["fact"], "model_result": (m.group(3), m.group(4)),
                            "code_result": (meta["cres"], meta["fres"]), "request": line})
            continue
        if not meta["same_seq"]:
            bad.append({"function": meta["function"], "lib": meta["lib"], "what": meta["detail"]})
            continue
        m = re.match(r"^P ?(.*)#F ?(.*)#ok=(\d)#names=(\d+)$", o)
        if not m:
            bad.append({"function": meta["function"], "lib": meta["lib"], "what": "driver: " + o, "request": line})
            continue
        mp, mf = m.group(1).split(), m.group(2).split()
        if m.group(3) != "1":
            notok.append({"function": "arguments of " + meta["function"], "lib": meta["lib"], "request": line, "replay": meta["replay"]})
        this = 1 if meta["this_c"] else 0
        if bool(meta["this_c"]) != bool(meta["this_f"]):
            bad.append({"function": meta["function"], "lib": meta["lib"], "what": "this argument on one side only"})
            continue
        if mp[this:] != meta["cact"] or mf[this:] != meta["fact"] or int(m.group(4)) != meta["nnames"]:
            bad.append({"function": meta["function"], "lib": meta["lib"], "args": meta["args"],
                        "model_C": mp[this:], "code_C": meta["cact"], "model_F": mf[this:], "code_F": meta["fact"],
                        "model_names": int(m.group(4)), "code_names": meta["nnames"], "request": line})
    return bad


# ================================================================== (D)(ii) oracle on the generated files
def strip_attrs(decl):
    """YAML declaration -> plain C text (remove +attr and +attr(...), default values)."""
    out, i, n = [], 0, len(decl)
    while i < n:
        ch = decl[i]
        if ch == "+":
            i += 1
            while i < n and (decl[i].isalnum() or decl[i] == "_"):
                i += 1
            if i < n and decl[i] in "(=":
                if decl[i] == "=":
                    i += 1
                    while i < n and decl[i] not in ",)+ ":
                        i += 1
                else:
                    depth = 0
                    while i < n:
                        if decl[i] == "(":
                            depth += 1
                        elif decl[i] == ")":
                            depth -= 1
                            if depth == 0:
                                i += 1
                                break
                        i += 1
            continue
        out.append(ch)
        i += 1
    return "".join(out)


def user_proto(decl):
    s = strip_attrs(decl).strip().rstrip(";")
    s = re.sub(r"=\s*[^,)]+", "", s)
    m = re.match(r"^(.*?)([A-Za-z_]\w*)\s*\((.*)\)\s*(const)?$", s, re.S)
    if not m:
        raise ip.ParseError("user declaration %r" % decl)
    return {"ret": ip.parse_c_param(m.group(1), want_name=False), "params": ip.parse_c_proto_params(m.group(3)),
            "text": " ".join(s.split()), "file": "<yaml decl>"}


def yaml_types(text):
    """Types the library description itself declares: `typedef int TypeID` and `struct X {...}` (inline or with a
    declarations list).  They are the reference for C types the generated code only names."""
    import yaml
    structs, typedefs = {}, {}
    try:
        doc = yaml.safe_load(text)
    except Exception:
        return structs, typedefs

    def walk(decls):
        for item in decls or []:
            if not isinstance(item, dict):
                continue
            s = strip_attrs(str(item.get("decl", ""))).strip()
            try:
                if s.startswith("typedef "):
                    p = ip.parse_c_param(s[8:].rstrip("; "))
                    if p and p["name"] and p["ptr"] == 0 and not p["array"] and p["base"][0] != "funptr":
                        typedefs[p["name"]] = p["base"]
                elif re.match(r"^struct\s+\w+", s):
                    if "{" in s:
                        structs.update(ip.parse_c_structs(s if s.rstrip().endswith(";") else s + ";"))
                    else:
                        name = s.split()[1]
                        fields = []
                        for sub in item.get("declarations") or []:
                            fs = strip_attrs(str(sub.get("decl", ""))).strip().rstrip(";")
                            if fs:
                                fields.append(ip.parse_c_param(fs))
                        structs[name] = fields
                        continue
            except ip.ParseError:
                pass
            walk(item.get("declarations"))
    walk((doc or {}).get("declarations") if isinstance(doc, dict) else None)
    return structs, typedefs


def resolve_typedefs(p, typedefs, depth=0):
    """Replace a typedef name declared in the YAML by its underlying type (in place)."""
    if p is None or depth > 4:
        return
    b = p.get("base")
    if b and b[0] == "struct" and b[1] in typedefs:
        p["base"] = typedefs[b[1]]
        resolve_typedefs(p, typedefs, depth + 1)
    for q in p.get("fp_params") or []:
        resolve_typedefs(q, typedefs, depth + 1)
    if p.get("fp_ret"):
        resolve_typedefs(p["fp_ret"], typedefs, depth + 1)


def read_outputs(d, user_dirs=()):
    protos, defs, structs, defines = {}, {}, {}, {}
    for fn in sorted(os.listdir(d)):
        if fn.startswith(("py", "lua")) or fn == "setup.py":
            continue
        p = os.path.join(d, fn)
        if fn.endswith(HDR_EXT):
            pr, st, df = ip.parse_c_header(open(p).read())
            for v in pr.values():
                v["file"] = fn
            protos.update(pr)
            structs.update(st)
            defines.update(df)
        elif fn.endswith(SRC_EXT):
            for k, v in ip.parse_c_defs(open(p).read()).items():
                v["file"] = fn
                defs[k] = v
    ustructs, uprotos = {}, {}
    for ud in user_dirs:
        for p in sorted(glob.glob(os.path.join(ud, "*"))):
            try:
                if p.endswith(HDR_EXT):
                    pr, st, _ = ip.parse_c_header(open(p).read())
                    uprotos.update(pr)
                    ustructs.update(st)
                elif p.endswith(".c"):
                    uprotos.update({k: v for k, v in ip.parse_c_defs(open(p).read()).items() if k not in uprotos})
            except Exception:
                continue
    for k, v in ustructs.items():
        structs.setdefault(k, v)
    modules = {}
    for fn in sorted(os.listdir(d)):
        if fn.endswith(F_EXT):
            modules[fn] = ip.parse_f_module(open(os.path.join(d, fn)).read())
    return protos, defs, structs, defines, uprotos, modules


def oracle_library(ctx, res, replay, stats):
    d = res["outdir"]
    rec = res["rec"]
    user_decl = {}
    for node in rec.nodes.values():
        try:
            user_decl.setdefault(node.ast.name, node.decl)
        except Exception:
            pass
    protos, defs, structs, defines, uprotos, modules = read_outputs(d, res.get("user_dirs", ()))
    ystructs, ytypedefs = yaml_types(res.get("yaml_text", ""))
    for k, v in ystructs.items():
        structs.setdefault(k, v)
    for tab in (protos, defs, uprotos):
        for v in tab.values():
            if "error" not in v:
                resolve_typedefs(v["ret"], ytypedefs)
                for q in v["params"]:
                    resolve_typedefs(q, ytypedefs)
    for v in structs.values():
        if isinstance(v, list):
            for q in v:
                resolve_typedefs(q, ytypedefs)
    stats["yaml_structs"] = stats.get("yaml_structs", 0) + len(ystructs)
    stats["yaml_typedefs"] = stats.get("yaml_typedefs", 0) + len(ytypedefs)
    lib = res["tag"]
    alltypes = {}
    for fn, (ifaces, types, params) in modules.items():
        alltypes.update(types)
    abstract = {}
    for fn, (ifaces, types, params) in modules.items():
        for it in ifaces:
            if it["bind"] is None:
                abstract[it["fname"].lower()] = it
    for fn, (ifaces, types, params) in modules.items():
        for it in ifaces:
            if it["bind"] is None:
                stats["abstract"] += 1
                continue
            name = it["bind"]
            stats["interfaces"] += 1
            ctx.count(1)
            rp = dict(replay, function=name, fortran=it["fname"], file=fn)
            pr = protos.get(name) or defs.get(name)
            src = "generated"
            if pr is None and name in user_decl:
                src = "yaml"
                try:
                    pr = user_proto(user_decl[name])
                    resolve_typedefs(pr["ret"], ytypedefs)
                    for q in pr["params"]:
                        resolve_typedefs(q, ytypedefs)
                except ip.ParseError as e:
                    stats["unresolved"] += 1
                    stats["unresolved_names"].add("%s:%s user declaration not parsed: %s" % (lib, name, e))
                    continue
            if pr is None and name in uprotos:
                pr, src = uprotos[name], "user"
            if pr is None:
                ctx.fail("c04:undefined:%s:%s" % (lib, name),
                         "bind(C, name=\"%s\") of %s in %s/%s is defined by no generated prototype, no generated definition and "
                         "no declaration of the library description" % (name, it["fname"], lib, fn), rp)
                continue
            if "error" in pr:
                ctx.fail("c04:c-unparsable:%s:%s" % (lib, name), "C prototype of %s not understood: %s" % (name, pr["error"]), rp)
                continue
            if it["errors"]:
                ctx.fail("c04:f-unparsable:%s:%s" % (lib, name), "Fortran interface %s has a declaration that is not "
                         "interoperable/understood: %s" % (it["fname"], it["errors"][:2]), rp)
                continue
            stats["by_source"][src] = stats["by_source"].get(src, 0) + 1
            if len(pr["params"]) != len(it["args"]):
                ctx.fail("c04:arg-count:%s:%s" % (lib, name),
                         "%s: C takes %d parameters (%s), the bind(C) interface %s has %d dummy arguments (%s)" % (
                             name, len(pr["params"]), pr["text"], it["fname"], len(it["args"]), ", ".join(it["args"])), rp)
                continue
            cn = [(cp.get("name") or "").lower() for cp in pr["params"]]
            if all(cn) and len(set(cn)) == len(cn) and sorted(cn) == sorted(it["args"]) and cn != it["args"]:
                ctx.fail("c04:arg-order:%s:%s" % (lib, name),
                         "%s: the C parameters are (%s) but the bind(C) interface lists the same names as (%s)" % (
                             name, ", ".join(cn), ", ".join(it["args"])), rp)
                continue
            for k, (cp, an) in enumerate(zip(pr["params"], it["args"])):
                fd = it["decls"].get(an)
                if fd is None:
                    ctx.fail("c04:no-declaration:%s:%s:%d" % (lib, name, k + 1), "dummy %s of %s has no declaration" % (an, it["fname"]),
                             dict(rp, argument=an))
                    continue
                if cp["base"][0] == "funptr" and fd["base"][0] == "procedure":
                    # callback: the abstract interface against the C function-pointer type
                    ai = abstract.get(fd["base"][1])
                    if ai is None:
                        ctx.fail("c04:callback-no-interface:%s:%s:%d" % (lib, name, k + 1),
                                 "dummy procedure %s of %s is declared with procedure(%s) but no such abstract interface is emitted" % (
                                     an, it["fname"], fd["base"][1]), dict(rp, argument=an))
                    else:
                        for pos, okc, whyc in ip.callback_interop(cp, ai, structs, alltypes):
                            stats["callback_pairs"] = stats.get("callback_pairs", 0) + 1
                            ctx.nontrivial(("callback", pos if isinstance(pos, str) else "arg"))
                            if okc is None:
                                stats["unresolved"] += 1
                            elif not okc:
                                ctx.fail("c04:callback:%s:%s:%s:%s" % (lib, name, an, pos),
                                         "callback argument %s of %s (C `%s`): %s of the abstract interface %s is not interoperable "
                                         "with the C function-pointer type: %s" % (an, name, pr["text"], "result" if pos == "result" else
                                                                                  "argument %s" % pos, ai["fname"], whyc),
                                         dict(rp, argument=an, callback_position=pos))
                ok, why = ip.interop(cp, fd, structs, alltypes)
                stats["pairs"] += 1
                ctx.nontrivial(("pair", cp["base"][0], cp["ptr"], fd["base"][0], fd["value"], fd["shape"]))
                if ok is None:
                    stats["unresolved"] += 1
                    stats["unresolved_names"].add("%s:%s:%s %s" % (lib, name, an, why))
                elif not ok:
                    ctx.fail("c04:not-interoperable:%s:%s:%d" % (lib, name, k + 1),
                             "argument %d of %s: C `%s` in `%s` [%s] against Fortran `%s`: %s" % (
                                 k + 1, name, cp.get("name") or "?", pr["text"], pr.get("file"), fd["text"], why),
                             dict(rp, argument=an, position=k + 1))
            fres = it["decls"].get(it["result"]) if it["result"] else None
            if it["result"] and fres is None:
                ctx.fail("c04:no-result-declaration:%s:%s" % (lib, name), "function %s declares no result type" % it["fname"], rp)
                continue
            ok, why = ip.result_interop(pr["ret"], fres, structs, alltypes)
            if ok is None:
                stats["unresolved"] += 1
                stats["unresolved_names"].add("%s:%s:result %s" % (lib, name, why))
            elif not ok:
                ctx.fail("c04:result:%s:%s" % (lib, name), "result of %s: C `%s` against Fortran `%s`: %s" % (
                    name, pr["text"], (fres or {}).get("text", "subroutine"), why), dict(rp, argument="<result>"))
        # derived types with bind(C): a C struct of the matching name must agree
        cnames = {k.lower(): k for k in structs}
        for tname, t in types.items():
            if not t["bindc"]:
                continue
            cands = [cnames[c] for c in cnames if c == tname or c.endswith("_" + tname) or c == "s_" + tname]
            for cn in cands[:1]:
                ok, why = ip.struct_match(cn, tname, structs, alltypes)
                stats["struct_pairs"] += 1
                ctx.count(1)
                ctx.nontrivial(("struct", len(t["fields"])))
                if ok is False:
                    ctx.fail("c04:struct:%s:%s" % (lib, tname), "derived type %s and C struct %s differ: %s" % (tname, cn, why),
                             dict(replay, type=tname, struct=cn))
        # the two type-code tables as emitted
        fpar = {k: v for k, v in params.items() if k.startswith("SH_TYPE_")}
        cdef = {k: v for k, v in defines.items() if k.startswith("SH_TYPE_")}
        if fpar and cdef:
            ev = lambda tab, k, dep=0: None if dep > 4 or k not in tab else (
                int(tab[k]) if tab[k].isdigit() else (
                    (lambda m: None if not m or ev(tab, m.group(1).upper(), dep + 1) is None else ev(tab, m.group(1).upper(), dep + 1) + int(m.group(2)))(
                        re.match(r"^(\w+)\s*\+\s*(\d+)$", tab[k]))))
            cdu = {k.upper(): v for k, v in cdef.items()}
            for k in sorted(set(cdu) | set(fpar)):
                stats["defines"] += 1
                a, b = ev(cdu, k), ev(fpar, k)
                if a is None or b is None or a != b:
                    ctx.fail("c04:type-define:%s:%s" % (lib, k), "%s is %s in the C header and %s in the Fortran module" % (k, a, b),
                             dict(replay, name=k))


# ================================================================== thorough: compilers
def compiler_checks(ctx, res, replay, stats):
    d = res["outdir"]
    lib = res["tag"]
    protos, defs, structs, defines, uprotos, modules = read_outputs(d, res.get("user_dirs", ()))
    ystructs, ytypedefs = yaml_types(res.get("yaml_text", ""))
    for tab in (protos, defs):
        for v in tab.values():
            if "error" not in v:
                resolve_typedefs(v["ret"], ytypedefs)
                for q in v["params"]:
                    resolve_typedefs(q, ytypedefs)
    # gfortran's own C view of every module; modules of this library that use each other are processed in
    # dependency order (gfortran -fsyntax-only writes the .mod files the later ones need)
    ffiles = sorted(modules)
    defines_mod, uses = {}, {}
    for fn in ffiles:
        txt = open(os.path.join(d, fn)).read()
        for m in re.finditer(r"^\s*module\s+(?!procedure\b)(\w+)\s*$", txt, re.M | re.I):
            defines_mod[m.group(1).lower()] = fn
        uses[fn] = {m.group(1).lower() for m in re.finditer(r"^\s*use\s*(?:,\s*\w+\s*::)?\s*(\w+)", txt, re.M | re.I)}
    order, seen = [], set()

    def visit(fn, stack=()):
        if fn in seen or fn in stack:
            return
        for u in sorted(uses.get(fn, ())):
            dep = defines_mod.get(u)
            if dep and dep != fn:
                visit(dep, stack + (fn,))
        seen.add(fn)
        order.append(fn)
    for fn in ffiles:
        visit(fn)
    done, pending, reduced_ok = set(), [], set()
    reasons = stats.setdefault("gfortran_skip_reasons", [])
    for fn in order:
        p = subprocess.run(["gfortran", "-ffree-form", "-ffree-line-length-none", "-cpp", "-fc-prototypes", "-fsyntax-only", fn],
                           cwd=d, stdout=subprocess.PIPE, stderr=subprocess.PIPE, text=True, timeout=300)
        body = p.stdout.split("#endif", 1)[-1] if "#endif" in p.stdout else ""

        def usable(q):
            # the prototype printer itself gives up on type(*) and dummy procedures ("Cannot convert ... to
            # interoperable type") but prints the other procedures
            errs = re.findall(r"Error: ([^\n]*)", q.stderr)
            return q.returncode == 0 or (errs and all(e.startswith("Cannot convert") for e in errs))
        if not usable(p):
            body = ""
        if not usable(p):
            # a wrapper body gfortran rejects (not this property): retry on the specification part alone
            red = "c04red_" + os.path.splitext(fn)[0] + ".F90"
            open(os.path.join(d, red), "w").write(reduce_module(open(os.path.join(d, fn)).read()))
            p2 = subprocess.run(["gfortran", "-ffree-form", "-ffree-line-length-none", "-cpp", "-fc-prototypes", "-fsyntax-only", red],
                                cwd=d, stdout=subprocess.PIPE, stderr=subprocess.PIPE, text=True, timeout=300)
            body2 = p2.stdout.split("#endif", 1)[-1] if "#endif" in p2.stdout else ""
            if usable(p2):
                p, body = p2, body2
                stats["gfortran_reduced"] = stats.get("gfortran_reduced", 0) + 1
                reduced_ok.add(fn)
        if not usable(p):
            pending.append(fn)
            m = re.search(r"(?:Fatal )?Error: ([^\n]*)", p.stderr)
            why = m.group(1) if m else p.stderr[-160:]
            ext = [u for u in uses.get(fn, ()) if u not in defines_mod and u not in ("iso_c_binding", "iso_fortran_env")]
            if "Cannot open module file" in why and ext:
                why = "uses module(s) of another library: %s" % ", ".join(sorted(ext))
            reasons.append("%s/%s: %s" % (lib, fn, why[:160]))
            continue
        if True:
            done.add(fn)
            stats["gfortran_modules"] += 1
            text = re.sub(r"__GFORTRAN_(FLOAT|DOUBLE|LONG_DOUBLE)_COMPLEX",
                          lambda m: {"FLOAT": "float complex", "DOUBLE": "double complex", "LONG_DOUBLE": "long double complex"}[m.group(1)],
                          body)
            gp, gs, _ = ip.parse_c_header(text)
            gstructs = {k.lower(): v for k, v in gs.items()}
            for name, g in gp.items():
                real = protos.get(name) or defs.get(name)
                if real is None or "error" in real or "error" in g:
                    continue
                stats["gfortran_protos"] += 1
                ctx.count(1)
                rp = dict(replay, function=name, file=fn)
                if len(real["params"]) != len(g["params"]):
                    ctx.fail("c04:gfortran-arg-count:%s:%s" % (lib, name), "gfortran sees %d C arguments for %s, the prototype has %d" % (
                        len(g["params"]), name, len(real["params"])), rp)
                    continue
                for k, (a, b) in enumerate(zip(real["params"], g["params"])):
                    if not c_same(a, b, structs, gstructs):
                        ctx.fail("c04:gfortran-arg:%s:%s:%d" % (lib, name, k + 1),
                                 "argument %d of %s: prototype `%s`, gfortran's C view of the interface `%s`" % (k + 1, name, real["text"], g["text"]),
                                 dict(rp, position=k + 1))
                if not c_same(real["ret"], g["ret"], structs, gstructs, ret=True):
                    ctx.fail("c04:gfortran-result:%s:%s" % (lib, name), "result of %s: prototype `%s`, gfortran's view `%s`" % (name, real["text"], g["text"]), rp)
    stats["gfortran_skipped"] += len(pending)
    # struct layout: sizeof/offsetof of generated C structs equal gfortran's storage layout (c_sizeof)
    alltypes = {}
    for fn, (ifaces, types, params) in modules.items():
        alltypes.update(types)
    cnames = {k.lower(): k for k in structs}
    pairs = []
    for tname, t in alltypes.items():
        if t["bindc"] and not t["error"]:
            for c in sorted(cnames, key=lambda x: (x.startswith("s_"), x)):
                if (c == tname or c.endswith("_" + tname)) and not c.startswith("s_"):
                    pairs.append((cnames[c], tname))
                    break
    hdrs = [fn for fn in sorted(os.listdir(d)) if fn.endswith(HDR_EXT) and not fn.startswith(("py", "lua"))]
    if pairs and hdrs and done:
        fsrc = ["program p", "use iso_c_binding"]
        mods = []
        for fn in sorted(done):
            m = re.search(r"^\s*module\s+(\w+)", open(os.path.join(d, fn)).read(), re.M | re.I)
            if m:
                mods.append(m.group(1))
        for m in mods:
            fsrc.append("use %s" % m)
        for i, (cn, tn) in enumerate(pairs):
            fsrc.append("type(%s), target :: v%d" % (tn, i))
        for i, (cn, tn) in enumerate(pairs):
            fsrc.append("print '(a,1x,i0)', '%s', c_sizeof(v%d)" % (cn, i))
            cfl, ffl = structs.get(cn), alltypes[tn]["fields"]
            if isinstance(cfl, list) and len(cfl) == len(ffl):
                for cf, (fnm, _fc) in zip(cfl, ffl):
                    if cf.get("name"):
                        fsrc.append("print '(a,1x,i0)', '%s.%s', transfer(c_loc(v%d%%%s), 0_c_intptr_t) - transfer(c_loc(v%d), 0_c_intptr_t)" % (
                            cn, cf["name"], i, fnm, i))
        fsrc.append("end program p")
        open(os.path.join(d, "c04size.f90"), "w").write("\n".join(fsrc) + "\n")
        cmd = ["gfortran", "-ffree-form", "-ffree-line-length-none", "-cpp", "-c"]
        okc = True
        for fn in [f for f in order if f in done]:
            src = ("c04red_" + os.path.splitext(fn)[0] + ".F90") if fn in reduced_ok else fn
            p = subprocess.run(cmd + ["-fsyntax-only", src], cwd=d, stdout=subprocess.PIPE, stderr=subprocess.PIPE, text=True, timeout=300)
            okc = okc and p.returncode == 0
        if okc:
            # only the .mod files are needed (types); the module objects reference the C wrappers
            p = subprocess.run(["gfortran", "-o", "c04size", "c04size.f90"],
                               cwd=d, stdout=subprocess.PIPE, stderr=subprocess.PIPE, text=True, timeout=300)
            if p.returncode == 0:
                fo = subprocess.run(["./c04size"], cwd=d, stdout=subprocess.PIPE, text=True, timeout=60).stdout
                fsizes = dict(l.split() for l in fo.strip().split("\n") if l.strip())
                csrc = ["#include <stddef.h>", "#include <stdint.h>", "#include <stdbool.h>"]
                usable = []
                for h in hdrs:
                    t = open(os.path.join(d, h)).read()
                    if "ISO_Fortran_binding" in t or re.search(r'#include\s+"(?!types|wrap)', t):
                        continue
                    usable.append(h)
                for h in usable:
                    csrc.append('#include "%s"' % h)
                n = 0
                for cn, tn in pairs:
                    if cn in fsizes:
                        csrc.append("_Static_assert(sizeof(%s) == %s, \"sizeof %s\");" % (cn, fsizes[cn], cn))
                        n += 1
                    for key, val in fsizes.items():
                        if key.startswith(cn + "."):
                            csrc.append("_Static_assert(offsetof(%s, %s) == %s, \"sizeof %s\");" % (cn, key.split(".", 1)[1], val, key))
                            n += 1
                open(os.path.join(d, "c04size.c"), "w").write("\n".join(csrc) + "\n")
                p = subprocess.run(["gcc", "-std=c11", "-fsyntax-only", "c04size.c"], cwd=d, stdout=subprocess.PIPE, stderr=subprocess.PIPE, text=True, timeout=120)
                if p.returncode == 0:
                    stats["static_asserts"] += n
                else:
                    m = re.search(r"static assertion failed: \"sizeof ([\w.]+)\"", p.stderr)
                    if m:
                        ctx.fail("c04:sizeof:%s:%s" % (lib, m.group(1)), "sizeof/offsetof of %s in C differs from the layout gfortran gives "
                                 "the Fortran derived type" % m.group(1), dict(replay, struct=m.group(1)))
                    else:
                        stats["static_assert_skipped"] += 1


def reduce_module(text):
    """Keep the specification part of a generated module that matters for interoperability (use statements, derived
    types without their type-bound part, interface bodies); drop the module procedures (`contains` part) and the generic
    interfaces that name them.  Used only when gfortran cannot compile the whole module because of a wrapper body."""
    out, lines = [], text.split("\n")
    i, n = 0, len(lines)
    in_type = False
    while i < n:
        ln = lines[i]
        low = ln.strip().lower()
        if in_type:
            if low == "contains":
                while i < n and not re.match(r"^end\s*type\b", lines[i].strip().lower()):
                    i += 1
                continue
            if re.match(r"^end\s*type\b", low):
                in_type = False
            out.append(ln)
            i += 1
            continue
        if re.match(r"^type\b(?!\s*\()", low):
            in_type = True
            out.append(ln)
            i += 1
            continue
        if low == "contains":
            while i < n and not re.match(r"^end\s*module\b", lines[i].strip().lower()):
                i += 1
            continue
        if re.match(r"^interface\s+\S", low):
            j = i
            while j < n and not re.match(r"^end\s*interface\b", lines[j].strip().lower()):
                j += 1
            block = lines[i:j + 1]
            if any("module procedure" in b.lower() for b in block):
                i = j + 1
                continue
            out.extend(block)
            i = j + 1
            continue
        if re.match(r"^(public|private)\s*::", low) and "operator" in low:
            i += 1
            continue
        out.append(ln)
        i += 1
    return "\n".join(out)


def c_same(a, b, structs, gstructs, ret=False):
    """real C parameter vs gfortran's C view of the dummy."""
    if a is None or b is None:
        return (a is None or (a["base"][0] == "void" and a["ptr"] == 0)) and (b is None or (b["base"][0] == "void" and b["ptr"] == 0))
    pa = a["ptr"] + (1 if a.get("array") else 0)
    pb = b["ptr"] + (1 if b.get("array") else 0)
    ba, bb = a["base"], b["base"]
    if ba[0] == "funptr" or bb[0] == "funptr":
        return True
    if ba[0] == "cdesc" or bb[0] == "cdesc":
        # gfortran 12 prints assumed-length character and assumed-rank dummies as plain `T *` in -fc-prototypes
        # although it passes a descriptor (F2018 18.3.6); that view is not usable for such dummies (the Python
        # table of the oracle covers them)
        return ba[0] == bb[0] or (ba[0] == "cdesc" and pa == 1 and pb == 1)
    if pa != pb:
        # type(C_PTR) without value is void ** for gfortran; a T ** prototype is the same address
        return pa >= 1 and pb >= 1 and (ba[0] == "void" or bb[0] == "void") and (pa >= 2) == (pb >= 2) or \
            (bb[0] == "void" and pb == 1 and pa >= 1 and not ret) or (ret and pa >= 1 and pb >= 1)
    if pa >= 1 and (ba[0] == "void" or bb[0] == "void"):
        return True
    if ba[0] == "struct" or bb[0] == "struct":
        if ba[0] != bb[0]:
            return ba[0] == "struct" and ba[1] not in structs    # unresolved typedef
        ca, cb_ = structs.get(ba[1]), gstructs.get(bb[1].lower())
        if ca is None or cb_ is None or isinstance(ca, dict) or isinstance(cb_, dict):
            return True
        if len(ca) != len(cb_):
            return False
        return all(c_same(x, y, structs, gstructs) and (ip._extent(x["array"]) if x.get("array") else 0) == (ip._extent(y["array"]) if y.get("array") else 0)
                   and ((ip.dims_list(x["array"]) if x.get("array") else []) == (ip.dims_list(y["array"]) if y.get("array") else [])
                        or len(y.get("array") or []) <= 1)
                   for x, y in zip(ca, cb_))
    return ba == bb


def validate_lp64(ctx):
    """The LP64 tables of tools/interop_parse.py against gcc sizeof and gfortran c_sizeof."""
    d = common.scratch()
    try:
        names = [k for k, v in ip.C_TYPES.items() if v[0] in ("int", "float", "complex", "bool", "char") and k not in ("MPI_Fint", "ssize_t")]
        src = ["#include <stddef.h>", "#include <stdint.h>", "#include <stdbool.h>", "#include <complex.h>"]
        for k in names:
            src.append("_Static_assert(sizeof(%s) == %d, \"%s\");" % (k, ip.C_TYPES[k][1], k))
        open(os.path.join(d, "t.c"), "w").write("\n".join(src) + "\n")
        p = subprocess.run(["gcc", "-std=c11", "-fsyntax-only", "t.c"], cwd=d, stdout=subprocess.PIPE, stderr=subprocess.PIPE, text=True)
        if p.returncode != 0:
            ctx.tie_broken("lp64-table-c", p.stderr[-1500:])
        fs = ["program p", "use iso_c_binding", "implicit none"]
        decl = {"int": "integer", "float": "real", "complex": "complex", "bool": "logical", "char": "character"}
        for i, (k, (cls, n)) in enumerate(sorted(ip.F_KINDS.items())):
            if k == "C_INTMAX_T":
                continue
            fs.append("%s(kind=%s) :: v%d" % (decl[cls], k, i))
        fs += ["logical :: dl", "integer :: di"]
        for i, (k, (cls, n)) in enumerate(sorted(ip.F_KINDS.items())):
            if k == "C_INTMAX_T":
                continue
            fs.append("if (storage_size(v%d)/8 /= %d) print *, 'BAD %s', storage_size(v%d)/8" % (i, n, k, i))
        fs.append("if (storage_size(dl)/8 /= %d) print *, 'BAD default logical'" % ip.F_DEFAULT["logical"][1])
        fs.append("if (storage_size(di)/8 /= %d) print *, 'BAD default integer'" % ip.F_DEFAULT["integer"][1])
        fs += ["print *, 'DONE'", "end program p"]
        open(os.path.join(d, "t.f90"), "w").write("\n".join(fs) + "\n")
        p = subprocess.run(["gfortran", "-o", "t", "t.f90"], cwd=d, stdout=subprocess.PIPE, stderr=subprocess.PIPE, text=True)
        out = subprocess.run(["./t"], cwd=d, stdout=subprocess.PIPE, text=True).stdout if p.returncode == 0 else p.stderr
        if "DONE" not in out or "BAD" in out:
            ctx.tie_broken("lp64-table-fortran", out[-1500:])
        ctx.note("lp64_validated", {"c_types": len(names), "f_kinds": len(ip.F_KINDS)})
    finally:
        common.rmtree(d)


# ================================================================== inputs
def extra_decls(r, language, k):
    """Declarations aimed at the interface builders (beyond tools/gen/libgen.py)."""
    scal = ["int", "long", "double", "float", "size_t", "short", "unsigned int", "long long", "int8_t", "int32_t", "uint64_t", "bool"]
    if language == "c":
        scal += ["float complex", "double complex"]
    d = []
    t = lambda: r.choice(scal)
    nm = lambda s: "c04%s%d" % (s, k)
    d.append({"decl": "void %s(%s a, %s *b +intent(out), const %s *c +rank(1), int n +implied(size(c)))" % (nm("a"), t(), t(), t())})
    d.append({"decl": "%s %s(%s v[%d], %s m[2][3])" % (t(), nm("b"), t(), r.randrange(2, 9), t())})
    d.append({"decl": "void %s(void *p, void **q +intent(out), char name[%d])" % (nm("c"), r.randrange(2, 30))})
    d.append({"decl": "int %s(%s **pp +intent(in), char **names +intent(in))" % (nm("d"), r.choice(["int", "double"]))})
    d.append({"decl": "void %s(const char *s, char *o +intent(out)+charlen(20), char c)" % nm("e")})
    d.append({"decl": "void %s(void (*cb)(int i, double x), %s *w +intent(inout)+dimension(n), int n)" % (nm("f"), t())})
    d.append({"decl": "void %s(void *addr +assumedtype, int *out +intent(out)+deref(pointer)+dimension(3))" % nm("g")}
             if language != "c" else {"decl": "void %s(void *addr +assumedtype, size_t n)" % nm("g")})
    d.append({"decl": "const char *%s(int i)" % nm("h")})
    d.append({"decl": "%s *%s(int *n +intent(out)) +dimension(n)" % (r.choice(["int", "double"]), nm("i"))})
    d.append({"decl": "void %s(%s *arr +cdesc+rank(1), %s *arr2 +intent(out)+cdesc+rank(2))" % (nm("j"), r.choice(["int", "double"]), r.choice(["int", "float"]))})
    if language != "c":
        d.append({"decl": "void %s(const std::string & s, std::string & o +intent(out), std::string * io)" % nm("k")})
        d.append({"decl": "const std::string & %s(void) +deref(allocatable)" % nm("l")})
        d.append({"decl": "void %s(const std::vector<%s> & v, std::vector<int> & o +intent(out), std::vector<double> & io)" % (nm("m"), r.choice(["int", "double", "long"]))})
        d.append({"decl": "std::vector<int> %s(int n)" % nm("n")})
        d.append({"decl": "class C04cls%d" % k, "declarations": [
            {"decl": "C04cls%d()" % k}, {"decl": "~C04cls%d()" % k},
            {"decl": "int meth(%s a, const std::string & s)" % t()},
            {"decl": "C04cls%d * self2()" % k}, {"decl": "static %s smeth(%s *x +intent(inout))" % (t(), t())},
            {"decl": "void take(C04cls%d & o, const C04cls%d * p)" % (k, k)}]})
    # more than one level of indirection, every intent, plain and bufferified wrappers (dimension -> *_bufferify)
    t2 = lambda: r.choice(["int", "double", "long", "float"])
    d.append({"decl": "void %s(%s **a +intent(in), %s **b +intent(out), %s **c +intent(inout))" % (nm("q"), t2(), t2(), t2())})
    d.append({"decl": "void %s(const %s *tab[%d], %s m[%d][%d])" % (nm("r"), t2(), r.randrange(2, 6), t2(), r.randrange(2, 4), r.randrange(2, 4))})
    d.append({"decl": "void %s(const %s * const *cc +intent(in), int n)" % (nm("s"), t2())})
    d.append({"decl": "void %s(%s **pp +intent(out)+dimension(n), int *n +intent(out))" % (nm("t"), t2())})
    if language != "c":
        d.append({"decl": "void %s(%s *&cur +intent(inout), %s *&cin +intent(in), int n)" % (nm("u"), t2(), t2())})
        d.append({"decl": "void %s(%s *&arr +intent(out)+dimension(n), int n)" % (nm("v"), t2())})
        d.append({"decl": "void %s(const %s *&arr +intent(out)+dimension(n), int n, void *&v +intent(out))" % (nm("w"), t2())})
    # callbacks: parameter lists and results of the function-pointer type
    d.append({"decl": "int %s(%s (*cb)(int i, %s *x, const char *s, void *p), int n)" % (nm("x"), t2(), t2())})
    d.append({"decl": "void %s(void (*cb2)(%s **pp, char c, bool b), %s *(*cb3)(size_t n))" % (nm("y"), t2(), t2())})
    d.append({"decl": "void %s(void *(*cb4)(%s v[4], long), int (*cb5)(void))" % (nm("z"), t2())})
    d.append({"decl": "void %s(C04pt%d *p, C04pt%d v)" % (nm("o"), k, k)})
    d.append({"decl": "C04pt%d %s(int i)" % (k, nm("p"))})
    r.shuffle(d)
    # the struct must be declared before its first use
    members = ["bool flag;", "char tag;", "char name[%d];" % r.randrange(2, 30), "%s grid[%d][%d];" % (t2(), r.randrange(2, 4), r.randrange(2, 5)),
               "%s *p;" % t2(), "const %s *q;" % t2(), "%s *tab[%d];" % (t2(), r.randrange(2, 5)), "C04in%d inner;" % k, "C04in%d *pin;" % k,
               "%s i8;" % r.choice(["int8_t", "int16_t", "uint32_t", "int64_t"]), "size_t n;", "%s v[%d];" % (t2(), r.randrange(2, 6)),
               "long long ll;", "unsigned short us;",
               "%s *ptab[%d][%d];" % (t2(), 2, r.randrange(3, 6)), "%s cube[%d][%d][%d];" % (t2(), 2, 3, r.randrange(4, 6)),
               "const %s *pcube[%d][%d][%d];" % (t2(), r.randrange(4, 6), 2, 3)]
    r.shuffle(members)
    members = members[: r.randrange(4, len(members) + 1)]
    return [{"decl": "struct C04in%d { %s a; double b; };" % (k, r.choice(["int", "short", "char"]))},
            {"decl": "struct C04pt%d { int a; double b; %s c; };" % (k, r.choice(["long", "float", "short"]))},
            {"decl": "struct C04big%d { %s };" % (k, " ".join(members))},
            {"decl": "void c04usebig%d(C04big%d *s +intent(inout))" % (k, k)}] + d


def gen_libraries(r, n):
    libs = []
    for i in range(n):
        language = "c" if i % 3 == 1 else "c++"
        opts = {"wrap_python": False, "wrap_lua": False}
        if i % 4 == 2:
            opts["F_CFI"] = True
        base = libgen.gen_lib(r, name="c04lib%d" % i, language=language, options=dict(opts))
        base.options.update(opts)
        base.options["wrap_fortran"] = True
        base.options["wrap_c"] = True
        ex = extra_decls(r, language, i)
        base.decls = list(base.decls) + ex[: r.randrange(max(7, len(ex) - 5), len(ex) + 1)]
        # user-overridden name fields: every helper / wrapper name on the Fortran side must follow the C side
        # (half of the libraries; the declarations below pull in the capsule destructor, copy_string, copy_array)
        if i % 2 == 0:
            ov = {"C_prefix": "Zq%d_" % i, "C_memory_dtor_function": "lib%d_release_memory" % i,
                  "C_array_type": "Lib%dArr" % i, "F_array_type": "lib%d_farr" % i,
                  "C_capsule_data_type": "Lib%dCap" % i, "F_capsule_data_type": "lib%d_fcap" % i, "F_capsule_type": "lib%d_fcapsule" % i,
                  "C_bufferify_suffix": "_bfy", "C_cfi_suffix": "_cfy", "F_C_prefix": "cq_", "C_this": "me", "F_this": "this_obj",
                  "F_capsule_final_function": "lib%d_final" % i, "F_capsule_delete_function": "lib%d_delete" % i,
                  "C_string_result_as_arg": "sres", "F_result": "fres", "F_result_capsule": "fcres"}
            keys = sorted(ov)
            r.shuffle(keys)
            base.fmt = dict(base.fmt or {})
            for k in keys[: r.randrange(3, len(keys) + 1)]:
                base.fmt[k] = ov[k]
            base.fmt.setdefault("C_memory_dtor_function", ov["C_memory_dtor_function"])
        base.decls.append({"decl": "int *c04own%d(int *len +intent(out)+hidden) +deref(pointer)+dimension(len)+owner(caller)" % i})
        if language != "c":
            base.decls.append({"decl": "const std::string & c04nm%d() +deref(allocatable)" % i})
            base.decls.append({"decl": "void c04fill%d(std::vector<int> &v +intent(out))" % i})
        libs.append(("gen%d-%s%s" % (i, "c" if language == "c" else "cxx", "-cfi" if opts.get("F_CFI") else ""), base))
    return libs


def targeted_libraries(disagreements):
    """Library descriptions that reach the (sgroup, spointer, intent, deref, cdesc) combinations on which the two
    lookup paths disagree (translator finding) - the oracle then looks at what Shroud really emits for them."""
    types = {"native": "int", "bool": "bool", "char": "char", "string": "std::string", "void": "void",
             "vector": "std::vector<int>", "struct": "C04tpt", "shadow": "C04tcls"}
    seen, out = set(), {}
    for c in disagreements:
        key = (c["lang"], c["sgroup"], c["spointer"], c["intent"], c["deref"], c["cdesc"])
        if key in seen or c["sgroup"] not in types or c["spointer"] in ("[]", "*[]") or c["specialize"]:
            continue
        if c["lang"] == "c" and c["sgroup"] in ("string", "vector", "shadow"):
            continue
        if c["lang"] == "c" and "&" in c["spointer"]:
            continue
        seen.add(key)
        decl = "%s %s" % (types[c["sgroup"]], "" if c["spointer"] == "scalar" else c["spointer"])
        attrs = ""
        if c["spointer"] != "scalar":
            attrs += "+intent(%s)" % c["intent"]
        elif c["intent"] != "in":
            continue
        if c["deref"]:
            attrs += "+deref(%s)" % c["deref"]
            if c["deref"] in ("pointer", "allocatable") and c["sgroup"] == "native":
                attrs += "+dimension(3)"
        if c["cdesc"]:
            attrs += "+cdesc+rank(1)"
        for cfi in (False, True):
            lst = out.setdefault((c["lang"], cfi), [])
            if len(lst) < 40:
                lst.append({"decl": "void c04t%d(%sx %s)" % (len(lst), decl, attrs)})
    libs = []
    for (lang, cfi), decls in sorted(out.items()):
        pre = [{"decl": "struct C04tpt { int a; double b; };"}]
        if lang != "c":
            pre.append({"decl": "class C04tcls", "declarations": [{"decl": "C04tcls()"}]})
        for k, dcl in enumerate(decls):
            # one library per declaration: a combination Shroud rejects must not hide the others
            lib = libgen.Lib("c04t", lang, pre + [dcl], options={"wrap_python": False, "wrap_lua": False, "F_CFI": cfi})
            libs.append(("targeted-%s%s-%d" % ("c" if lang == "c" else "cxx", "-cfi" if cfi else "", k), lib))
    return libs[:120]


# ================================================================== run
def process(ctx, tag, yaml_path, options, language, wv, replay, stats, drv_lines, drv_meta, thorough, user_dirs=()):
    res = run_library(ctx, tag, yaml_path, options, language, wv, replay)
    if res["exc"] is not None:
        stats["rejected"].append("%s: %r" % (tag, res["exc"]))
        if tag.startswith("targeted") and res.get("wrapping_started"):
            # the two lookup paths disagree for this argument (translator) and Shroud cannot even finish the interface
            ctx.fail("c04:lookup-paths:%s" % re.sub(r"\s+", " ", replay["yaml"].split("- decl:")[-1].split("\n")[0]).strip(),
                     "the C wrapper and the Fortran interface look up different statement entries for this argument and "
                     "generation fails after the C wrapper was built: %r" % (res["exc"],), replay)
        return
    res["user_dirs"] = user_dirs
    try:
        res["yaml_text"] = open(yaml_path).read()
    except OSError:
        res["yaml_text"] = ""
    try:
        res["language_cxx"] = bool(glob.glob(os.path.join(res["outdir"], "*.cpp")) or glob.glob(os.path.join(res["outdir"], "*.cc")))
        tie_library(ctx, res, replay, drv_lines, drv_meta)
        tie_structs(ctx, res, replay, drv_lines, drv_meta)
        tie_results(ctx, res, replay, drv_lines, drv_meta)
        tie_callbacks(ctx, res, replay, drv_lines, drv_meta)
        oracle_library(ctx, res, replay, stats)
        if thorough:
            compiler_checks(ctx, res, replay, stats)
        stats["libraries"] += 1
    finally:
        common.rmtree(res["outdir"])
        res["rec"] = None


def corpus_lines():
    path = os.path.join(common.CORPUS, "c04.txt")
    out = []
    if os.path.exists(path):
        for ln in open(path):
            ln = ln.rstrip("\n")
            if ln.strip() and not ln.startswith("#"):
                out.append(ln)
    return out


def run(ctx):
    thorough = ctx.tier == "thorough"
    r = common.rng("c04")
    disagreements = []
    from tools import extract_interop
    try:
        info = extract_interop.regenerate()
        ctx.note("translator", info)
        disagreements = info.pop("disagreements", [])
        info.pop("probe_yaml", None)
        if disagreements:
            ctx.note("lookup_disagreements", disagreements[:5])
    except (extract_interop.TranslatorError, ip.ParseError) as e:
        ctx.tie_broken("translator", "tools/extract_interop.py cannot translate the working tree: %s" % e)
    ok = ctx.lean(MODULES, THEOREMS, extra_targets=("drv_interop",))
    ctx.cov["trusted_base"] = [
        "Lean 4.33.0 kernel; axioms within {propext, Classical.choice, Quot.sound}",
        "tools/interop_parse.py: LP64 size tables (validated against gcc sizeof / gfortran storage_size in the thorough tier), "
        "parsers for generated C prototypes, definitions, structs, function-pointer types and Fortran interface bodies / derived types, "
        "Python statement of the 18.3 table",
        "tools/extract_interop.py: classification of c_arg_decl / f_arg_decl / f_result_decl templates, helper struct and type texts, "
        "interface signature of an entry",
        "hand-written models Model/Interop.lean of build_proto_list / build_arg_list_interface / wrap_struct / the result-type "
        "choice of wrap_function and wrap_function_interface / dump_abstract_interfaces (all validated per call on corpus + "
        "generated libraries)",
        "gcc 12 / gfortran 12 (thorough tier cross-checks)",
    ]
    ctx.cov["rule"] = ("tie: one evaluation per wrapped function for the arguments (model protoList/ifaceList vs the declarations the two "
                       "builders appended; same (argument, buf_args, entry) sequence on both sides), one for its result (resultC/resultF vs "
                       "C_return_type and the emitted result declaration), one per wrapped struct (structC/structF vs the emitted struct / "
                       "derived type), one per callback (cbProto/cbIface/cbResF vs the function-pointer type and the abstract interface); oracle: one per bind(C) interface body, callback pair, struct pair and type-code "
                       "name, thorough also one per prototype seen by gfortran -fc-prototypes; non-trivial = distinct (buf_arg kind, "
                       "statement entry) reached, distinct (C class, pointer depth, Fortran class, value, shape) pairs, struct sizes, "
                       "callback positions")
    ctx.assumptions += [
        "interoperability is decided under LP64 (gcc/gfortran x86-64); signedness is not distinguished",
        "a user-written +value on a pointer argument and a user-overridden C_prototype / F_C_arguments are outside the admitted inputs",
        "C functions of the wrapped library that are bound directly (language c) are taken to have the signature written in the YAML "
        "decl; typedefs and structs declared in the YAML are taken as declared there",
        "not modelled in Lean (oracle only): function-pointer members of structs, abstract interfaces nested inside callbacks, "
        "user-overridden C_prototype / F_C_arguments; F_auto_reference_count libraries are rejected by Shroud and not explored",
        "names: the all-environments theorem is about the 26 name fields of extract_interop.NAME_FIELDS and the declarations of the probe "
        "library; other fields / other helper users are explored by the generated libraries only",
        "a scalar char result with a deref attribute is rejected by Shroud (exception in result_as_arg_paths_agree)",
        "types defined only in another library (forward.yaml: tutorial / struct types, example.yaml: SIDRE_SidreLength) are not "
        "resolved; they are listed under notes.oracle.unresolved_names",
    ]
    stats = {"libraries": 0, "interfaces": 0, "pairs": 0, "unresolved": 0, "unresolved_names": set(), "abstract": 0,
             "struct_pairs": 0, "defines": 0, "rejected": [], "by_source": {}, "gfortran_modules": 0, "gfortran_protos": 0,
             "gfortran_skipped": 0, "static_asserts": 0, "static_assert_skipped": 0}
    drv_lines, drv_meta = [], []
    work = common.scratch()
    try:
        # ---- corpus of past failures first
        for k, ln in enumerate(corpus_lines()):
            try:
                obj = json.loads(ln)
            except ValueError:
                continue
            y = shroudrun.write_yaml(work, "corpus%d.yaml" % k, obj["yaml"])
            process(ctx, "corpus%d" % k, y, obj.get("options", []), obj.get("language"), False,
                    {"yaml": obj["yaml"], "options": obj.get("options", [])}, stats, drv_lines, drv_meta, thorough)
        # ---- upstream corpus
        # the whole upstream corpus in both tiers (a Shroud run costs ~0.1 s); the tiers differ in the number of
        # generated libraries and in the compiler cross-checks
        names = [n for n, _y, _e in shroudrun.CORPUS]
        for n, y, extra in shroudrun.CORPUS:
            if n not in names:
                continue
            opts, lang, wv = shroudrun.parse_cmdline(extra)
            opts = ["debug_testsuite=true"] + opts
            ud = [os.path.join(common.REPO, "regression", "run", y)]
            process(ctx, n, shroudrun.corpus_yaml(y), opts, lang, wv, {"corpus": n}, stats, drv_lines, drv_meta, thorough, ud)
        # ---- generated libraries
        for tag, lib in gen_libraries(r, 24 if thorough else 8):
            text = lib.yaml()
            y = shroudrun.write_yaml(work, tag + ".yaml", text)
            process(ctx, tag, y, [], None, False, {"yaml": text}, stats, drv_lines, drv_meta, thorough)
        # ---- the translator's probe library (all name fields overridden, every helper pair pulled in)
        text = extract_interop.probe_yaml()
        y = shroudrun.write_yaml(work, "probe.yaml", text)
        for cfi in ("false", "true"):
            process(ctx, "probe-names-cfi-%s" % cfi, y, ["F_CFI=%s" % cfi], None, False,
                    {"yaml": text, "options": ["F_CFI=%s" % cfi]}, stats, drv_lines, drv_meta, thorough)
        # ---- inputs aimed at lookup-path disagreements found by the translator
        for tag, lib in targeted_libraries(disagreements):
            text = lib.yaml()
            y = shroudrun.write_yaml(work, tag + ".yaml", text)
            process(ctx, tag, y, [], None, False, {"yaml": text}, stats, drv_lines, drv_meta, thorough)
        # ---- model side
        if ok and common.Driver("drv_interop").available():
            out = common.Driver("drv_interop").run(drv_lines)
            notok = []
            bad = tie_compare(ctx, drv_lines, drv_meta, out, notok)
            ctx.note("tie_functions", len(drv_lines))
            ctx.note("tie_kinds", {k: sum(1 for m in drv_meta if m.get("kind", "function") == k)
                                   for k in ("function", "struct", "result", "callback")})
            # functions whose arguments / result do not satisfy the hypotheses itemOK / resultOK of the theorems (the
            # theorems say nothing about them; the oracle decides)
            ctx.note("side_condition_false", [x["function"] + " @" + x["lib"] for x in notok][:10])
            if bad:
                ctx.tie_broken("proto/iface model correspondence", bad[:6])
        else:
            ctx.note("tie_functions", 0)
        if thorough:
            validate_lp64(ctx)
    finally:
        common.rmtree(work)
    stats["unresolved_names"] = sorted(stats["unresolved_names"])[:60]
    ctx.note("oracle", stats)
    for s in stats["rejected"][:3]:
        ctx.sample({"rejected": s})
    ctx.sample({"interfaces": stats["interfaces"], "pairs": stats["pairs"], "libraries": stats["libraries"]})


def replay(path):
    d = json.load(open(path))
    for f in d.get("failing", []):
        print(f["key"], "|", f["what"])
        print(json.dumps(f["replay"], indent=1)[:3000])
    for b in d.get("no_longer_checks", []):
        print(b["kind"], b["name"], str(b["detail"])[:3000])
    return 0
