"""C09: NAME LOOKUP of type names through nested scopes (library / namespace / class / block / function nodes).

(i) tie: the Lean scope-chain lookup (Model/NameLookup.lean, driver ops `scope` and `sparse`) against the real
    `unqualified_lookup` and against `check_decl(text, namespace=<scope>)` on generated scope trees in which the
    same type names are declared at several depths (and using-directives, through the API);
(ii) oracle, implementation and g++ only: the C++ text of the same tree is compiled; inside every scope
    `static_assert(is_same<N, ::T>)` for the type T Shroud resolves the clashing name N to, and the same for the
    parameter types of declarations parsed inside the scope (rendering of the parsed parameter)."""
import os
import re
import subprocess

from tools import common
from tools.props import decl_common as dc

NAMES = ["Color", "Id", "Cls", "Only"]
UNDER = ["int", "long", "double", "float", "short", "char", "unsigned int", "long long", "unsigned long", "unsigned short",
         "unsigned long long", "bool"]
SLOTS = ["", "na", "na::Pen", "na::ni", "na::ni::Box", "nb"]     # where a name may be declared ("" = library)
SKELETON = {"": "library", "na": "namespace", "na::Pen": "class", "na::ni": "namespace", "na::ni::Box": "class",
            "nb": "namespace"}
# (declaration, [(which part, its type as written)]): part = parameter index or "self" (the declared object / result)
DECL_SHAPES = [("void f ( {N} c )", [(0, "{N}")]), ("{N} g ( )", [("result", "{N}")]),
               ("void h ( const {N} * p , {N} & r )", [(0, "const {N} *"), (1, "{N} &")]), ("{N} * v", [("self", "{N} *")])]


def make_tree(placement, usings=None, nested_class=False):
    """placement: {slot: [(name, kind, k)]} -> tree spec (JSON-able).  kind in enum/typedef/class."""
    def parent_of(c):
        return c.rsplit("::", 1)[0] if "::" in c else ""

    def members(slot):
        out = []
        for name, kind, k in placement.get(slot, []):
            d = {"t": kind, "name": name}
            if kind == "typedef":
                d["under"] = UNDER[k % len(UNDER)]
            if kind == "enum":
                d["tag"] = "E%d" % k
            out.append(d)
        for child, ck in SKELETON.items():
            if child and parent_of(child) == slot:
                d = {"t": ck, "name": child.rsplit("::", 1)[-1], "decls": members(child)}
                if usings and child in usings:
                    d["using"] = usings[child]
                out.append(d)
        if nested_class and slot == "na::Pen":
            out.append({"t": "class", "name": "Nib", "decls": [{"t": "enum", "name": "Color", "tag": "E99"}]})
        return out
    return {"t": "library", "decls": members(""), "using": (usings or {}).get("", [])}


def trees(r, n_random):
    """systematic: the name Color declared in every subset of the six slots (kind by slot); random: several names,
    random kinds, using-directives"""
    out = []
    kinds = ["enum", "typedef", "class"]
    for mask in range(1, 64):
        pl = {}
        for i, slot in enumerate(SLOTS):
            if mask >> i & 1:
                pl.setdefault(slot, []).append(("Color", kinds[(i + mask) % 3], i))
        out.append(("subset:%d" % mask, make_tree(pl)))
    for j in range(n_random):
        pl, k = {}, 0
        for name in NAMES:
            for slot in SLOTS:
                if r.random() < 0.45:
                    k += 1
                    pl.setdefault(slot, []).append((name, r.choice(kinds), k))
        us = {}
        if j % 2:
            for slot, cands in (("na", ["nb"]), ("nb", ["na"]), ("na::ni", ["nb"]), ("", ["na", "nb"])):
                if r.random() < 0.5:
                    us[slot] = [r.choice(cands)]
            if us.get("na") and us.get("nb"):
                del us["nb"]           # no cycle of using-directives (the code recurses without end on one)
        out.append(("random:%d" % j, make_tree(pl, us, nested_class=(j % 5 == 0))))
    return out


def build(spec):
    """-> (library, [(path, node, kind)]) built through the real API; None when the code rejects the tree"""
    import contextlib
    import io
    from shroud import ast, typemap
    typemap.initialize()
    lib = ast.LibraryNode(library="scopes")
    scopes = [("", lib, "library")]

    def fill(node, decls, path):
        pending = []
        for d in decls:
            t, name = d["t"], d["name"]
            if t == "enum":
                node.add_declaration("enum %s { %s_A, %s_B }" % (name, d["tag"], d["tag"]))
            elif t == "typedef":
                node.add_declaration("typedef %s %s" % (d["under"], name))
            elif t in ("class", "namespace"):
                child = node.add_declaration("%s %s" % (t, name))
                p = (path + "::" + name) if path else name
                scopes.append((p, child, t))
                fill(child, d.get("decls", []), p)
                if d.get("using"):
                    pending.append((child, d["using"]))
                if t == "class":
                    fn = child.add_declaration("void m_%s()" % name)
                    scopes.append((p + "::<function>", fn, "function"))
                    scopes.append((p + "::<block>", ast.BlockNode(child), "block"))
        for child, us in pending:
            for u in us:
                try:
                    child.using_directive(u)
                except RuntimeError:
                    pass

    with contextlib.redirect_stdout(io.StringIO()):
        fill(lib, spec["decls"], "")
        for u in spec.get("using", []):
            try:
                lib.using_directive(u)
            except RuntimeError:
                pass
    return lib, scopes


def nested_classes(scopes):
    """classes declared inside a class: (C++ path, the typemap name Shroud gives them)"""
    from shroud import ast
    return [(p, getattr(n.typemap, "name", "?")) for p, n, k in scopes
            if k == "class" and isinstance(n.parent, ast.ClassNode)]


def enc_sym(v, depth=0):
    from shroud import ast
    if isinstance(v, ast.NamespaceNode):
        if depth > 6:
            return ["N", "0"]
        items = ["N", str(len(v.symbols))]
        for k, x in v.symbols.items():
            items.append(common.enc(k))
            items += enc_sym(x, depth + 1)
        return items
    tm = getattr(v, "typemap", None)
    name = getattr(tm, "name", None)
    return ["T", common.enc(name if isinstance(name, str) else "?")]


def enc_chain(node, depth=0):
    from shroud import ast
    if node is None or depth > 12:
        return ["Z"]
    if isinstance(node, ast.LibraryNode):
        kind, parent = "L", None
    elif isinstance(node, ast.NamespaceNode):
        kind, parent = "S", node.parent
    elif isinstance(node, ast.ClassNode):
        kind, parent = "K", node.parent
    else:
        kind, parent = "D", node.parent
    syms = {} if kind == "D" else node.symbols
    items = ["C", kind, str(len(syms))]
    for k, x in syms.items():
        items.append(common.enc(k))
        items += enc_sym(x)
    us = list(getattr(node, "using", [])) if kind in ("L", "S") else []
    items.append(str(len(us)))
    for u in us:
        items += enc_chain(u, depth + 1)
    items += enc_chain(parent, depth + 1)
    return items


def real_lookup(node, name):
    from shroud import ast
    try:
        v = node.unqualified_lookup(name)
    except dc.INTERNAL as e:
        return "crash " + type(e).__name__
    except Exception as e:  # noqa
        return "raise " + type(e).__name__
    if v is None:
        return "none"
    if isinstance(v, ast.NamespaceNode):
        return "N"
    tm = getattr(getattr(v, "typemap", None), "name", None)
    return "T " + common.enc(tm if isinstance(tm, str) else "?")


def cxx_text(spec, asserts):
    """the C++ text of the tree; asserts: {scope path: [line, ...]} placed at the end of that scope"""
    lines = []

    def emit(decls, path):
        # C++ needs a name declared before its use: member types and forward declarations of the classes of a scope
        # first, then the class bodies (with the assertions), then the namespaces
        order = {"enum": 0, "typedef": 0, "class": 1, "namespace": 2}
        for d in decls:
            if d["t"] == "class":
                lines.append("class %s;" % d["name"])
        for d in sorted(decls, key=lambda d: order[d["t"]]):
            t, name = d["t"], d["name"]
            if t == "enum":
                lines.append("enum %s { %s_A, %s_B };" % (name, d["tag"], d["tag"]))
            elif t == "typedef":
                lines.append("typedef %s %s;" % (d["under"], name))
            elif t == "class":
                p = (path + "::" + name) if path else name
                lines.append("class %s { public:" % name)
                emit(d.get("decls", []), p)
                lines.extend(asserts.get(p, []))
                lines.append("};")
            elif t == "namespace":
                p = (path + "::" + name) if path else name
                lines.append("namespace %s {" % name)
                emit(d.get("decls", []), p)
                lines.extend(asserts.get(p, []))
                lines.append("}")
    emit(spec["decls"], "")
    lines.extend(asserts.get("", []))
    return lines


def has_using(spec):
    if spec.get("using"):
        return True
    return any(has_using(d) for d in spec.get("decls", []) if isinstance(d, dict) and "decls" in d)


def run_scope(ctx, ok, thorough):
    import contextlib
    import io
    declast, todict = dc.mods()
    drv = common.Driver("drv_decl")
    r = common.rng("c09-scope")
    reqs, impl, labels = [], [], []
    stat = {"trees": 0, "scopes": 0, "lookups": 0, "hiding_lookups": 0, "declarations": 0, "gxx_asserts": 0, "gxx_failures": 0,
            "gxx_ambiguous_skipped": 0, "disagreements": 0, "rejected_trees": 0}
    for label, spec in trees(r, 120 if thorough else 30):
        try:
            lib, scopes = build(spec)
        except (RuntimeError, SystemExit) as e:
            stat["rejected_trees"] += 1
            continue
        except Exception as e:  # noqa
            ctx.fail("scope:internal:" + type(e).__name__, "building the scope tree %s raises %s: %s" % (
                label, type(e).__name__, " ".join(str(e).split())[:120]), {"kind": "scope", "tree": spec})
            continue
        stat["trees"] += 1
        asserts, where = {}, {}
        names = NAMES + ["Pen", "Box", "na", "nb", "ni", "Nope", "size_t", "string"]
        for path, node, kind in scopes:
            stat["scopes"] += 1
            chain = enc_chain(node)
            res = [real_lookup(node, n) for n in names]
            reqs.append("scope %d %s %s" % (len(names), " ".join(common.enc(n) for n in names), " ".join(chain)))
            impl.append(" | ".join(res))
            labels.append("%s: lookups from scope %r" % (label, path or "<library>"))
            stat["lookups"] += len(names)
            ctx.count(len(names))
            cxx_scope = path.split("::<")[0]
            for n, got in zip(names, res):
                if n not in NAMES or not got.startswith("T "):
                    continue
                tm = common.dec(got[2:])
                declared_outer = sum(1 for p2, n2, k2 in scopes if k2 in ("library", "namespace", "class") and n in n2.symbols
                                     and (cxx_scope == p2 or cxx_scope.startswith(p2 + "::") or p2 == ""))
                if declared_outer > 1:
                    stat["hiding_lookups"] += 1
                if kind in ("function", "block"):
                    continue
                aid = "A%d" % len(where)
                asserts.setdefault(cxx_scope, []).append(
                    "static_assert(std::is_same<%s, ::%s>::value, \"%s\");" % (n, tm, aid))
                where[aid] = ("lookup", path, n, tm, None)
            # declarations parsed inside the scope
            for n in NAMES:
                for shape, parts in DECL_SHAPES:
                    text = shape.replace("{N}", n)
                    try:
                        with contextlib.redirect_stdout(io.StringIO()):
                            a = declast.check_decl(text, namespace=node)
                        line = " ".join(dc.ast_line(a).split(" ")[:2])
                    except RuntimeError as e:
                        a, line = None, "reject " + common.enc(dc.last_line(e))
                    except Exception as e:  # noqa
                        a, line = None, "crash " + type(e).__name__
                    toks = dc.raw_tokens(text)
                    reqs.append("sparse %d %s %s" % (len(toks), dc.enc_tokens(toks), " ".join(chain)))
                    impl.append(line)
                    labels.append("%s: %r parsed in scope %r" % (label, text, path or "<library>"))
                    stat["declarations"] += 1
                    ctx.count(1)
                    if a is None or kind in ("function", "block"):
                        continue
                    for which, src in parts:
                        try:
                            if which == "self":
                                rend = a.gen_arg_as_cxx(name=None)
                            elif which == "result":
                                rend = a.gen_arg_as_cxx(name=None, params=None)
                            else:
                                rend = a.params[which].gen_arg_as_cxx(name=None)
                        except Exception:  # noqa
                            continue
                        src = src.replace("{N}", n)
                        aid = "A%d" % len(where)
                        asserts.setdefault(cxx_scope, []).append(
                            "static_assert(std::is_same<%s, %s>::value, \"%s\");" % (src, rend, aid))
                        where[aid] = ("declaration", path, text, rend, src)
        if not has_using(spec):
            dc.guarded(ctx, "oracle-scope-gxx", scope_gxx, ctx, label, spec, asserts, where, stat, nested_classes(scopes))
    ctx.note("scope_oracle", {k: stat[k] for k in ("trees", "scopes", "gxx_asserts", "gxx_failures", "gxx_ambiguous_skipped",
                                                    "rejected_trees")})
    if not (drv.available() and ok):
        ctx.tie_broken("scope-correspondence", "driver not built")
        return
    model = drv.run(reqs)
    dis = []
    for q, x, y, lab in zip(reqs, impl, model, labels):
        if y.startswith("unmodelled"):
            continue
        if x != y:
            dis.append({"case": lab, "impl": _show(x), "model": _show(y)})
        else:
            ctx.nontrivial("scope:" + x[:60])
    stat["disagreements"] = len(dis)
    ctx.note("scope_tie", stat)
    if dis:
        ctx.tie_broken("scope-correspondence", dis[:6])


def _show(line):
    out = []
    for x in line.split(" "):
        if re.fullmatch(r"\d+(,\d+)*", x):
            try:
                x = repr(common.dec(x))
            except Exception:  # noqa
                pass
        out.append(x)
    return " ".join(out)[:400]


def scope_gxx(ctx, label, spec, asserts, where, stat, nested_cls):
    tmp = common.scratch()
    try:
        head = ["#include <type_traits>", "#include <cstddef>", "#include <string>"]
        body = cxx_text(spec, asserts)
        text_lines = head + body
        src = os.path.join(tmp, "s.cpp")
        with open(src, "w") as f:
            f.write("\n".join(text_lines) + "\n")
        p = subprocess.run(["g++", "-std=c++11", "-fsyntax-only", "-fmax-errors=0", "-w", src],
                           stdout=subprocess.PIPE, stderr=subprocess.STDOUT, text=True, timeout=300)
        stat["gxx_asserts"] += sum(len(v) for v in asserts.values())
        ctx.count(sum(len(v) for v in asserts.values()))
        bad_lines = {}
        for m in re.finditer(r"s\.cpp:(\d+):\d+: error: (.*)", p.stdout):
            bad_lines.setdefault(int(m.group(1)), m.group(2))
        for ln, msg in sorted(bad_lines.items()):
            l = text_lines[ln - 1]
            if not l.startswith("static_assert"):
                # the tree itself is not C++ (should not happen): report once, as a harness problem
                ctx.tie_broken("scope-gxx-tree", {"tree": label, "line": l, "error": msg})
                return
            if "ambiguous" in msg:
                stat["gxx_ambiguous_skipped"] += 1
                continue
            m2 = re.search(r'"(A\d+)"\);$', l)
            info = where.get(m2.group(1) if m2 else None, ("?", "?", "?", "?", None))
            stat["gxx_failures"] += 1
            # a class declared inside a class gets a typemap name without the enclosing class (recorded finding)
            nested = any(info[1] == cp or str(info[1]).startswith(cp + "::") or
                         re.search(r"(^|[^\w:])(::)?%s($|[^\w])" % re.escape(sn), " " + str(info[3]))
                         for cp, sn in nested_cls)
            if info[0] == "lookup":
                ctx.fail("scope-gxx:" + ("nested-class:" if nested else "") + "lookup",
                         "g++: inside scope %r of the tree %s the name %r is not the type ::%s which Shroud's "
                         "unqualified_lookup gives (%s)" % (info[1] or "<library>", label, info[2], info[3], msg),
                         {"kind": "scope", "tree": spec, "scope": info[1], "name": info[2]})
            else:
                ctx.fail("scope-gxx:" + ("nested-class:" if nested else "") + "declaration",
                         "g++: %r parsed inside scope %r of the tree %s records the parameter type %r for %r, which is "
                         "another type there (%s)" % (info[2], info[1] or "<library>", label, info[3], info[4], msg),
                         {"kind": "scope", "tree": spec, "scope": info[1], "decl": info[2]})
    finally:
        common.rmtree(tmp)


def replay_case(rp):
    lib, scopes = build(rp["tree"])
    for path, node, kind in scopes:
        if path == rp.get("scope"):
            if "name" in rp:
                return "lookup of %r in %r -> %s" % (rp["name"], path, _show(real_lookup(node, rp["name"])))
            declast, _ = dc.mods()
            a = declast.check_decl(rp["decl"], namespace=node)
            return "%r in %r -> %s" % (rp["decl"], path, a.gen_arg_as_cxx())
    return "scope not found"
