"""C12 User splicer code is carried into the named blocks unchanged.

Proof: lean/ShroudVerif/Props/C12.lean over Model/Splicer.lean (+ Model/Lines.lean).
Tie (D): real splicer.get_splicers (temp files), WrapperMixin._push/_pop/_update/_create_splicer
+ write_lines, ast.listify, get_splicer_based_on_suffix vs the Lean driver drv_splicer.
Oracle (implementation only): end-to-end regeneration of corpus libraries with user bodies supplied in
the three ways and in conflicting combinations; generated files fed back as splicer files.
"""
import copy
import io
import os
import re
import types

from tools import common

LEVEL = "proof"
MANIFEST = dict(
    category="proof",
    text="Lean 4 theorems (43 obligations, all inputs) over a hand model of the splicer machinery, composed with the "
         "write_lines model of C13. (1) precedence: force > user > default, default retention and added flag, markers enclose "
         "exactly the selected body, push/update_top keep every user entry and pop undoes push; files are read into one "
         "dictionary, splicer_code is merged per block (code_beats_files, file_blocks_survive). (2) carriage: for every body "
         "of Clean lines (decidable: no embedded newline; a '#' line, or no leading CR and no TAB/FF) protected as "
         "_create_splicer does, write_lines emits indentation + the line, one physical line each, indent state unchanged, for "
         "every line length (carriage, block_carriage, block_carriage_force, emitLine_core); one proved witness per excluded "
         "class (TAB, FF, CR, newline) and witnesses that raw '+' / '@ ^ + -' lines need the protection. (3) reader: a "
         "well-formed block is exactly one insertion of the right-stripped body (run_block), text outside markers is ignored, "
         "insertion succeeds for pairwise prefix-incomparable dotted names and never overwrites (insertBlock_ok/_fresh), "
         "and the whole-file round trip roundtrip_file: get_splicers on an emitted file returns exactly the emitted bodies in "
         "order, equal to the user's up to indentation/trailing blanks, stable under repeated regeneration (readback_line). "
         "(4) stack discipline: wrap_namespace over any tree of nested namespaces leaves the name stack as found "
         "(wrap_namespace_discipline) and so does the class loop over any list of classes and structs, whichever branch wraps "
         "them (wrapClasses_names). Reader crash sites are modelled and stated (reader_leaf_then_prefix, reader_no_name, "
         "reader_repeat). No _partial statements.",
    design="3 C12",
    note="Ties (every run, through the compiled driver drv_splicer): real splicer.get_splicers on generated files (well-formed, "
         "malformed, CR/CRLF, pre-filled dictionaries); real main.add_splicer_code; the REAL main_with_args in-process on a tiny "
         "library with the four wrapper classes replaced by recorders (command-line files by extension, YAML splicer: files "
         "through several --path directories, first match wins, missing files, sorted suffixes, splicer_code, __line__ keys); "
         "random stack/op sequences and the recorded push/pop/update_top/create sequences of real generations of generated "
         "libraries for Wrapc, Wrapf, Wrapp and Wrapl (full name at every create, final path and dictionary) with "
         "_create_splicer + write_lines; ast.listify; the suffix table. "
         "Oracle (implementation only, fresh processes): corpus libraries and generated libraries (tools/gen/libgen.py, plus "
         "namespaces nested 2-3 deep with classes, flattened or not) regenerated with bodies of every shape (empty, one line, "
         "blank lines inside/at the end, lines starting with @ ^ + - or ending in +) for every harvested block in C, Fortran, "
         "Python and Lua outputs, supplied by command-line file, YAML file (extension need not match the key), splicer_code, "
         "combinations and conflicts, declaration-level splicers in every YAML scalar form; module-level Fortran blocks and the "
         "blocks of classes/functions must be named after their own namespace; within one file a block name names one block; "
         "a declaration-level splicer arrives only in the block(s) of its own key (random key subsets of c, c_buf, c_cfi, f, py) "
         "and may not vanish from a language the declaration is part of (it forces the wrapper of a "
         "function callable directly); user code for the file-level C blocks of a class with no generated code makes its "
         "files appear; _create_splicer's return value is true for a user body or a default and false otherwise; "
         "splicer files use every marker style (any comment leader, text after the name such as a closing */); "
         "splicer_code blocks may be lists with empty YAML items or block scalars (codeScalar_listify); several libraries wrapped "
         "one after the other in ONE process: a run that supplies nothing shows none of an earlier run's user code and its own "
         "defaults; in every recorded real generation each _pop_splicer(name) leaves the "
         "level that was entered under that name and the stack is empty at the end (generated libraries with plain structs, "
         "classes, nested namespaces; all four wrappers); generated files of all four languages fed back "
         "as splicer files reproduce the same code. "
         "Trusted / modelled, not verified: the Lean kernel; the hand model (flat representation of the nested dictionaries; "
         "Python whitespace on ASCII+U+0085/U+00A0; UTF-8, universal newlines), validated on generated inputs only; NS/wrapNs is "
         "an abstraction of Wrapf.wrap_namespace's stack operations, tied through the recorded sequences; that every wrapper "
         "emits markers only through _create_splicer is a static scan. Open findings: TAB and FF inside user lines are consumed by "
         "write_continue (no escape exists; a repair needs a new write_lines directive); the C blocks of generated member "
         "getters/setters ignore a user splicer -- that is the design of `splicer:` on declarations (force has priority), "
         "generate.py uses it for generated bodies; class template instantiations share block names; in the Python wrapper an "
         "overload with an empty function_suffix shares its block name with the dispatcher. A splicer named __line__ is "
         "outside the model.",
    technique="Lean 4 proof (induction over lines, blocks and namespace trees) + differential correspondence model/implementation "
              "incl. main_with_args and recorded emitter sequences + end-to-end regeneration oracle on corpus and generated libraries",
)
MODULES = ["ShroudVerif.Props.C12"]
THEOREMS = {
    "ShroudVerif.Props.C12": [
        "Shroud.Splicer.create_force",
        "Shroud.Splicer.create_user",
        "Shroud.Splicer.create_default",
        "Shroud.Splicer.create_markers",
        "Shroud.Splicer.stack_preserves",
        "Shroud.Splicer.collect_precedence",
        "Shroud.Splicer.file_blocks_survive",
        "Shroud.Splicer.code_beats_files",
        "Shroud.Splicer.carriage_line",
        "Shroud.Splicer.carriage",
        "Shroud.Splicer.emitLine_core",
        "Shroud.Splicer.block_carriage",
        "Shroud.Splicer.block_carriage_force",
        "Shroud.Splicer.witness_trailing_plus",
        "Shroud.Splicer.witness_tab",
        "Shroud.Splicer.witness_ff",
        "Shroud.Splicer.witness_column_one",
        "Shroud.Splicer.witness_newline",
        "Shroud.Splicer.witness_cr",
        "Shroud.Splicer.protect_noNL",
        "Shroud.Splicer.wrapNs_names",
        "Shroud.Splicer.wrapKids_names",
        "Shroud.Splicer.wrap_namespace_discipline",
        "Shroud.Splicer.wrapClassList_names",
        "Shroud.Splicer.wrapClasses_names",
        "Shroud.Splicer.codeScalar_listify",
        "Shroud.Splicer.carriage_unrestricted_false",
        "Shroud.Splicer.outside_ignored",
        "Shroud.Splicer.outside_ignored_tail",
        "Shroud.Splicer.collect_body",
        "Shroud.Splicer.run_block",
        "Shroud.Splicer.insertBlock_self",
        "Shroud.Splicer.insertBlock_other",
        "Shroud.Splicer.marker_recognised",
        "Shroud.Splicer.readback_line",
        "Shroud.Splicer.roundtrip_block",
        "Shroud.Splicer.reader_leaf_then_prefix",
        "Shroud.Splicer.reader_no_name",
        "Shroud.Splicer.reader_repeat",
        "Shroud.Splicer.insertBlock_fresh",
        "Shroud.Splicer.insertBlock_ok",
        "Shroud.Splicer.roundtrip_file_gen",
        "Shroud.Splicer.roundtrip_file",
    ]
}

LANGS = ("c", "f", "py", "lua")


# ------------------------------------------------------------------ dict codecs
def flatten(nested, prefix=()):
    """nested python dict -> list of ('L'|'D', path, body) in insertion (DFS pre-) order"""
    out = []
    for k, v in nested.items():
        p = prefix + (k,)
        if isinstance(v, dict):
            out.append(("D", p, None))
            out.extend(flatten(v, p))
        elif isinstance(v, str):        # a splicer_code block scalar
            out.append(("S", p, v))
        elif isinstance(v, (list, tuple)):
            out.append(("M" if any(x is None for x in v) else "L", p, list(v)))
        else:
            out.append(("L", p, ["<%s>" % type(v).__name__]))
    return out


def enc_dict(entries):
    if not entries:
        return "{}"
    toks = []
    for kind, p, body in entries:
        if kind == "L":
            toks.append("L/%s/%s" % (common.encs(list(p)), common.encs(body)))
        elif kind == "S":
            toks.append("S/%s/%s" % (common.encs(list(p)), common.enc(body)))
        elif kind == "M":       # a splicer_code list with YAML nulls
            toks.append("M/%s/%s" % (common.encs(list(p)), "&".join("n" if x is None else "s" + common.enc(x) for x in body)))
        else:
            toks.append("D/%s" % common.encs(list(p)))
    return "|".join(toks)


def canon_dict(s):
    return "{}" if s == "{}" else "|".join(sorted(s.split("|")))


def enc_items(items):
    if items is None:
        return "N"
    if not items:
        return "E"
    return "&".join(("i%d" % it) if isinstance(it, int) else ("s" + common.enc(it)) for it in items)


# ------------------------------------------------------------------ real code wrappers
def exc_name(e):
    if isinstance(e, RuntimeError):
        msg = e.args[0] if e.args else ""
        if str(msg).startswith("Tag already exists"):
            return "RuntimeError exists"
        if str(msg).startswith("Mismatched"):
            return "RuntimeError mismatch"
        return "RuntimeError"
    return type(e).__name__


def real_gs(tmp, nested0, contents):
    from shroud import splicer
    out = copy.deepcopy(nested0)
    fname = os.path.join(tmp, "in.c")
    try:
        for c in contents:
            with open(fname, "w", newline="", encoding="utf-8") as fp:
                fp.write(c)
            splicer.get_splicers(fname, out)
    except Exception as e:  # noqa
        return "crash " + exc_name(e)
    return "ok " + canon_dict(enc_dict(flatten(out)))


def _with_line_keys(node, n=[0]):
    """what the YAML loader of main_with_args does to every mapping"""
    if isinstance(node, dict):
        out = {k: _with_line_keys(v) for k, v in node.items()}
        n[0] += 1
        out["__line__"] = n[0]
        return out
    return node


def real_col(tmp, code, ncmd, contents):
    """main_with_args' collection for one language: command-line files through get_splicer_based_on_suffix,
    YAML files through get_splicers (main.py calls them exactly so), then the real main.add_splicer_code
    on a splicer_code mapping that carries the loader's __line__ keys."""
    from shroud import splicer
    from shroud import main as smain
    splicers = dict(c={}, f={}, py={}, lua={})
    try:
        for k, c in enumerate(contents):
            fname = os.path.join(tmp, "in%d.f90" % k)
            with open(fname, "w", newline="", encoding="utf-8") as fp:
                fp.write(c)
            if k < ncmd:
                splicer.get_splicer_based_on_suffix(fname, splicers)
            else:
                splicer.get_splicers(fname, splicers.setdefault("f", {}))
        if code is not None:
            src = _with_line_keys({"f": copy.deepcopy(code)})
            merge = getattr(smain, "add_splicer_code", None)
            if merge is None:           # a tree without the helper: what main.py did before
                splicers.update(src)
            else:
                merge(splicers, src)
    except Exception as e:  # noqa
        return "crash " + exc_name(e)
    return "ok " + canon_dict(enc_dict(flatten(splicers["f"])))


def _mixin():
    from shroud import util

    class W(util.WrapperMixin):
        pass

    return W()


def real_ws(show, comment, nested0, linelen, indent, spaces, cont, ops):
    w = _mixin()
    w.newlibrary = types.SimpleNamespace(options=types.SimpleNamespace(show_splicer_comments=show))
    w.comment = comment
    w.linelen = linelen
    w.indent = indent
    w.cont = cont
    d = copy.deepcopy(nested0)
    w._init_splicer(d)
    out = []
    flags = "f"
    try:
        for op in ops:
            if op[0] == "push":
                w._push_splicer(op[1])
            elif op[0] == "pop":
                w._pop_splicer("ignored")
            elif op[0] == "upd":
                w._update_splicer_top(op[1])
            else:
                added = w._create_splicer(op[1], out, op[2], op[3])
                flags += "1" if added else "0"
    except Exception as e:  # noqa
        return "crash " + exc_name(e)
    fp = io.StringIO()
    try:
        w.write_lines(fp, out, spaces)
    except Exception as e:  # noqa
        return "crash wl " + exc_name(e)
    text = fp.getvalue()
    lines = text[:-1].split("\n") if text else []
    return "ok %s %s %s %d %s" % (flags, common.enc(w.splicer_path), canon_dict(enc_dict(flatten(d))),
                                  w.indent, common.encs(lines))


def enc_op(op):
    if op[0] == "push":
        return "push/" + common.enc(op[1])
    if op[0] == "pop":
        return "pop"
    if op[0] == "upd":
        return "upd/" + common.enc(op[1])
    return "cr/%s/%s/%s" % (common.enc(op[1]), enc_items(op[2]), enc_items(op[3]))


def canon_ws(resp):
    if not resp.startswith("ok "):
        return resp
    t = resp.split(" ")
    t[3] = canon_dict(t[3])
    return " ".join(t)


def canon_gs(resp):
    if not resp.startswith("ok "):
        return resp
    return "ok " + canon_dict(resp[3:])


def real_lf(v):
    from shroud import ast
    try:
        r = ast.listify({"c": v}, ["c", "c_buf", "f", "py"])
    except Exception as e:  # noqa
        return "crash " + exc_name(e)
    return "ok " + common.encs(r["c"])


def real_ext(tmp, ext):
    from shroud import splicer
    fname = os.path.join(tmp, "s" + ext)
    with open(fname, "w") as fp:
        fp.write("// splicer begin x\n// splicer end x\n")
    out = {}
    splicer.get_splicer_based_on_suffix(fname, out)
    os.unlink(fname)
    ks = list(out.keys())
    return "ok " + common.enc(ks[0]) if ks else "none"


# ------------------------------------------------------------------ generators (tie)
NAMES = ["a", "b", "a.b", "a.b.c", "b.a", "c", "a.c", "a..b", ".", "x::y", "function.foo", "a.b.c.d"]
PREFIX = ["// ", "! ", "  // ", "", "x", "# ", "\t", "-- ", "//"]
TERM = ["\n", "\n", "\n", "\n", "\r\n", "\r"]
BODY = ["return 1;", "  x = y + z  ", "", "   ", "call foo(a,\tb)", "i++ +", "+", "-", "@x", "#define A", "^lbl",
        "a\fb", "\tz", "splicer end a", "splicer begin q", "a.b", "a", "\x0b", "x\xa0", "\x85", "é", "}-", "{+", "\x1c y"]


def gen_valid_block(r, names=NAMES):
    n = r.choice(names)
    pre = r.choice(["// ", "! ", "  // ", "    ! ", "-- "])
    tail = r.choice(["", "", " */", "  words", " -->"])
    lines = [pre + "splicer begin " + n + (tail or r.choice(["", " ", "  trailing words"]))]
    for _ in range(r.randrange(0, 4)):
        b = r.choice(BODY)
        if "splicer end" in b:
            b = "splicer end a"     # column one: collected, not a marker
        lines.append(b)
    lines.append(pre + "splicer end " + n + tail)
    return lines


def gen_valid(r):
    lines = []
    pool = r.sample(NAMES, r.randrange(1, 5))
    for _ in range(r.randrange(1, 5)):
        for _ in range(r.randrange(0, 3)):
            lines.append(r.choice(["junk", "", "splicer begin zz", "int x; // comment", "  "]))
        lines.extend(gen_valid_block(r, pool))
    if r.random() < 0.3:
        lines.append("trailing junk")
    text = "".join(l + r.choice(TERM) for l in lines)
    if r.random() < 0.2:
        text = text.rstrip("\r\n")
    return text


def gen_malformed(r):
    lines = []
    for _ in range(r.randrange(1, 9)):
        k = r.random()
        if k < 0.35:
            lines.append(r.choice(PREFIX) + "splicer begin" + r.choice([" ", "", "  ", "\t"]) + r.choice(NAMES + ["", "", " "]))
        elif k < 0.7:
            lines.append(r.choice(PREFIX) + "splicer end" + r.choice([" ", "", "  "]) + r.choice(NAMES + ["", "", " "])
                         + r.choice(["", " more"]))
        else:
            lines.append(r.choice(BODY))
    return "".join(l + r.choice(TERM) for l in lines)


def gen_nested(r, depth=0, nulls=False):
    """nulls: as a splicer_code mapping, where an empty YAML list item is None"""
    d = {}
    for _ in range(r.randrange(0, 4 if depth == 0 else 3)):
        k = r.choice(["a", "b", "c", "function", "class", "foo", "", "x::y"])
        if r.random() < 0.45 and depth < 3:
            d[k] = gen_nested(r, depth + 1, nulls)
        else:
            d[k] = [None if nulls and r.random() < 0.2 else r.choice(BODY + ["a", "b", "foo"]) for _ in range(r.randrange(0, 4))]
            if nulls and r.random() < 0.2:
                d[k] = r.choice(["", "a", "a\n", "a\nb", "a\n\nb\n", "\n", " x = 1 \n+\n", "// line 1\nint x;\n"])
    return d


def gen_items(r, allow_int=True):
    k = r.random()
    if k < 0.3:
        return None
    if k < 0.4:
        return []
    out = []
    for _ in range(r.randrange(1, 4)):
        if allow_int and r.random() < 0.2:
            out.append(r.randrange(-1, 2))
        else:
            out.append(r.choice(["default line;", "+", "x = 1", "{+", "-}", "#if 0", "a,\tb", ""]))
    return out


def gen_ops(r):
    ops = []
    names = ["a", "b", "c", "function", "class", "foo", "", "x::y"]
    for _ in range(r.randrange(1, 9)):
        k = r.random()
        if k < 0.3:
            ops.append(("push", r.choice(names)))
        elif k < 0.36:
            ops.append(("pop",))
        elif k < 0.52:
            ops.append(("upd", r.choice(names)))
        else:
            ops.append(("cr", r.choice(names), gen_items(r), gen_items(r) if r.random() < 0.3 else None))
    return ops


# ------------------------------------------------------------------ tie of main_with_args itself
class _Capture:
    got = None

    def __init__(self, lang):
        self.lang = lang

    def __call__(self, newlibrary, config, splicers):
        _Capture.got[self.lang] = splicers
        return self

    def wrap_library(self):
        pass

    def write_impl_utility(self):
        pass


def real_main(tmp, k, cmd, dirs, yaml_entries, code, path_arg):
    """The real main_with_args in-process on a tiny library; the four wrapper classes are replaced by recorders of the
    `splicers[...]` dictionary they are constructed with.
    cmd: [(ext, content)], dirs: [{name: content}], yaml_entries: [(suffix, [names])], code: {lang: nested} or None."""
    import yaml
    from shroud import wrapc, wrapf, wrapp, wrapl
    from tools import shroudrun
    wd = os.path.join(tmp, "mw%d" % k)
    os.makedirs(os.path.join(wd, "out"))
    dpaths = []
    for i, files in enumerate(dirs):
        dp = os.path.join(wd, "p%d" % i)
        os.makedirs(dp)
        dpaths.append(dp)
        for name, content in files.items():
            with open(os.path.join(dp, name), "w", newline="", encoding="utf-8") as fp:
                fp.write(content)
    cmdpaths = []
    for i, (ext, content) in enumerate(cmd):
        cp = os.path.join(wd, "cmd%d%s" % (i, ext))
        with open(cp, "w", newline="", encoding="utf-8") as fp:
            fp.write(content)
        cmdpaths.append(cp)
    doc = {"library": "tiny", "options": {"wrap_python": True, "wrap_lua": True},
           "declarations": [{"decl": "void f()"}]}
    if yaml_entries:
        doc["splicer"] = {sfx: list(names) for sfx, names in yaml_entries}
    if code is not None:
        doc["splicer_code"] = copy.deepcopy(code)
    ypath = os.path.join(wd, "tiny.yaml")
    with open(ypath, "w") as fp:
        yaml.safe_dump(doc, fp, default_flow_style=False, sort_keys=False, width=10000)
    # --path entries: the directories, some of them joined by ':' as the option allows
    path = []
    for i, dp in enumerate(dpaths):
        if path_arg == "joined" and path:
            path[-1] = path[-1] + ":" + dp
        else:
            path.append(dp)
    saved = (wrapc.Wrapc, wrapf.Wrapf, wrapp.Wrapp, wrapl.Wrapl)
    _Capture.got = {}
    wrapc.Wrapc, wrapf.Wrapf, wrapp.Wrapp, wrapl.Wrapl = _Capture("c"), _Capture("f"), _Capture("py"), _Capture("lua")
    try:
        cfg, exc, _out = shroudrun.run_inproc([ypath] + cmdpaths, os.path.join(wd, "out"), path=path or [wd])
    finally:
        wrapc.Wrapc, wrapf.Wrapf, wrapp.Wrapp, wrapl.Wrapl = saved
    common.rmtree(wd)
    if exc is not None:
        if isinstance(exc, RuntimeError) and str(exc.args[0] if exc.args else "").startswith("File not found"):
            return "crash RuntimeError notfound"
        return "crash " + exc_name(exc)
    got = _Capture.got
    if sorted(got) != ["c", "f", "lua", "py"]:
        return "crash wrappers-not-constructed %s" % sorted(got)
    return "ok " + " ".join(canon_dict(enc_dict(flatten(got[l]))) for l in ("c", "f", "py", "lua"))


def canon_mw(resp):
    if not resp.startswith("ok "):
        return resp
    return "ok " + " ".join(canon_dict(t) for t in resp[3:].split(" "))


def gen_main_case(r):
    uniq = [0]

    def content(good=0.85):
        # mostly well-formed files with names of their own, so that most runs get through to the wrappers
        if r.random() < good:
            uniq[0] += 1
            names = ["u%d" % uniq[0], "function.g%d" % uniq[0], "class.K.method.m%d" % uniq[0], "a.u%d" % uniq[0]]
            if r.random() < 0.25:
                names += ["a.b", "c", "function.foo"]       # shared between files: "Tag already exists" etc.
            lines = []
            for n in r.sample(names, r.randrange(1, 4)):
                lines.extend(gen_valid_block(r, [n]))
                lines.append(r.choice(["junk", "", "splicer begin zz"]))
            return "".join(l + r.choice(TERM) for l in lines)
        return gen_malformed(r)

    cmd = [(r.choice([".c", ".f", ".py", ".lua", ".h", ".f90", ".cpp", ".txt", ".F"]), content()) for _ in range(r.randrange(0, 4))]
    ndirs = r.randrange(1, 4)
    dirs = [dict() for _ in range(ndirs)]
    fnames = ["s1.c", "s2.f", "common.txt", "x.lua", "dup.c"]
    for fn in fnames:
        for d in dirs:
            if r.random() < 0.45:
                d[fn] = content()
    yaml_entries = []
    for sfx in r.sample(["c", "f", "py", "lua", "zz"], r.randrange(0, 4)):
        yaml_entries.append((sfx, [r.choice(fnames + (["missing.c"] if r.random() < 0.15 else [])) for _ in range(r.randrange(0, 3))]))
    code = None
    if r.random() < 0.6:
        code = {}
        for l in r.sample(["c", "f", "py", "lua"], r.randrange(1, 4)):
            code[l] = gen_nested(r, nulls=True)
    return cmd, dirs, yaml_entries, code, r.choice(["separate", "joined"])


def enc_main_case(cmd, dirs, yaml_entries, code):
    toks = ["N/%d" % len(dirs)]
    toks += ["C/%s/%s" % (common.enc(e), common.enc(c)) for e, c in cmd]
    for i, d in enumerate(dirs):
        toks += ["P/%d/%s/%s" % (i, common.enc(n), common.enc(c)) for n, c in d.items()]
    toks += ["Y/%s/%s" % (common.enc(sfx), common.encs(names)) for sfx, names in yaml_entries]
    if code:
        toks += ["K/%s/%s" % (common.enc(l), enc_dict(flatten(d))) for l, d in code.items()]
    return "mw " + " ".join(toks)


# ------------------------------------------------------------------ tie of the emitters' stack-operation sequences
def record_generation(tmp, k, doc):
    """Run a real generation in-process with the four splicer-stack methods of WrapperMixin wrapped by recorders.
    -> {instance: {"ops": [...], "created": [full names], "path": final splicer_path, "dict": final dictionary}} or None"""
    import yaml
    from shroud import util
    from tools import shroudrun
    wd = os.path.join(tmp, "seq%d" % k)
    os.makedirs(wd)
    ypath = os.path.join(wd, "%s.yaml" % doc["library"])
    with open(ypath, "w") as fp:
        yaml.safe_dump(doc, fp, default_flow_style=False, sort_keys=False, width=10000)
    rec = {}
    M = util.WrapperMixin
    saved = (M._push_splicer, M._pop_splicer, M._update_splicer_top, M._create_splicer)

    def slot(self):
        return rec.setdefault(id(self), {"cls": type(self).__name__, "ops": [], "created": [], "self": self})

    def push(self, name):
        slot(self)["ops"].append(("push", name))
        return saved[0](self, name)

    def pop(self, name):
        sl = slot(self)
        sl["ops"].append(("pop",))
        top = self.splicer_names[-1] if self.splicer_names else None
        # the level that is left is the one that was entered ("XXX" is the place holder update_top replaces)
        if name != "XXX" and top != name:
            sl.setdefault("pop_mismatch", []).append((name, top))
        return saved[1](self, name)

    def upd(self, name):
        slot(self)["ops"].append(("upd", name))
        return saved[2](self, name)

    def create(self, name, out, default=None, force=None):
        sl = slot(self)
        sl["ops"].append(("cr", name, None, None))
        sl["created"].append(self.splicer_path + name)
        return saved[3](self, name, out, default, force)

    M._push_splicer, M._pop_splicer, M._update_splicer_top, M._create_splicer = push, pop, upd, create
    try:
        cfg, exc, _o = shroudrun.run_inproc([ypath], wd, options=["debug_testsuite=true"])
    finally:
        M._push_splicer, M._pop_splicer, M._update_splicer_top, M._create_splicer = saved
    common.rmtree(wd)
    if exc is not None:
        return None
    out = {}
    for sl in rec.values():
        w = sl["self"]
        out[sl["cls"]] = {"ops": sl["ops"], "created": sl["created"], "path": w.splicer_path,
                          "dict": canon_dict(enc_dict(flatten(w.splicers))),
                          "pop_mismatch": sl.get("pop_mismatch", []), "final_names": list(w.splicer_names)}
    return out


def seq_request(ops):
    return "ws 1 %s {} 72 0 %s %s %s" % (common.enc("C"), common.enc("    "), common.enc("&"), " ".join(enc_op(o) for o in ops))


def seq_expected(r_):
    lines = []
    for n in r_["created"]:
        lines += ["C splicer begin " + n, "C splicer end " + n]
    return "ok %s %s %s" % (common.enc(r_["path"]), r_["dict"], common.encs(lines))


def canon_seq(resp):
    if not resp.startswith("ok "):
        return resp
    t = resp.split(" ")
    return "ok %s %s %s" % (t[2], canon_dict(t[3]), t[5])


# ------------------------------------------------------------------ tie
def tie(ctx, ok, tmp):
    thorough = ctx.tier == "thorough"
    r = common.rng("c12-tie")
    drv = common.Driver("drv_splicer")
    reqs, impl, canon, kinds = [], [], [], []

    def add(req, a, cf, kind):
        reqs.append(req)
        impl.append(a)
        canon.append(cf)
        kinds.append(kind)

    ident = lambda s: s  # noqa
    # corpus first
    cpath = os.path.join(common.CORPUS, "c12.txt")
    corpus = []
    if os.path.exists(cpath):
        for ln in open(cpath):
            ln = ln.rstrip("\n")
            if ln.startswith("gs "):
                corpus.append([common.dec(x) for x in ln.split(" ")[1:]])
    n_gs = 6000 if thorough else 1500
    gs_cases = [({}, c) for c in corpus]
    for k in range(n_gs):
        ncont = 1 if r.random() < 0.7 else 2
        contents = [gen_valid(r) if r.random() < 0.5 else gen_malformed(r) for _ in range(ncont)]
        d0 = {} if r.random() < 0.7 else gen_nested(r)
        gs_cases.append((d0, contents))
    for d0, contents in gs_cases:
        add("gs %s %s" % (enc_dict(flatten(d0)), " ".join(common.enc(c) for c in contents)),
            real_gs(tmp, d0, contents), canon_gs, "gs")
    for k in range(1500 if thorough else 400):
        contents = [gen_valid(r) if r.random() < 0.9 else gen_malformed(r) for _ in range(r.randrange(0, 4))]
        ncmd = r.randrange(0, len(contents) + 1)
        code = gen_nested(r, nulls=True) if r.random() < 0.5 else None
        add("col %s %d %s" % ("N" if code is None else enc_dict(flatten(code)), ncmd, " ".join(common.enc(c) for c in contents)),
            real_col(tmp, code, ncmd, contents), canon_gs, "col")
    n_ws = 8000 if thorough else 2500
    for k in range(n_ws):
        show = r.random() < 0.75
        comment = r.choice(["//", "!", "--", "#", ""])
        d0 = gen_nested(r)
        ll = r.choice([3, 20, 72, 132])
        ind = r.randrange(0, 3)
        sp = r.choice(["    ", "  "])
        cont = r.choice(["&", " \\"])
        ops = gen_ops(r)
        add("ws %d %s %s %d %d %s %s %s" % (1 if show else 0, common.enc(comment), enc_dict(flatten(d0)), ll, ind,
                                            common.enc(sp), common.enc(cont), " ".join(enc_op(o) for o in ops)),
            real_ws(show, comment, d0, ll, ind, sp, cont, ops), canon_ws, "ws")
    # stack-operation sequences of real generations (generated libraries, nested namespaces included)
    from tools.gen import libgen
    seq_stats = {"libraries": 0, "wrappers": 0, "ops": 0, "creates": 0, "max_depth": 0, "by_class": {}, "py_lua_blocks": {}}
    for k in range(16 if thorough else 4):
        doc = gen_ns_lib(r, "seqns%d" % k) if k % 2 == 0 else \
            libgen.gen_lib(r, name="seqlib%d" % k, wrap={"wrap_python": True, "wrap_lua": r.random() < 0.5}).todict()
        if k % 2 == 1:
            doc["declarations"].insert(0, {"decl": "struct PtS%d" % k, "declarations": [{"decl": "int x"}, {"decl": "double y"}]})
        elif not doc["options"].get("wrap_python"):
            doc["options"]["wrap_python"] = True
        recd = record_generation(tmp, k, doc)
        if recd is None:
            continue
        seq_stats["libraries"] += 1
        for cls, r_ in sorted(recd.items()):
            seq_stats["wrappers"] += 1
            seq_stats["by_class"][cls] = seq_stats["by_class"].get(cls, 0) + len(r_["created"])
            for n in r_["created"]:
                if cls in ("Wrapp", "Wrapl"):
                    kind = ("class-method" if ".method." in n else "class-level" if "class." in n else
                            "type" if ".type." in n or n.startswith("type.") else "namespace-level" if n.startswith("namespace.") else "other")
                    k2 = "%s:%s" % (cls, kind)
                    seq_stats["py_lua_blocks"][k2] = seq_stats["py_lua_blocks"].get(k2, 0) + 1
            seq_stats["ops"] += len(r_["ops"])
            seq_stats["creates"] += len(r_["created"])
            depth = cur = 0
            for o in r_["ops"]:
                cur += 1 if o[0] == "push" else (-1 if o[0] == "pop" else 0)
                depth = max(depth, cur)
            seq_stats["max_depth"] = max(seq_stats["max_depth"], depth)
            add(seq_request(r_["ops"]), seq_expected(r_), canon_seq, "seq")
            # implementation-only: the emitters' push/pop discipline
            ctx.count(2)
            if r_["pop_mismatch"]:
                ctx.fail("stack:pop-leaves-another-level:%s" % cls,
                         "%s._pop_splicer(%r) left the level %r: a level was entered and not left, every later block of "
                         "the run is looked up under a shifted name" % ((cls,) + tuple(r_["pop_mismatch"][0])),
                         {"library": doc, "wrapper": cls, "mismatches": r_["pop_mismatch"][:5]})
            if r_["final_names"]:
                ctx.fail("stack:not-empty-after-generation:%s" % cls,
                         "%s ends the generation with the splicer levels %r still entered" % (cls, r_["final_names"]),
                         {"library": doc, "wrapper": cls})
    ctx.note("emitter_sequences", seq_stats)
    for k in range(600 if thorough else 200):
        cmd, dirs, yaml_entries, code, path_arg = gen_main_case(r)
        add(enc_main_case(cmd, dirs, yaml_entries, code), real_main(tmp, k, cmd, dirs, yaml_entries, code, path_arg),
            canon_mw, "mw")
    for v in ["", "\n", "a", "a\n", "a\nb", "a\nb\n", "\n\n", "a\n\nb\n", " x \n+\n", "a\r\nb"]:
        add("lf " + common.enc(v), real_lf(v), ident, "lf")
    for ext in [".f", ".f90", ".c", ".h", ".cpp", ".hpp", ".cxx", ".hxx", ".cc", ".C", ".py", ".lua", ".F", ".txt", "",
                ".yaml", ".F90", ".c++", ".H"]:
        add("ext " + common.enc(ext), real_ext(tmp, ext), ident, "ext")

    ctx.count(len(reqs))
    disagreements = []
    if drv.available() and ok:
        model = drv.run(reqs)
        for q, a, b, cf, kind in zip(reqs, impl, model, canon, kinds):
            if a != cf(b):
                disagreements.append({"request": q, "impl": a, "model": cf(b)})
            if a.startswith("crash") or "L/" in a or (kind == "ws" and ";" in a):
                ctx.nontrivial(q)
        if disagreements:
            ctx.tie_broken("splicer-correspondence", disagreements[:5])
    else:
        ctx.tie_broken("splicer-correspondence", "driver not built")
    dist = {}
    for a, kind in zip(impl, kinds):
        key = kind + ":" + (a.split(" ")[1] if a.startswith("crash") else "ok")
        dist[key] = dist.get(key, 0) + 1
    ctx.note("tie_distribution", dist)
    ctx.note("tie_disagreements", len(disagreements))
    for q, a in list(zip(reqs, impl))[:: max(1, len(reqs) // 5)][:5]:
        ctx.sample({"request": q[:300], "impl": a[:300]})
    return disagreements


# ------------------------------------------------------------------ oracle (implementation only)
MARK = re.compile(r"^(\s*)(\S*) splicer (begin|end) (\S+)\s*$")
CLEAN_VOCAB = ["i = i +", "-x", "+y", "@z", "^label", "--", "+", "x = a +", "-}", "{+", "return 1;", "  x = y + z;", "call foo(a, b)", "i = i + 1", "a+b-c", " -x", " +y", "x @ y ^ z", "#define FOO(a) a +",
               "#include <stdio.h>", "if (x) {", "}", "", "   ", "end if  ", "! comment", "// comment", " -- lua comment",
               "x = '" + "long " * 40 + "'", "rv = name .ne. \" \"", "a: b", "'quoted'", "\"dq\"", "{ \"k\": [1, 2] }", "* star",
               "& amp", "% pct", "?", "~"]


def norm(line):
    return line.strip()


SHAPES = ("empty", "one-line", "multi", "blank-inside", "blank-at-end", "blank-only")
SHAPE_STATS = {}      # "<route>:<shape>" -> count, printed into the evidence notes
EXT_STATS = {}        # "<yaml key>-key:<file extension>" -> count
FEED_STATS = {}       # language -> generated files fed back as splicer files
KEYSET_STATS = {}     # key subsets supplied on declarations
MARKER_STATS = {}     # marker line styles of the generated splicer files
NS_STATS = {}         # shapes of the namespace trees of generated libraries
FORM_STATS = {}       # "<yaml form>:<shape>" -> count


def gen_body(r, route, token=None, shapes=SHAPES):
    """A Clean body of a random shape.  `token` (a unique line) is inserted into non-empty shapes when given."""
    shape = r.choice(shapes)
    pick = lambda: r.choice([l for l in CLEAN_VOCAB if l.strip()])  # noqa
    if shape == "empty":
        body = []
    elif shape == "one-line":
        body = [pick()]
    elif shape == "multi":
        body = [r.choice(CLEAN_VOCAB) for _ in range(r.randrange(2, 6))]
    elif shape == "blank-inside":
        body = [pick(), ""] + ([""] if r.random() < 0.3 else []) + [pick()]
    elif shape == "blank-at-end":
        body = [pick() for _ in range(r.randrange(1, 3))] + [""] * r.randrange(1, 3)
    else:
        body = [""]
    if token is not None and shape not in ("empty", "blank-only"):
        if shape == "one-line":
            body = ["tok_%s();" % token]
        else:
            body[0] = "tok_%s();" % token
    assert all(is_clean(l) for l in body)
    key = "%s:%s" % (route, shape)
    SHAPE_STATS[key] = SHAPE_STATS.get(key, 0) + 1
    return body


def gen_clean_body(r, token, route="other"):
    """non-empty body carrying a unique token line"""
    return gen_body(r, route, token, shapes=("one-line", "multi", "blank-inside", "blank-at-end"))


# ---- YAML scalar forms of a declaration-level splicer value
class _Lit(str):
    pass


class _Fold(str):
    pass


class _DQ(str):
    pass


class _SQ(str):
    pass


def _install_yaml_styles():
    import yaml
    for cls, style in ((_Lit, "|"), (_Fold, ">"), (_DQ, '"'), (_SQ, "'")):
        yaml.add_representer(cls, (lambda st: lambda dumper, data: dumper.represent_scalar("tag:yaml.org,2002:str", str(data), style=st))(style),
                             Dumper=yaml.SafeDumper)


def scalar_semantics(value):
    """What a string value of `splicer:` means (docs of ast.listify): its lines; a final newline does not add a blank line."""
    lines = value.split("\n")
    if value.endswith("\n"):
        lines.pop()
    return lines


def decl_value(r, body):
    """Render a non-empty body as a `splicer:` value in a random YAML form.  -> (yaml value, form name, expected lines)"""
    forms = ["list", "list-null", "literal-clip |", "literal-strip |-", "folded >", "double-quoted", "single-quoted", "plain"]
    form = r.choice(forms)
    if form == "list" or (form == "list-null" and "" not in body):
        return list(body), "list", list(body)
    if form == "list-null":
        return [None if l == "" else l for l in body], form, list(body)     # '-' with nothing after it
    text = "\n".join(body)
    if form in ("literal-clip |", "folded >"):
        value = text + "\n"
    else:
        value = text
    cls = {"literal-clip |": _Lit, "literal-strip |-": _Lit, "folded >": _Fold, "double-quoted": _DQ,
           "single-quoted": _SQ, "plain": str}[form]
    return cls(value), form, scalar_semantics(value)


def is_clean(l):
    if "\n" in l:
        return False
    if l == "" or l[0] == "#":
        return True
    return l[0] != "\r" and "\t" not in l and "\f" not in l


def parse_blocks(text):
    """[(name, [body lines])] of a generated file, independent of the code under test."""
    blocks, cur, name = [], None, None
    for line in text.split("\n"):
        m = MARK.match(line)
        if m and m.group(3) == "begin" and cur is None:
            name, cur = m.group(4), []
        elif m and m.group(3) == "end" and cur is not None and m.group(4) == name:
            blocks.append((name, cur))
            cur = None
        elif cur is not None:
            cur.append(line)
    return blocks


def lang_of(rel):
    d, base = os.path.split(rel)
    if d == "lua" or base.startswith("lua"):
        return "lua"
    if d == "py":
        return "py"
    if d == "cf":
        return "f" if base.lower().endswith((".f", ".f90")) else "c"
    return None


COMMENT = {"c": "//", "f": "!", "py": "//", "lua": "//"}
SUFFIX = {"c": ".c", "f": ".f", "py": ".py", "lua": ".lua"}


class Lib:
    """One corpus library, regenerated in fresh processes into scratch directories."""

    def __init__(self, name, tmp, doc=None):
        import yaml
        from tools import shroudrun
        self.name, self.tmp, self.n = name, tmp, 0
        self.reg = shroudrun.REG
        if doc is not None:         # a generated library (tools/gen/libgen.py)
            self.extra = []
            self.base = copy.deepcopy(doc)
        else:
            ent = [c for c in shroudrun.CORPUS if c[0] == name][0]
            self.extra = list(ent[2])
            with open(shroudrun.corpus_yaml(ent[1])) as fp:
                self.base = yaml.safe_load(fp)
        self.base.pop("splicer", None)
        self.base.pop("splicer_code", None)
        strip_decl_splicers(self.base)      # the baseline has no user splicer of any kind
        self.base.setdefault("options", {})["show_splicer_comments"] = True

    def run(self, doc, cmd_files=(), inproc=False):
        """-> (returncode, stdout, {relpath: text}, workdir); inproc: main_with_args in this very process"""
        import yaml
        from tools import shroudrun
        self.n += 1
        wd = os.path.join(self.tmp, "%s-%d" % (self.name, self.n))
        os.makedirs(wd)
        for sub in ("cf", "py", "lua", "log"):
            os.mkdir(os.path.join(wd, sub))
        ypath = os.path.join(wd, self.name.split("-")[0] + ".yaml")
        _install_yaml_styles()
        with open(ypath, "w") as fp:
            yaml.safe_dump(doc, fp, default_flow_style=False, sort_keys=False, width=10000)
        with open(ypath) as fp:
            if yaml.safe_load(fp) != doc:
                raise RuntimeError("YAML round trip of the generated input failed")
        cmd = ["--outdir-c-fortran", os.path.join(wd, "cf"), "--outdir-python", os.path.join(wd, "py"),
               "--outdir-lua", os.path.join(wd, "lua"), "--path", wd + ":" + self.tmp + ":" + self.reg,
               "--option", "debug_testsuite=true"] + self.extra
        if inproc:
            opts, lang, wv = shroudrun.parse_cmdline(self.extra)
            cfg, exc, out = shroudrun.run_inproc([ypath] + list(cmd_files), wd, logdir=os.path.join(wd, "log"),
                                                 options=["debug_testsuite=true"] + opts, language=lang, write_version=wv,
                                                 path=[wd, self.tmp, self.reg], outdir_c_fortran=os.path.join(wd, "cf"),
                                                 outdir_python=os.path.join(wd, "py"), outdir_lua=os.path.join(wd, "lua"))
            rc = 0 if exc is None else 1
            if exc is not None:
                out += "\n%s: %s" % (type(exc).__name__, exc)
        else:
            rc, out = shroudrun.run_fresh([ypath] + list(cmd_files), wd, cmd)
        files = {}
        for sub in ("cf", "py", "lua"):
            for fn in sorted(os.listdir(os.path.join(wd, sub))):
                with open(os.path.join(wd, sub, fn), encoding="utf-8") as fp:
                    files[sub + "/" + fn] = fp.read()
        return rc, out, files, wd

    def write_splicer_file(self, wd_name, lang, blocks, r, ext=None):
        """A splicer file with junk between blocks; returns its path."""
        path = os.path.join(self.tmp, "%s-%s%s" % (wd_name, lang, ext or SUFFIX[lang]))
        # marker lines as users write them: any comment leader, possibly text after the name (a closing */, words)
        c, tail = r.choice([("//", ""), ("!", ""), ("  //", ""), ("    ! ", ""), ("--", ""), ("/*", " */"), ("  /*", " */"),
                            ("//", "   trailing words"), ("!", " ! F90"), ("<!--", " -->")])
        k = "%s...%s" % (c.strip(), tail.strip())
        MARKER_STATS[k] = MARKER_STATS.get(k, 0) + 1
        with open(path, "w") as fp:
            fp.write("text before the first block is ignored\nsplicer begin not.a.marker.in.column.one\n")
            for name, body in blocks:
                fp.write("%s splicer begin %s%s\n" % (c, name, tail))
                for l in body:
                    fp.write(l + "\n")
                fp.write("%s splicer end %s%s\n" % (c, name, tail))
                fp.write(r.choice(["", "junk between blocks\n", "\n"]))
        return path


def strip_decl_splicers(node):
    if isinstance(node, dict):
        if "decl" in node:
            node.pop("splicer", None)
        for v in node.values():
            strip_decl_splicers(v)
    elif isinstance(node, list):
        for v in node:
            strip_decl_splicers(v)


def forced_getter(lang, name, body_now, body0):
    """generate.add_var_getter_setter passes the body as a declaration-level (force) splicer"""
    return bool(lang == "c" and body_now == body0 and re.search(r"\.method\.(get|set)_\w+$", name)
                and re.match(r"^\s*(return .*;|SH_this->\w+ = .*;)$", body0[0] if body0 else ""))


def harvest(files):
    """{lang: {name: [(rel, index, body)]}}"""
    res = {}
    for rel, text in files.items():
        lang = lang_of(rel)
        if lang is None:
            continue
        for k, (name, body) in enumerate(parse_blocks(text)):
            res.setdefault(lang, {}).setdefault(name, []).append((rel, k, body))
    return res


def nest(blocks):
    d = {}
    for name, body in blocks:
        parts = name.split(".")
        cur = d
        for p in parts[:-1]:
            cur = cur.setdefault(p, {})
        cur[parts[-1]] = list(body)
    return d


def nest_nulls(blocks, r):
    """as nest(), blank lines sometimes written as an empty YAML item (None)"""
    d = nest(blocks)

    def walk(n):
        for k, v in n.items():
            if isinstance(v, dict):
                walk(v)
            elif v and r.random() < 0.3:
                n[k] = _Lit("\n".join(v) + "\n")       # C_definitions: | ...
                SHAPE_STATS["splicer_code:block-scalar"] = SHAPE_STATS.get("splicer_code:block-scalar", 0) + 1
            elif r.random() < 0.5:
                n[k] = [None if x == "" else x for x in v]
                if any(x is None for x in n[k]):
                    SHAPE_STATS["splicer_code:null-item"] = SHAPE_STATS.get("splicer_code:null-item", 0) + 1
    walk(d)
    return d


def check_supplied(ctx, lib, how, files, base_h, supplied, replay):
    """supplied: {lang: {name: body}}.  Every occurrence of a supplied block holds the body (up to
    indentation / trailing blanks); every other block keeps the baseline default."""
    h = harvest(files)
    bad = 0
    for lang, names in base_h.items():
        for name, occ in names.items():
            now = h.get(lang, {}).get(name)
            if now is None or len(now) != len(occ):
                ctx.fail("e2e:%s:%s:block-vanished:%s" % (lib.name, how, lang), "block %s (%s) missing after regeneration with %s"
                         % (name, lang, how), dict(replay, name=name, lang=lang))
                bad += 1
                continue
            want = supplied.get(lang, {}).get(name)
            for (rel, k, body0), (_r, _k, body1) in zip(occ, now):
                ctx.count(1)
                if want is not None:
                    if [norm(x) for x in body1] != [norm(x) for x in want]:
                        if forced_getter(lang, name, body1, body0):
                            # generate.add_var_getter_setter passes the body as a declaration-level (force) splicer
                            ctx.fail("precedence:getter-setter-block-ignores-user-splicer",
                                     "the C block %s of a generated member getter/setter is emitted with markers but a user splicer "
                                     "for it is ignored (generate.py passes the body as a force splicer)" % name,
                                     dict(replay, name=name, lang=lang, file=rel))
                            continue
                        ctx.fail("e2e:%s:%s:user-body-not-carried:%s" % (lib.name, how, lang),
                                 "user body for %s (%s, supplied by %s) is not what stands between the markers in %s: %r != %r"
                                 % (name, lang, how, rel, body1, want), dict(replay, name=name, lang=lang, file=rel))
                        bad += 1
                    else:
                        ctx.nontrivial("%s:%s:%s:%s" % (lib.name, how, lang, name))
                elif body1 != body0:
                    ctx.fail("e2e:%s:%s:default-not-kept:%s" % (lib.name, how, lang),
                             "unsupplied block %s (%s) changed in %s" % (name, lang, rel), dict(replay, name=name, lang=lang, file=rel))
                    bad += 1
    return bad


def namespace_paths(doc):
    """[(scope names, flattened?)] of the namespaces declared in a library description."""
    out = []

    def walk(decls, scope, flat_default):
        for d in decls or []:
            if isinstance(d, dict) and isinstance(d.get("decl"), str) and d["decl"].split()[:1] == ["namespace"]:
                name = d["decl"].split()[1]
                o = d.get("options") or {}
                flat = o.get("F_flatten_namespace", o.get("flatten_namespace", flat_default))
                out.append((scope + [name], bool(flat)))
                walk(d.get("declarations"), scope + [name], flat)
    o = doc.get("options") or {}
    walk(doc.get("declarations"), [], o.get("F_flatten_namespace", o.get("flatten_namespace", False)))
    return out


def check_module_scope(ctx, libname, files, doc, rp):
    """A Fortran file is one module, i.e. one scope: its module-level blocks (file_top, module_use, module_top,
    additional_interfaces, additional_functions) carry the same `namespace.<scope>.` prefix (none for the library
    module); and every namespace that gets a module of its own has its module_top block under its own scope name."""
    seen = set()
    for rel, text in files.items():
        if lang_of(rel) != "f":
            continue
        prefixes = {}
        for name, _b in parse_blocks(text):
            seen.add(name)
            parts = name.split(".")
            # the module's own blocks only (blocks of functions of flattened namespaces carry the scope name that
            # happens to be on the stack; not this property's concern)
            if parts[-1] not in ("file_top", "module_use", "module_top", "additional_interfaces", "additional_functions"):
                continue
            if name.startswith("namespace.") and len(parts) == 3:
                prefixes.setdefault(".".join(parts[:2]), name)
            elif len(parts) == 1:
                prefixes.setdefault("", name)
        ctx.count(1)
        if len(prefixes) > 1:
            ctx.fail("names:fortran-module-mixes-scopes:%s" % libname,
                     "the Fortran module file %s holds blocks of different namespace scopes: %s"
                     % (rel, sorted(prefixes.values())), dict(rp, file=rel))
        elif prefixes:
            ctx.nontrivial("%s:scope:%s" % (libname, rel))
    if (doc.get("options") or {}).get("wrap_fortran", True) and any(lang_of(r_) == "f" for r_ in files):
        for scope, flat in namespace_paths(doc):
            if flat:
                continue
            want = "namespace.%s.module_top" % "::".join(scope)
            ctx.count(1)
            if want not in seen and any(n.startswith("namespace.") for n in seen):
                ctx.fail("names:namespace-module-block-missing:%s" % libname,
                         "namespace %s has a Fortran module of its own but no block %s" % ("::".join(scope), want),
                         dict(rp, block=want))


def _snake(name):
    return re.sub(r"([a-z0-9])([A-Z])", r"\1_\2", name).lower()


def declared_scopes(doc):
    """({class name: scope}, {function name in snake case: scope}) for names declared exactly once in the library."""
    classes, funcs = {}, {}

    def walk(decls, scope, in_class):
        for d in decls or []:
            if not (isinstance(d, dict) and isinstance(d.get("decl"), str)):
                continue
            words = d["decl"].replace("(", " ( ").split()
            if words[:1] == ["namespace"]:
                walk(d.get("declarations"), scope + [words[1]], False)
            elif words[:1] in (["class"], ["struct"]) and len(words) > 1:
                classes.setdefault(words[1], []).append("::".join(scope))
                walk(d.get("declarations"), scope, True)
            elif "(" in words and not in_class and words[0] not in ("typedef", "enum", "template"):
                fname = words[words.index("(") - 1].lstrip("*&")
                funcs.setdefault(_snake(fname), []).append("::".join(scope))
    walk(doc.get("declarations"), [], False)
    return ({k: v[0] for k, v in classes.items() if len(v) == 1}, {k: v[0] for k, v in funcs.items() if len(v) == 1})


def hollow_classes(doc):
    """[(scope, name)] of classes declared without members: Shroud has nothing of its own for their C files."""
    out = []

    def walk(decls, scope):
        for d in decls or []:
            if not (isinstance(d, dict) and isinstance(d.get("decl"), str)):
                continue
            w = d["decl"].split()
            if w[:1] == ["namespace"]:
                walk(d.get("declarations"), scope + [w[1]])
            elif w[:1] == ["class"] and len(w) == 2 and not d.get("declarations"):
                out.append((scope, w[1]))
    walk(doc.get("declarations"), [])
    return out


def check_hollow(ctx, lib, libname, base_doc, base_h, r, rp):
    """User code for the file-level C blocks of a class whose files hold nothing else: the files are written for it."""
    kinds = [k for k in ("CXX_declarations", "C_declarations", "CXX_definitions", "C_definitions")
             if any(re.match(r"^(namespace\.[^.]+\.)?class\.\w+\.%s$" % k, n) for n in base_h.get("c", {}))]
    hollow = hollow_classes(base_doc)
    if not kinds or not hollow:
        return
    sup = {}
    for scope, cname in hollow:
        for k in kinds:
            name = ("namespace.%s." % "::".join(scope) if scope else "") + "class.%s.%s" % (cname, k)
            if name not in base_h.get("c", {}):
                sup[name] = gen_clean_body(r, "hollow%d" % len(sup), "hollow-class")
    if not sup:
        return
    route = r.choice(["cmdline-file", "splicer_code"])
    doc = copy.deepcopy(base_doc)
    cmd = []
    if route == "cmdline-file":
        cmd = [lib.write_splicer_file("%s-hollow-%d" % (libname, lib.n), "c", sorted(sup.items()), r)]
    else:
        doc["splicer_code"] = {"c": nest(sorted(sup.items()))}
    rc, out, files, _ = lib.run(doc, cmd_files=cmd)
    if rc != 0:
        ctx.fail("e2e:%s:hollow-class:run-failed" % libname, "regeneration failed: " + out[-400:], rp)
        return
    h = harvest(files).get("c", {})
    for name, body in sorted(sup.items()):
        ctx.count(1)
        occ = h.get(name, [])
        if not any([norm(x) for x in b] == [norm(x) for x in body] for (_f, _k, b) in occ):
            ctx.fail("e2e:%s:hollow-class:user-body-vanished" % libname,
                     "user code for block %s (supplied by %s) of a class with no generated C code appears nowhere in the output"
                     % (name, route), dict(rp, block=name, body=body, route=route))
        else:
            ctx.nontrivial("%s:hollow:%s" % (libname, name))


def template_classes(doc):
    out = set()

    def walk(decls):
        for d in decls or []:
            if isinstance(d, dict) and isinstance(d.get("decl"), str):
                m = re.match(r"\s*template\s*<[^>]*>\s*(class|struct)\s+(\w+)", d["decl"])
                if m or (d.get("cxx_template") and re.match(r"\s*(class|struct)\s+(\w+)", d["decl"])):
                    out.add((m or re.match(r"\s*(class|struct)\s+(\w+)", d["decl"])).group(2))
                walk(d.get("declarations"))
    walk(doc.get("declarations"))
    return out


def check_duplicates(ctx, libname, files, rp, doc=None):
    """Within one generated file a block name names one block (else one user body lands in two places and the file
    cannot be read back as a splicer file)."""
    tmpl = template_classes(doc or {})
    for rel, text in files.items():
        lang = lang_of(rel)
        if lang is None:
            continue
        seen = set()
        for name, _b in parse_blocks(text):
            ctx.count(1)
            parts = name.split(".")
            if name in seen and "class" in parts[:-1] and parts[parts.index("class") + 1] in tmpl:
                ctx.fail("names:template-instantiations-share-block-names:%s" % libname,
                         "the instantiations of class template %s share their block names (%s twice in %s)"
                         % (parts[parts.index("class") + 1], name, rel), dict(rp, file=rel, block=name))
            elif name in seen:
                ctx.fail("names:duplicate-block-name-in-file:%s:%s:%s" % (libname, lang, name),
                         "the generated file %s holds two blocks named %s" % (rel, name), dict(rp, file=rel, block=name))
            seen.add(name)


def check_block_scopes(ctx, libname, files, doc, rp):
    """A Fortran block of a class or function declared in namespace S is named namespace.<S>... (none at library
    level), also when S is flattened into an enclosing module; never after a sibling or a place holder."""
    classes, funcs = declared_scopes(doc)
    for rel, text in files.items():
        if lang_of(rel) != "f":
            continue
        for name, _b in parse_blocks(text):
            parts = name.split(".")
            scope, rest = ("", parts)
            if parts[0] == "namespace" and len(parts) > 2:
                scope, rest = parts[1], parts[2:]
            want = None
            if rest[0] == "class" and len(rest) > 1 and rest[1] in classes:
                want = classes[rest[1]]
            elif rest[0] == "function" and len(rest) == 2:
                cands = [f for f in funcs if rest[1] == f] or [f for f in funcs if rest[1].startswith(f + "_")]
                if len(cands) == 1:
                    want = funcs[cands[0]]
            if want is None:
                continue
            ctx.count(1)
            if scope != want:
                ctx.fail("names:fortran-block-under-wrong-namespace:%s" % libname,
                         "Fortran block %s in %s belongs to a declaration of namespace '%s' but is named under '%s'"
                         % (name, rel, want, scope), dict(rp, file=rel, block=name))
            elif want:
                ctx.nontrivial("%s:blockscope:%s" % (libname, name))


def func_decls(doc):
    out = []
    for d in doc.get("declarations", []) or []:
        if isinstance(d, dict) and isinstance(d.get("decl"), str) and "(" in d["decl"] and "splicer" not in d \
                and not d["decl"].lstrip().startswith(("class", "struct", "namespace", "typedef", "enum", "template")):
            out.append(d)
    return out


def gen_ns_lib(r, name):
    """A generated C++ library whose namespaces nest 2-3 deep, with functions and classes inside namespaces,
    F_flatten_namespace off or on (globally or for one namespace)."""
    from tools.gen import libgen
    cnt = [0]

    def uniq(prefix):
        cnt[0] += 1
        return "%s%d" % (prefix, cnt[0])

    def members(depth):
        out = [libgen.gen_function(r, "c++", uniq("fn"), nargs=r.randrange(0, 3)) for _ in range(r.randrange(0, 3))]
        if r.random() < 0.45:
            out.append(libgen.gen_class(r, uniq("Cls")))
        if r.random() < 0.3:
            out.append({"decl": "class %s" % uniq("Hollow")})       # nothing generated for its C files
        if r.random() < 0.4:
            # a plain struct (NumPy descriptor in Python), in front of the classes and functions of its scope
            out.insert(0, {"decl": "struct %s" % uniq("Pt"), "declarations": [{"decl": "int x"}, {"decl": "double y"}]})
        return out

    def ns(depth, maxdepth):
        d = {"decl": "namespace %s" % uniq("ns"), "declarations": members(depth)}
        if depth < maxdepth:
            kids = [ns(depth + 1, maxdepth) for _ in range(r.randrange(1, 3))]
            # nested namespaces before or after the namespace's own functions
            d["declarations"] = kids + d["declarations"] if r.random() < 0.5 else d["declarations"] + kids
        if r.random() < 0.15:
            d["options"] = {"F_flatten_namespace": True}
        return d

    maxdepth = r.choice([2, 3])
    decls = members(0) + [ns(1, maxdepth) for _ in range(r.randrange(1, 3))]
    flat = r.random() < 0.25
    opts = {"wrap_python": r.random() < 0.7, "wrap_lua": r.random() < 0.4}
    if flat:
        opts["F_flatten_namespace"] = True
    key = "depth%d:%s" % (maxdepth, "flatten" if flat else "modules")
    NS_STATS[key] = NS_STATS.get(key, 0) + 1
    return libgen.Lib(name, "c++", decls, opts).todict()


def oracle_e2e(ctx, libname, tmp, doc=None):
    r = common.rng("c12-e2e-" + libname)
    lib = Lib(libname, tmp, doc)
    base_doc = lib.base
    rc, out, base_files, _ = lib.run(base_doc)
    if rc != 0:
        if doc is not None:     # a generated description Shroud does not accept is not this property's business
            ctx.note("e2e_%s_skipped" % libname, out[-300:])
            return
        raise RuntimeError("baseline run of %s failed: %s" % (libname, out[-800:]))
    base_h = harvest(base_files)
    # names usable as user keys: not a strict dotted prefix of another one
    usable = {}
    for lang, names in base_h.items():
        ns = sorted(names)
        usable[lang] = [n for n in ns if not any(m.startswith(n + ".") for m in ns)]
    ctx.note("e2e_%s_blocks" % libname, {l: len(v) for l, v in usable.items()})
    tok = [0]

    def bodies_for(frac, route):
        sup = {}
        for lang, ns in usable.items():
            for n in ns:
                if r.random() < frac:
                    sup.setdefault(lang, {})[n] = gen_body(r, route)
        return sup

    def files_for(sup, tag, yaml_route=False):
        """yaml_route: the file is named under a `splicer:` key, so its extension need not match the language
        (regression/input/example.yaml: `py: [pysplicer.c]`)."""
        res = {}
        for lang, b in sup.items():
            ext = None
            if yaml_route:
                ext = r.choice([SUFFIX[lang]] + [e for e in (".c", ".f", ".py", ".lua", ".txt", ".F90", ".hpp") if e != SUFFIX[lang]])
                k = "%s-key:%s" % (lang, ext)
                EXT_STATS[k] = EXT_STATS.get(k, 0) + 1
            res[lang] = lib.write_splicer_file("%s-%s-%d" % (libname, tag, lib.n), lang, sorted(b.items()), r, ext)
        return res

    rp = {"library": libname, "seed": common.seed()}
    check_module_scope(ctx, libname, base_files, base_doc, rp)
    check_block_scopes(ctx, libname, base_files, base_doc, rp)
    check_duplicates(ctx, libname, base_files, rp, base_doc)
    check_hollow(ctx, lib, libname, base_doc, base_h, r, rp)
    # --- every harvested block at once (file-level blocks of every namespace module included), command line
    supall = bodies_for(1.1, "cmdline-file-all")
    pall = files_for(supall, "all")
    rc, out, files0, _ = lib.run(base_doc, cmd_files=list(pall.values()))
    if rc != 0:
        ctx.fail("e2e:%s:cmdline-all:run-failed" % libname, "regeneration with a body for every block failed: " + out[-400:], rp)
    else:
        check_supplied(ctx, lib, "cmdline-file-all", files0, base_h, supall, dict(rp, supplied="all blocks"))
        check_module_scope(ctx, libname, files0, base_doc, rp)
    # --- way 1: splicer files on the command line
    sup = bodies_for(0.5, "cmdline-file")
    paths = files_for(sup, "cmd")
    rc, out, files1, _ = lib.run(base_doc, cmd_files=list(paths.values()))
    if rc != 0:
        ctx.fail("e2e:%s:cmdline:run-failed" % libname, "regeneration with command-line splicer files failed: " + out[-400:], rp)
    else:
        check_supplied(ctx, lib, "cmdline-file", files1, base_h, sup, dict(rp, supplied=sup))
    # --- way 2: splicer files named in the YAML file
    sup2 = bodies_for(0.5, "yaml-file")
    paths2 = files_for(sup2, "yaml", True)
    doc = copy.deepcopy(base_doc)
    doc["splicer"] = {lang: [os.path.basename(p)] for lang, p in paths2.items()}
    rc, out, files2, _ = lib.run(doc)       # --path contains the scratch dir? no: files live in lib.tmp
    if rc != 0:
        ctx.fail("e2e:%s:yaml-file:run-failed" % libname, "regeneration with YAML splicer files failed: " + out[-400:], rp)
    else:
        check_supplied(ctx, lib, "yaml-file", files2, base_h, sup2, dict(rp, supplied=sup2))
    # --- way 3: splicer_code
    sup3 = bodies_for(0.5, "splicer_code")
    doc = copy.deepcopy(base_doc)
    doc["splicer_code"] = {lang: nest_nulls(sorted(b.items()), r) for lang, b in sup3.items()}
    rc, out, files3, _ = lib.run(doc)
    if rc != 0:
        ctx.fail("e2e:%s:splicer_code:run-failed" % libname, "regeneration with splicer_code failed: " + out[-400:], rp)
    else:
        check_supplied(ctx, lib, "splicer_code", files3, base_h, sup3, dict(rp, supplied=sup3))
    # --- combination: disjoint names from a command-line file, a YAML file and splicer_code
    supa, supb, supc = {}, {}, {}
    for lang, ns in usable.items():
        for n in ns:
            which = r.choice([supa, supb, supc, None])
            if which is not None:
                which.setdefault(lang, {})[n] = gen_body(r, "combined")
    pa, pb = files_for(supa, "mixa"), files_for(supb, "mixb", True)
    doc = copy.deepcopy(base_doc)
    doc["splicer"] = {lang: [os.path.basename(p)] for lang, p in pb.items()}
    rc, out, files4, _ = lib.run(doc, cmd_files=list(pa.values()))
    both = {l: dict(supa.get(l, {}), **supb.get(l, {})) for l in set(supa) | set(supb)}
    if rc != 0:
        ctx.fail("e2e:%s:files-combined:run-failed" % libname, "regeneration with both kinds of splicer files failed: " + out[-400:], rp)
    else:
        check_supplied(ctx, lib, "cmdline+yaml-files", files4, base_h, both, dict(rp, supplied=both))
    doc["splicer_code"] = {lang: nest_nulls(sorted(b.items()), r) for lang, b in supc.items()}
    rc, out, files5, _ = lib.run(doc, cmd_files=list(pa.values()))
    if rc != 0:
        ctx.fail("e2e:%s:all-combined:run-failed" % libname, "regeneration with files and splicer_code failed: " + out[-400:], rp)
    else:
        # per language: the property wants all three sources present
        h5 = harvest(files5)
        expected = {}
        for lang in sorted(set(both) | set(supc)):
            if supc.get(lang):
                expected[lang] = supc[lang]
                lost = [n for n, b in both.get(lang, {}).items()
                        if any([norm(x) for x in bd] != [norm(x) for x in b] and not forced_getter(lang, n, bd, b0)
                               for (_f, _k, bd), (_g, _j, b0) in zip(h5.get(lang, {}).get(n, []), base_h[lang][n]))]
                ctx.count(len(both.get(lang, {})))
                if lost:
                    ctx.fail("precedence:splicer_code-discards-file-splicers:%s" % lang,
                             "splicer_code with an entry for '%s' discards blocks supplied by splicer files for that language "
                             "(e.g. %s in %s)" % (lang, lost[0], libname), dict(rp, lang=lang, lost=lost[:5]))
                else:
                    expected[lang] = dict(both.get(lang, {}), **supc[lang])
            else:
                expected[lang] = both[lang]
        check_supplied(ctx, lib, "files+splicer_code", files5, base_h, expected, dict(rp, supplied=expected))
    # --- conflict: the same name from a file and from splicer_code -> splicer_code wins, completely
    supd = bodies_for(0.3, "conflict-file")
    supe = {lang: {n: gen_body(r, "conflict-splicer_code") for n in b} for lang, b in supd.items()}
    pd = files_for(supd, "conf")
    doc = copy.deepcopy(base_doc)
    doc["splicer_code"] = {lang: nest(sorted(b.items())) for lang, b in supe.items()}
    # the file side of the conflict comes from the command line for some languages, from YAML splicer: for the others
    clangs = sorted(pd)
    if clangs[1::2]:
        doc["splicer"] = {lang: [os.path.basename(pd[lang])] for lang in clangs[1::2]}
    rc, out, files6, _ = lib.run(doc, cmd_files=[pd[lang] for lang in clangs[::2]])
    if rc != 0:
        ctx.fail("e2e:%s:conflict:run-failed" % libname, "regeneration with conflicting sources failed: " + out[-400:], rp)
    else:
        check_supplied(ctx, lib, "splicer_code-over-file", files6, base_h, supe, dict(rp, supplied=supe))
    # --- declaration-level splicer (force), then in conflict with a file and splicer_code
    doc = copy.deepcopy(base_doc)
    decls = func_decls(doc)
    r.shuffle(decls)
    forced = {}
    ndecl = 8
    for k, d in enumerate(decls[:ndecl]):
        sp = {}
        for key in ("c", "c_buf", "c_cfi", "f", "py"):      # one key per wrapper variant of the declaration
            body = gen_clean_body(r, "decl%d%s" % (k, key), "declaration-id")
            forced["tok_decl%d%s();" % (k, key)] = body
            sp[key] = body
        d["splicer"] = sp
    rc, out, files7, _ = lib.run(doc)
    found = {}
    if rc != 0:
        ctx.fail("e2e:%s:declaration:run-failed" % libname, "regeneration with declaration-level splicers failed: " + out[-400:], rp)
    else:
        for rel, text in files7.items():
            for name, body in parse_blocks(text):
                for t, want in forced.items():
                    if any(t in l for l in body):
                        ctx.count(1)
                        found.setdefault(t, []).append((lang_of(rel), name))
                        if [norm(x) for x in body] != [norm(x) for x in want]:
                            ctx.fail("e2e:%s:declaration:user-body-not-carried" % libname,
                                     "declaration-level splicer for block %s in %s not carried: %r != %r" % (name, rel, body, want),
                                     dict(rp, name=name, file=rel))
                        else:
                            ctx.nontrivial("%s:decl:%s:%s" % (libname, rel, name))
        # a splicer on a declaration is the body of that declaration's block in every wrapper that is produced:
        # it may not vanish (it forces the wrapper where the function could otherwise be called directly)
        langs_out = {lang_of(rel) for rel in files7}
        alltext = "\n".join(files7.values())
        base_py_names = {n.split(".")[-1] for n in base_h.get("py", {})}
        base_text = {l: "\n".join(t for rel, t in base_files.items() if lang_of(rel) == l).lower() for l in ("c", "f")}

        def wrapped_in(lang_, orig, snake):
            # the declaration is part of that language's output at all (a wrapper, or an interface to call it directly)
            return bool(orig) and (orig.lower() in base_text[lang_] or snake in base_text[lang_])

        for k, dk in enumerate(decls[:ndecl]):
            words = dk["decl"].replace("(", " ( ").split()
            orig = words[words.index("(") - 1].lstrip("*&") if "(" in words else ""
            fname = _snake(orig)
            present = {key: ("tok_decl%d%s();" % (k, key)) in alltext for key in ("c", "c_buf", "c_cfi", "f", "py")}
            gone = []
            off = {k_: (dk.get("options") or {}).get(k_) is False for k_ in ("wrap_c", "wrap_fortran", "wrap_python")}
            if "f" in langs_out and not present["f"] and wrapped_in("f", orig, fname) and not off["wrap_fortran"]:
                gone.append(("f", "Fortran"))
            if "c" in langs_out and not (present["c"] or present["c_buf"] or present["c_cfi"]) and wrapped_in("c", orig, fname) and not off["wrap_c"]:
                gone.append(("c", "C"))
            # Python wraps a subset of the declarations: only those that have a block without the splicer
            if "py" in langs_out and not present["py"] and not off["wrap_python"] and any(n == fname or n.startswith(fname + "_") for n in base_py_names):
                gone.append(("py", "Python"))
            ctx.count(3)
            for key, lname in gone:
                ctx.fail("e2e:%s:declaration:user-body-vanished:%s" % (libname, key),
                         "the `splicer: %s:` lines of declaration %r appear nowhere in the %s output"
                         % (key, dk["decl"], lname), dict(rp, decl=dk["decl"], key=key))
        # every occurrence of a token outside a block would be a leak
        conflict = {}
        for t, lst in found.items():
            for lang, name in lst:
                tok[0] += 1
                conflict.setdefault(lang, {})[name] = gen_clean_body(r, "loser%d" % tok[0], "declaration-loser")
        if conflict:
            langs = sorted(conflict)
            pf = files_for({l: conflict[l] for l in langs[::2]}, "force")
            doc2 = copy.deepcopy(doc)
            if langs[1::2]:
                doc2["splicer_code"] = {l: nest(sorted(conflict[l].items())) for l in langs[1::2]}
            rc, out, files8, _ = lib.run(doc2, cmd_files=list(pf.values()))
            if rc != 0:
                ctx.fail("e2e:%s:declaration-conflict:run-failed" % libname, "regeneration failed: " + out[-400:], rp)
            else:
                for rel, text in files8.items():
                    for name, body in parse_blocks(text):
                        if any("tok_loser" in l for l in body):
                            ctx.fail("precedence:%s:declaration-splicer-overridden" % libname,
                                     "block %s in %s shows the file/splicer_code body although the declaration has a splicer"
                                     % (name, rel), dict(rp, name=name, file=rel))
                        for t, want in forced.items():
                            if any(t in l for l in body):
                                ctx.count(1)
                                if [norm(x) for x in body] != [norm(x) for x in want]:
                                    ctx.fail("precedence:%s:declaration-splicer-mangled" % libname,
                                             "block %s in %s: %r != %r" % (name, rel, body, want), dict(rp, name=name, file=rel))
    ctx.note("e2e_%s_declaration_blocks" % libname, sum(len(v) for v in found.values()))
    # --- a random subset of the keys per declaration: a body arrives only in the block(s) of its own key
    if found:
        place = {}      # token of the identification run -> {(file, block name)}
        for rel, text in files7.items():
            for name, body in parse_blocks(text):
                for t in forced:
                    if any(t in l for l in body):
                        place.setdefault(t, set()).add((rel, name))
        docc = copy.deepcopy(base_doc)
        declsc = func_decls(docc)
        allowed = {}
        for k, dk in enumerate(decls[:ndecl]):
            d = [x for x in declsc if x["decl"] == dk["decl"]][0]
            keys = [key for key in ("c", "c_buf", "c_cfi", "f", "py") if r.random() < 0.5] or ["c"]
            KEYSET_STATS["+".join(keys)] = KEYSET_STATS.get("+".join(keys), 0) + 1
            sp = {}
            for key in keys:
                t = "tok_sub%d%s();" % (k, key)
                sp[key] = [t] + ([r.choice([l for l in CLEAN_VOCAB if l.strip()])] if r.random() < 0.5 else [])
                allowed[t] = place.get("tok_decl%d%s();" % (k, key), set())
            d["splicer"] = sp
        rc, out, filesc, _ = lib.run(docc)
        if rc != 0:
            ctx.fail("e2e:%s:declaration-subset:run-failed" % libname, "regeneration failed: " + out[-400:], rp)
        else:
            for rel, text in filesc.items():
                for name, body in parse_blocks(text):
                    for t, ok_places in allowed.items():
                        if any(t in l for l in body):
                            ctx.count(1)
                            if (rel, name) not in ok_places:
                                key = re.match(r"tok_sub\d+(\w+)\(\);", t).group(1)
                                ctx.fail("e2e:%s:declaration:user-body-in-other-block:%s" % (libname, key),
                                         "the `splicer: %s:` lines of a declaration arrive in block %s of %s, which that key does "
                                         "not name" % (key, name, rel), dict(rp, block=name, file=rel, key=key))
                            else:
                                ctx.nontrivial("%s:declsubset:%s:%s" % (libname, rel, name))
    # --- declaration-level splicers of every body shape in every YAML form; blocks identified by the token run above
    if found:
        where = {}      # token -> [(rel, index in file)]
        for rel, text in files7.items():
            for idx, (name, body) in enumerate(parse_blocks(text)):
                for t in forced:
                    if any(t in l for l in body):
                        where.setdefault(t, []).append((rel, idx, name))
        docb = copy.deepcopy(base_doc)
        declsb = func_decls(docb)
        # same declarations as in the token run (same shuffle: match by decl text)
        chosen = [d["decl"] for d in decls[:ndecl]]
        expect = {}
        for k, text in enumerate(chosen):
            d = [x for x in declsb if x["decl"] == text][0]
            sp = {}
            for key in ("c", "f", "py"):
                body = gen_body(r, "declaration")
                if body:
                    val, form, want = decl_value(r, body)
                else:
                    val, form, want = [], "list", []
                shape = "empty" if not body else ("one-line" if len(body) == 1 else "multi-line")
                fk = "%s:%s" % (form, shape)
                FORM_STATS[fk] = FORM_STATS.get(fk, 0) + 1
                sp[key] = val
                expect["tok_decl%d%s();" % (k, key)] = (want, form)
            for key in ("c_buf", "c_cfi"):      # same wrappers forced as in the identification run
                sp[key] = ["tok_keep();"]
            d["splicer"] = sp
        rc, out, filesb, _ = lib.run(docb)
        if rc != 0:
            ctx.fail("e2e:%s:declaration-forms:run-failed" % libname, "regeneration failed: " + out[-400:], rp)
        else:
            for t, places in where.items():
                if t not in expect:
                    continue
                want, form = expect[t]
                for rel, idx, name in places:
                    blocks = parse_blocks(filesb.get(rel, ""))
                    ctx.count(1)
                    if idx >= len(blocks) or blocks[idx][0] != name:
                        ctx.fail("e2e:%s:declaration-forms:block-vanished" % libname, "block %s in %s vanished" % (name, rel),
                                 dict(rp, name=name, file=rel))
                    elif [norm(x) for x in blocks[idx][1]] != [norm(x) for x in want]:
                        ctx.fail("e2e:%s:declaration-forms:user-body-not-carried" % libname,
                                 "declaration-level splicer (YAML form %s) for block %s in %s not carried: %r != %r"
                                 % (form, name, rel, blocks[idx][1], want), dict(rp, name=name, file=rel, form=form, want=want))
                    else:
                        ctx.nontrivial("%s:declform:%s:%s:%s" % (libname, form, rel, name))
    # --- feed generated files back as splicer files: same code
    if rc == 0 and files1:
        feed, seen, fed_files = [], set(), set()
        for rel, text in sorted(files1.items()):
            lang = lang_of(rel)
            names = [(lang, n) for n, _ in parse_blocks(text)]
            if not names or lang is None or any(x in seen for x in names) or len(set(names)) != len(names):
                continue
            seen.update(names)
            fed_files.add(rel)
            FEED_STATS[lang] = FEED_STATS.get(lang, 0) + 1
            p = os.path.join(tmp, "%s-feed-%d%s" % (libname, len(feed), SUFFIX[lang]))
            with open(p, "w", encoding="utf-8") as fp:
                fp.write(text)
            feed.append(p)
        rc, out, files9, _ = lib.run(base_doc, cmd_files=feed)
        if rc != 0:
            ctx.fail("e2e:%s:feedback:run-failed" % libname, "regeneration from the generated files failed: " + out[-400:], rp)
        else:
            fed = {x for x in seen}
            # (files that share block names with a fed file -- class template instantiations -- are not fed
            #  and not compared: one name then stands for several different blocks)
            for rel in sorted(fed_files):
                a = [norm(x) for x in files1[rel].split("\n")]
                b = [norm(x) for x in files9.get(rel, "").split("\n")]
                ctx.count(1)
                if a != b:
                    # only blocks that were fed back must agree; locate the first differing block
                    ba, bb = parse_blocks(files1[rel]), parse_blocks(files9.get(rel, ""))
                    lang = lang_of(rel)
                    diff = [n for (n, x), (m, y) in zip(ba, bb) if (lang, n) in fed and [norm(q) for q in x] != [norm(q) for q in y]]
                    if diff or len(ba) != len(bb):
                        why = classify_feedback(files1[rel], diff[0] if diff else None)
                        ctx.fail("feedback:%s:%s" % (libname, why),
                                 "generated file %s fed back as a splicer file does not reproduce block %s (%s)"
                                 % (rel, diff[0] if diff else "?", why), dict(rp, file=rel, block=diff[:3]))
                else:
                    ctx.nontrivial("%s:feedback:%s" % (libname, rel))


def classify_feedback(text, name):
    for n, body in parse_blocks(text):
        if n == name:
            if any(l.rstrip().endswith("+") for l in body):
                return "trailing-plus"
            if any("\t" in l.strip() or "\f" in l for l in body):
                return "interior-tab"
            if any(l[:1] and l[:1] in "@^+-" for l in body):
                return "column-one-directive"
    return "other"


def oracle_carriage(ctx, tmp):
    """Unit level, real code only: file -> get_splicers -> _create_splicer -> write_lines."""
    from shroud import splicer
    r = common.rng("c12-carriage")
    cases = [("clean", gen_body(r, "unit-file")) for k in range(300 if ctx.tier == "thorough" else 120)]
    cases += [("trailing-plus", ["i = i +", "next();"]), ("interior-tab", ["call foo(a,\tb)"]), ("interior-ff", ["a\fb"])]
    for kind, body in cases:
        fname = os.path.join(tmp, "carriage.c")
        with open(fname, "w", newline="") as fp:
            c, tail = r.choice([("//", ""), ("/*", " */"), ("!", " trailing text"), ("  --", "")])
            fp.write("%s splicer begin function.foo%s\n" % (c, tail) + "".join(l + "\n" for l in body)
                     + "%s splicer end function.foo%s\n" % (c, tail))
        d = {}
        splicer.get_splicers(fname, d)
        ind = r.randrange(0, 3)
        nodefault = r.random() < 0.5
        resp = real_ws(True, "//", d, r.choice([20, 72]), ind, "    ", "&",
                       [("push", "function"), ("cr", "foo", None if nodefault else ["default();"], None),
                        ("cr", "nouser", None, None), ("pop",), ("cr", "bar", ["default();"], None)])
        ctx.count(1)
        if not resp.startswith("ok "):
            ctx.fail("carriage:%s:crash" % kind, "emission raised: " + resp, {"body": body})
            continue
        t = resp.split(" ")
        lines = common.decs(t[5])
        got = parse_blocks("\n".join(lines))
        want = [("function.foo", [norm(x) for x in body]), ("function.nouser", []), ("bar", ["default();"])]
        # the return value tells the caller whether the block holds code (wrapc writes a class file only then):
        # true for a user body (also an empty one) and for a default, false when there is neither
        if t[1] != "f101":
            ctx.fail("carriage:added-flag", "_create_splicer returned %s for (user block, no user and no default, default); "
                     "expected True False True" % t[1][1:], {"body": body, "default_given": not nodefault})
        if [(n, [norm(x) for x in b]) for n, b in got] != want or int(t[4]) != ind:
            ctx.fail("carriage:%s" % kind, "user body %r comes out as %r, indentation depth %d -> %s"
                     % (body, got, ind, t[4]), {"body": body})
        elif kind == "clean":
            ctx.nontrivial("carriage:" + repr(body))


def oracle_sequence(ctx, tmp, names):
    """Several libraries wrapped one after the other in ONE process (shroud.main.main_with_args / create_wrapper as a
    library call): the user code of one run may not show up in a later run that did not supply it."""
    r = common.rng("c12-sequence")
    toks = []
    for step, libname in enumerate(names):
        lib = Lib(libname, tmp)
        lib.name = "%s-seq%d" % (libname, step)
        rc, out, base_files, _ = lib.run(lib.base)             # fresh process: what this library looks like on its own
        if rc != 0:
            raise RuntimeError("baseline run of %s failed: %s" % (libname, out[-400:]))
        base_h = harvest(base_files)
        give = step % 2 == 0                                    # every other run supplies user code for every block
        doc = copy.deepcopy(lib.base)
        cmd = []
        sup = {}
        if give:
            for lang, ns in base_h.items():
                ns = [n for n in sorted(ns) if not any(m.startswith(n + ".") for m in ns)]
                for n in ns:
                    t = "seq%dx%d" % (step, len(toks))
                    toks.append("tok_%s();" % t)
                    sup.setdefault(lang, {})[n] = gen_clean_body(r, t, "sequence")
            langs = sorted(sup)
            for lang in langs[::2]:
                cmd.append(lib.write_splicer_file("%s-seq-%d" % (libname, step), lang, sorted(sup[lang].items()), r))
            if langs[1::2]:
                doc["splicer_code"] = {lang: nest(sorted(sup[lang].items())) for lang in langs[1::2]}
        rc, out, files, _ = lib.run(doc, cmd_files=cmd, inproc=True)
        rp = {"sequence": list(names), "step": step, "library": libname, "supplies_user_code": give}
        ctx.count(1)
        if rc != 0:
            ctx.fail("sequence:%d:%s:run-failed" % (step, libname), "in-process run %d (%s) failed: %s" % (step, libname, out[-300:]), rp)
            continue
        if give:
            check_supplied(ctx, lib, "in-process-run-%d" % step, files, base_h, sup, rp)
        else:
            leaked = [t for t in toks if any(t in text for text in files.values())]
            h = harvest(files)
            changed = [(lang, n) for lang, ns in base_h.items() for n, occ in ns.items()
                       if [b for (_f, _k, b) in occ] != [b for (_f, _k, b) in h.get(lang, {}).get(n, [])]]
            if leaked or changed:
                ctx.fail("sequence:user-code-of-an-earlier-run-appears",
                         "library %s wrapped in the same process after %s (which had user splicers) and supplying none: "
                         "%d of its blocks differ from its own output, e.g. %s; foreign user code present: %s"
                         % (libname, names[:step], len(changed), changed[:2], leaked[:2]), rp)
            else:
                ctx.nontrivial("sequence:%d:%s" % (step, libname))


def oracle_reader(ctx, tmp):
    """Real get_splicers only: no supplied body may vanish without a report."""
    from shroud import splicer
    fname = os.path.join(tmp, "reader.c")
    for key, names in [("reader:repeated-dotted-name", ["a.b", "a.b"]), ("reader:repeated-name", ["a", "a"]),
                       ("reader:shorter-name-replaces-subtree", ["a.b.c", "a.b"]), ("reader:two-files", None)]:
        d = {}
        try:
            if names is None:
                for n, body in (("x.y", "first"), ("x.y", "second")):
                    with open(fname, "w") as fp:
                        fp.write("// splicer begin %s\n%s\n// splicer end %s\n" % (n, body, n))
                    splicer.get_splicers(fname, d)
            else:
                with open(fname, "w") as fp:
                    for k, n in enumerate(names):
                        fp.write("// splicer begin %s\nbody%d\n// splicer end %s\n" % (n, k, n))
                splicer.get_splicers(fname, d)
        except Exception:  # noqa  reported to the user: fine for this property
            ctx.count(1)
            continue
        ctx.count(1)
        flat = [b for k, p, b in flatten(d) if k == "L"]
        if len(flat) < 2:
            ctx.fail(key, "get_splicers kept %r of two supplied bodies without any report" % flat, {"names": names})


def static_scan(ctx):
    """No emitter writes splicer marker comments except _create_splicer."""
    hits = []
    for fn in ("wrapc.py", "wrapf.py", "wrapp.py", "wrapl.py", "util.py", "fcfmt.py", "generate.py", "typemap.py", "whelpers.py"):
        p = os.path.join(common.REPO, "shroud", fn)
        if not os.path.exists(p):
            continue
        for ln, line in enumerate(open(p, encoding="utf-8"), 1):
            if re.search(r"splicer (begin|end)", line) and not line.lstrip().startswith("#"):
                hits.append("%s:%d" % (fn, ln))
    ctx.note("marker_emitters", hits)
    ctx.count(1)
    other = [h for h in hits if not h.startswith("util.py")]
    if other or len([h for h in hits if h.startswith("util.py")]) != 2:
        ctx.fail("static:marker-written-outside-_create_splicer", "splicer marker text written at %s" % hits, {"hits": hits})


def run(ctx):
    thorough = ctx.tier == "thorough"
    SHAPE_STATS.clear()
    FORM_STATS.clear()
    EXT_STATS.clear()
    NS_STATS.clear()
    FEED_STATS.clear()
    KEYSET_STATS.clear()
    MARKER_STATS.clear()
    ok = ctx.lean(MODULES, THEOREMS, extra_targets=("drv_splicer",))
    ctx.cov["trusted_base"] = [
        "Lean 4.33.0 kernel; axioms within {propext, Classical.choice, Quot.sound}",
        "hand-written model Model/Splicer.lean (flat dictionaries, reader, stack, _create_splicer with _literal_lines, "
        "collectMain, wrapNs) + Model/Lines.lean, tied by differential correspondence on generated inputs",
        "Python str.rstrip/split/isspace modelled on ASCII + U+0085/U+00A0 code points only; files are UTF-8, universal newlines",
        "PyYAML for writing the generated library descriptions (round trip of every generated document is asserted)",
    ]
    ctx.cov["rule"] = ("tie: generated splicer files (well-formed stream with junk, malformed stream, CR/CRLF terminators, pre-filled "
                       "dictionaries); add_splicer_code; real main_with_args with recording wrappers (command-line files, YAML files "
                       "through several path directories, splicer_code); random stack/op sequences and recorded sequences of real "
                       "generations (all four wrappers) with _create_splicer + write_lines; listify; suffix table; non-trivial = a body "
                       "was stored/emitted or the code raised.  oracle: corpus + generated libraries regenerated in fresh processes "
                       "with generated bodies of every shape for every harvested block name in C, Fortran, Python and Lua outputs by "
                       "every supply route; non-trivial = distinct (library, route, language, block).")
    ctx.assumptions += [
        "theorems are about the Lean model; the model is validated against the code by differential testing on generated inputs only",
        "carriage is proved for Clean lines; TAB, FF, a leading CR and an embedded newline are interpreted by write_lines "
        "(witness theorems); marker lines must be Plain (hypothesis of block_carriage; true for the comment strings in use)",
        "whole-file round trip (roundtrip_file) is for pairwise prefix-incomparable dotted names, Clean right-stripped "
        "end-marker-free bodies, a marker prefix without the letter 's' and an indentation unit of blanks",
        "wrapClasses_names is about the abstraction wrapClasses of the emitters' class loops (push name; struct or class "
        "branch, stack neutral; pop name), checked on the real emitters by the recorded push/pop sequences",
        "wrap_namespace_discipline is about the abstraction wrapNs of Wrapf.wrap_namespace (push/pop balanced around classes and "
        "functions, update_top before every nested namespace, restore at the end), tied by the recorded sequences",
        "a splicer named __line__ (key injected by the YAML loader into splicer_code mappings) is outside the model",
    ]
    tmp = common.scratch()
    try:
        tie(ctx, ok, tmp)
        oracle_carriage(ctx, tmp)
        oracle_reader(ctx, tmp)
        static_scan(ctx)
        oracle_sequence(ctx, tmp, ["tutorial", "tutorial", "classes", "classes"] if not thorough else
                        ["tutorial", "tutorial", "classes", "namespace", "strings", "strings", "struct-cxx", "classes"])
        from tools import shroudrun
        libs = ["tutorial", "classes", "strings", "namespace"] if not thorough else [c[0] for c in shroudrun.CORPUS]
        for name in libs:
            oracle_e2e(ctx, name, tmp)
        # generated libraries besides the corpus
        from tools.gen import libgen
        rg = common.rng("c12-genlib")
        ngen = 12 if thorough else 1
        for k in range(ngen):
            g = libgen.gen_lib(rg, name="genlib%d" % k, wrap={"wrap_python": True, "wrap_lua": rg.random() < 0.5})
            gd = g.todict()
            if gd["language"] != "c":
                gd["declarations"].append({"decl": "class HollowG%d" % k})
            if rg.random() < 0.5:
                gd["declarations"].insert(0, {"decl": "struct PtG%d" % k, "declarations": [{"decl": "int x"}, {"decl": "double y"}]})
            oracle_e2e(ctx, "genlib%d" % k, tmp, gd)
        nns = 10 if thorough else 2
        for k in range(nns):
            oracle_e2e(ctx, "nslib%d" % k, tmp, gen_ns_lib(rg, "nslib%d" % k))
        ctx.note("generated_libraries", ngen)
        ctx.note("generated_namespace_libraries", dict(sorted(NS_STATS.items())))
        ctx.note("yaml_splicer_key_vs_extension", dict(sorted(EXT_STATS.items())))
        ctx.note("generated_files_fed_back_by_language", dict(sorted(FEED_STATS.items())))
        ctx.note("declaration_key_subsets", dict(sorted(KEYSET_STATS.items())))
        ctx.note("splicer_file_marker_styles", dict(sorted(MARKER_STATS.items())))
        ctx.note("body_shapes_by_route", dict(sorted(SHAPE_STATS.items())))
        ctx.note("declaration_yaml_forms", dict(sorted(FORM_STATS.items())))
    finally:
        common.rmtree(tmp)


def replay(path):
    import json
    d = json.load(open(path))
    tmp = common.scratch()
    ctx = common.Ctx("C12", "quick", LEVEL)
    ctx.known = []
    try:
        libs = sorted({f["replay"].get("library") for f in d.get("failing", []) if f["replay"].get("library")})
        if any(f["key"].startswith("carriage") for f in d.get("failing", [])):
            oracle_carriage(ctx, tmp)
        if any(f["key"].startswith("reader") for f in d.get("failing", [])):
            oracle_reader(ctx, tmp)
        from tools.gen import libgen
        rg = common.rng("c12-genlib")
        gens = {}
        for k in range(12):
            g = libgen.gen_lib(rg, name="genlib%d" % k, wrap={"wrap_python": True, "wrap_lua": rg.random() < 0.5})
            gens["genlib%d" % k] = g.todict()
            if gens["genlib%d" % k]["language"] != "c":
                gens["genlib%d" % k]["declarations"].append({"decl": "class HollowG%d" % k})
            if rg.random() < 0.5:
                gens["genlib%d" % k]["declarations"].insert(0, {"decl": "struct PtG%d" % k, "declarations": [{"decl": "int x"}, {"decl": "double y"}]})
        for k in range(10):
            gens["nslib%d" % k] = gen_ns_lib(rg, "nslib%d" % k)
        for name in libs:
            oracle_e2e(ctx, name, tmp, gens.get(name))
    finally:
        common.rmtree(tmp)
    for f in ctx.failing:
        print(f["key"], "->", f["what"][:300])
    return 1 if ctx.failing else 0
