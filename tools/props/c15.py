"""C15 Wrapper selection is honoured and the file lists match what was written.

Proof: Props/C15.lean over Model/Flags.lean (WrapFlags algebra, promote_wrap over the node
tree, emitter gating and sequencing in main_with_args, file registration).
Tie (T): tools/extract_flags.py regenerates Gen/Flags.lean (write sites and append sites found
by AST scan; emitter order in main_with_args).
Tie (D): wrap flags of every node after the real generate_functions vs the Lean driver.
Oracle: all library-level flag combinations x per-declaration overrides x five distinct output
directories on generated libraries: directory listings, --cfiles/--ffiles, byte comparison of
C/Fortran files across Python/Lua on/off, presence/absence of a declaration's names.
"""
import itertools
import json
import os
import re

from tools import common, shroudrun
from tools.gen import libgen

LEVEL = "proof"
MANIFEST = dict(
    category="proof",
    text="Lean 4 theorems on a model of WrapFlags, of node construction (flags = the node's own options block over the "
         "enclosing scopes: init_own_block_wins, init_inherits, init_default), of every clone-making step of "
         "generate.GenFunctions (template instantiation, default arguments, return_this, arg_to_CFI, arg_to_buffer with "
         "result_as_arg, fortran_generic) and of PromoteWrap and the driver's emitter gating. Proved for all trees, all "
         "generation histories (steps applied to a function and recursively to its clones) and all variants: a node and every "
         "clone made from it stay within the languages its declaration has on (step_within, family_within, "
         "off_for_declaration_off_for_family); only template instantiation makes a clone wrapped for Python/Lua; a function "
         "not wrapped for Fortran gets no Fortran/bufferify/CFI clone; after promotion a container's flag is the OR over its "
         "subtree; a language off everywhere writes nothing; the C and Fortran emitters run before and independently of the "
         "Python/Lua flags. Table theorems over regenerated AST scans: write sites paired with cfiles/ffiles appends, emitters "
         "write only into their own directories, emitter order, the wrap defaults, every wrap.assign site of generate.py is "
         "one the model has, every direct wrap.<lang> write switches a language off. The consumer loops of the four emitters over a "
         "container's function list are modelled (Lua overload grouping, Python overloaded_methods table and multi-dispatch, Fortran "
         "per-function loops and generic-interface lists, the per-function guard of C/Python) and proved for every function list: a "
         "member of an emitted group / a function with a wrapper of its own has its OWN flag on, in whatever position of the overload "
         "set, every function whose flag is on is emitted, and the Lua loop is filter-then-group. The model is tied to the code by "
         "differential correspondence: WrapFlags operation sequences, promotion of real trees, every clone step and every "
         "node construction observed in real runs on generated libraries (incl. fortran_generic, templates, assumed rank, "
         "return_this, strings, F_CFI on/off, overrides at every level) replayed on the compiled model; the consumer-loop model is "
         "compared with the observed loops (arguments of Wrapl.wrap_function, Wrapp.overloaded_methods, Wrapf impl/interface calls and "
         "generic lists) and with the emitted files of libraries with overload sets (free functions and methods) whose members carry "
         "per-declaration options in every position, all on/off patterns per language. An implementation-only "
         "oracle checks listings, --cfiles/--ffiles, directories, byte identity of C/Fortran files over all flag combinations, "
         "overrides at function/method/class/namespace level, the selection stated on the command line (--option, both "
         "spellings), that no function or clone is wrapped for a language its declaration switches off, and for every member of an "
         "overload set that it is in a language's files iff its own option for that language is on.",
    design="3 C15, 9.4, 9.9",
    note="Trusted: Lean kernel; translator AST scans (tools/extract_flags.py); hand-written flags model validated on generated "
         "libraries only; the step spy takes 'which clones were appended' (count/tags) and two content facts computed from the "
         "declaration's types as inputs and compares the flags. 'Every consumer honours wrap.L': the loops over a container's "
         "functions are modelled and proved (tools/flaggroups.py ties them to observed calls and emitted files); that the body of each "
         "wrap_function emits nothing for other functions, and the enum/typedef/variable consumers, are established by the oracle only.",
    technique="Lean 4 proof (tree induction, mutual induction over generation histories, decide +kernel over regenerated tables) "
              "+ differential correspondence (compiled model driver) + directory oracle",
)
MODULES = ["ShroudVerif.Props.C15", "ShroudVerif.Props.C15Groups"]
THEOREMS = {
    "ShroudVerif.Props.C15": [
        "Shroud.Flags.promote_is_or_of_subtree",
        "Shroud.Flags.promote_idempotent",
        "Shroud.Flags.off_everywhere_stays_off",
        "Shroud.Flags.emit_none_when_off",
        "Shroud.Flags.cf_independent_of_py_lua",
        "Shroud.Flags.default_clone_inherits",
        "Shroud.Flags.write_sites_registered",
        "Shroud.Flags.emitters_use_own_directory",
        "Shroud.Flags.emitter_order",
        "Shroud.Flags.init_own_block_wins",
        "Shroud.Flags.init_inherits",
        "Shroud.Flags.init_default",
        "Shroud.Flags.wrap_defaults_regenerated",
        "Shroud.Flags.step_within",
        "Shroud.Flags.family_within",
        "Shroud.Flags.off_for_declaration_off_for_family",
        "Shroud.Flags.only_templates_clone_for_scripting",
        "Shroud.Flags.no_fortran_clone_without_fortran",
        "Shroud.Flags.clone_assign_sites",
        "Shroud.Flags.direct_writes_only_switch_off",
        "Shroud.Flags.clear_sites",
        "Shroud.Flags.container_guards_on_the_member",
    ],
    "ShroudVerif.Props.C15Groups": [
        "Shroud.Flags.groupLoop_members",
        "Shroud.Flags.groupLoop_complete",
        "Shroud.Flags.groupLoop_is_filter_then_group",
        "Shroud.Flags.lua_emitted_members_on",
        "Shroud.Flags.lua_on_member_emitted",
        "Shroud.Flags.lua_filter_then_group",
        "Shroud.Flags.py_dispatch_members_on",
        "Shroud.Flags.py_on_member_in_table",
        "Shroud.Flags.fortran_generic_members_on",
        "Shroud.Flags.fortran_on_member_in_generic",
        "Shroud.Flags.wrapped_iff_own_flag",
        "Shroud.Flags.wrapped_sublist",
    ],
}

KINDS = ("c", "fortran", "python", "lua")
# How a declaration "appears" in a language's output (lower-cased text).  The Fortran module also
# carries a bind(C) interface `c_<name>` for every C wrapper: that belongs to the C wrapper (it is
# emitted under wrap.c), so for Fortran only the user-facing name counts (not `c_<name>`, not the
# quoted bind name).
PRESENT = {"c": r"%s", "python": r"%s", "lua": r"%s", "fortran": r'(?<![a-z0-9_"])%s'}


def base_lib(language, r):
    """A library whose function names survive un_camel unchanged, so a declaration can be found in any output."""
    decls = [
        {"decl": "int qfun0(int a)"},
        {"decl": "double qfun1(double a, int d = 1)"},
        {"decl": "void qfun2(const char *s)"},
        {"decl": "void qfun3(int *v +intent(out))"},
        {"decl": "bool qfun4(bool b)"},
    ]
    # structs: the Python emitter may add constructor nodes for them (PY_struct_arg: class)
    decls.append({"decl": "struct Qpt { int x; double y; };", "options": {"PY_struct_arg": r.choice(["class", "list", "class"])}})
    decls.append({"decl": "struct Qsz { int w; int h; };"})
    decls.append({"decl": "int qsfun(Qpt *p +intent(in), Qsz s)"})
    decls.append({"decl": "enum Qtone { QSOFT, QLOUD = 7 };"})
    if language != "c":
        decls.append({"decl": "void qfun5(const std::string & s)"})
        decls.append({"decl": "class Qcls", "declarations": [
            {"decl": "Qcls()"}, {"decl": "~Qcls()"}, {"decl": "int qmeth0(int a)"}, {"decl": "void qmeth1(double x)"},
            {"decl": "enum Qshade { QLIGHT, QDARK = 5 };"},
            {"decl": "Qcls * qchain(int a)", "return_this": True}]})
        decls.append({"decl": "namespace qns", "declarations": [
            {"decl": "int qfun6(int a)"},
            {"decl": "namespace qmid", "declarations": [{"decl": "namespace qdeep", "declarations": [{"decl": "int qfun7(int a)"}]}]}]})
        # an overload set (automatic numbering)
        decls += [{"decl": "void qover(int i)"}, {"decl": "void qover(double d)"}, {"decl": "void qover(int i, int j)"}]
    else:
        decls[1] = {"decl": "double qfun1(double a, int d)"}
    return libgen.Lib("qlib", language, decls)


DIRMODES = {
    "distinct": ("cf", "py", "lua", "yaml"),
    "outdir-only": (),
    "python-only": ("py",),
    "cf-lua": ("cf", "lua"),
}


def run_config(work, tag, lib, flags, overrides=None, dirmode="distinct", cli=None):
    """Run real Shroud with the output-directory options assigned per `dirmode` (kinds not assigned fall
    back to --outdir).  Returns dict with listings; res["dirs"][kind] is the directory designated for that kind."""
    d = os.path.join(work, tag)
    os.makedirs(d)
    assigned = DIRMODES[dirmode]
    dirs = {"out": os.path.join(d, "out"), "log": os.path.join(d, "log")}
    for k in ("cf", "py", "lua", "yaml"):
        dirs[k] = os.path.join(d, k) if k in assigned else dirs["out"]
    for p in set(dirs.values()):
        os.makedirs(p, exist_ok=True)
    lib.options = dict(wrap_c=bool(flags[0]), wrap_fortran=bool(flags[1]), wrap_python=bool(flags[2]), wrap_lua=bool(flags[3]))
    cmdline = []
    if cli is not None:
        # the selection is stated on the command line (--option name=value, which replaces the YAML value);
        # the YAML states the opposite.  `cli` maps option name -> spelling of the boolean.
        for name in list(lib.options):
            cmdline.append("%s=%s" % (name, cli[name]))
            lib.options[name] = not lib.options[name]
    import copy
    dd = copy.deepcopy(lib.todict())
    if overrides:
        for path, opts in overrides:
            node = dd
            for idx in path:
                node = node["declarations"][idx]
            node.setdefault("options", {}).update(opts)
    import yaml
    y = shroudrun.write_yaml(d, "qlib.yaml", yaml.safe_dump(dd, sort_keys=False))
    cf, ff = os.path.join(d, "cfiles.txt"), os.path.join(d, "ffiles.txt")
    kw = {}
    if "cf" in assigned:
        kw["outdir_c_fortran"] = dirs["cf"]
    if "py" in assigned:
        kw["outdir_python"] = dirs["py"]
    if "lua" in assigned:
        kw["outdir_lua"] = dirs["lua"]
    if "yaml" in assigned:
        kw["outdir_yaml"] = dirs["yaml"]
    cfg, exc, out = shroudrun.run_inproc([y], dirs["out"], logdir=dirs["log"], cfiles=cf, ffiles=ff, options=cmdline, **kw)
    res = {"exc": exc, "dirs": dirs, "yaml": open(y).read(), "flags": flags, "overrides": overrides, "dirmode": dirmode, "cmdline": cmdline}
    # listings keyed by physical directory role: a directory shared by several kinds is listed once under "out"
    phys = {}
    for k in ("out", "cf", "py", "lua", "yaml", "log"):
        phys.setdefault(dirs[k], k)
    res["list"] = {k: sorted(os.listdir(p)) for p, k in phys.items()}
    res["cfiles"] = open(cf).read().split() if os.path.exists(cf) else None
    res["ffiles"] = open(ff).read().split() if os.path.exists(ff) else None
    res["tree"] = {k: shroudrun.read_tree(p) for p, k in phys.items()}
    res["phys"] = {k: phys[dirs[k]] for k in dirs}     # kind -> listing key holding that kind's directory
    return res


def kind_files(res):
    """files per language kind, as (dirkey, name)"""
    k = {"c": [], "fortran": [], "python": [], "lua": [], "other": []}
    for dk, names in res["list"].items():
        for n in names:
            if dk == "log" or (dk == "yaml") or n.endswith((".json", ".log", "_types.yaml")):
                k["other"].append((dk, n))
            elif n.endswith(".f") or n.endswith(".f90") or n.endswith(".F"):
                k["fortran"].append((dk, n))
            elif n.startswith("py") or n == "setup.py":
                k["python"].append((dk, n))
            elif n.startswith("lua"):
                k["lua"].append((dk, n))
            else:
                k["c"].append((dk, n))
    return k


def text_of(res, kind):
    kf = kind_files(res)
    return b"\n".join(res["tree"][dk][n] for dk, n in kf[kind]).decode(errors="replace").lower()


def check_config(ctx, res, tag):
    """single-run obligations: listings, directories, file lists"""
    rp = {"yaml": res["yaml"], "flags": res["flags"], "overrides": res["overrides"], "dirmode": res.get("dirmode"),
          "command_line_options": res.get("cmdline")}
    if res["exc"] is not None:
        ctx.fail("c15:exception:%s" % type(res["exc"]).__name__, "Shroud failed on an admitted description: %r" % (res["exc"],), rp)
        return
    kf = kind_files(res)
    wc, wf, wp, wl = res["flags"]
    ov = res["overrides"] or []
    on = {"c": wc or any(o.get("wrap_c") for _, o in ov), "fortran": wf or any(o.get("wrap_fortran") for _, o in ov),
          "python": wp or any(o.get("wrap_python") for _, o in ov), "lua": wl or any(o.get("wrap_lua") for _, o in ov)}
    for kind in KINDS:
        if not on[kind] and kf[kind]:
            ctx.fail("c15:files-for-off-language:%s" % kind,
                     "%s wrapper is off for the whole library but files were written: %s" % (kind, kf[kind][:4]), rp)
    # directories
    want = {"c": res["phys"]["cf"], "fortran": res["phys"]["cf"], "lua": res["phys"]["lua"]}
    for kind, dk in want.items():
        for (d, n) in kf[kind]:
            if d != dk:
                ctx.fail("c15:wrong-directory:%s:%s" % (kind, re.sub(r"qlib", "<lib>", n)),
                         "%s file %s written into the %s directory instead of %s" % (kind, n, d, dk), rp)
    for (d, n) in kf["python"]:
        if not (d == res["phys"]["py"] or (d == res["phys"]["out"] and n == "setup.py")):
            ctx.fail("c15:wrong-directory:python:%s" % n, "python file %s written into %s" % (n, d), rp)
    # file lists
    cdir, = {res["dirs"]["cf"]}
    written_c = sorted(os.path.join(cdir, n) for d, n in kf["c"] if d == res["phys"]["cf"])
    written_f = sorted(os.path.join(cdir, n) for d, n in kf["fortran"] if d == res["phys"]["cf"])
    if res["cfiles"] is None or sorted(res["cfiles"]) != written_c:
        ctx.fail("c15:cfiles-mismatch", "--cfiles lists %s but the C/C++ files written are %s" % (
            res["cfiles"], [os.path.basename(x) for x in written_c]), rp)
    if res["ffiles"] is None or sorted(res["ffiles"]) != written_f:
        ctx.fail("c15:ffiles-mismatch", "--ffiles lists %s but the Fortran files written are %s" % (
            res["ffiles"], [os.path.basename(x) for x in written_f]), rp)


def run(ctx):
    thorough = ctx.tier == "thorough"
    r = common.rng("c15")
    from tools import extract_flags
    info = extract_flags.regenerate()
    ctx.note("translator", info)
    ok = ctx.lean(MODULES, THEOREMS, extra_targets=("drv_flags",))
    ctx.cov["trusted_base"] = [
        "Lean 4.33.0 kernel; axioms within {propext, Classical.choice, Quot.sound}",
        "tools/extract_flags.py (AST scans: write_output_file / cfiles.append / ffiles.append sites, emitter order, wrap defaults, "
        "every wrap.assign / wrap.clear / direct wrap.<lang> write of generate.py, loop guards of every emitter's wrap_namespace)",
        "hand-written model Model/Flags.lean of WrapFlags, node construction (scope-chain lookup of the wrap options), every "
        "clone-making step of GenFunctions, PromoteWrap and driver gating; validated on generated libraries only",
        "tools/flaggroups.py: spies on the emitters' function loops; a member is found in the files by its suffixed name / argument name",
        "tools/flagcorr.py step spy: takes which clones a step appended (count, tags) and two content facts computed from the "
        "declaration's types as inputs; compares all flags with the model",
    ]
    ctx.cov["rule"] = ("flag correspondence: WrapFlags operation sequences; every node's flags at construction; every clone-making step "
                       "observed in real runs (distinct requests); promotion of every real tree after generate_functions; oracle: libraries x "
                       "all valid library-level flag combinations (Fortran only with C; also stated through --option) x per-declaration overrides "
                       "(function, method, class, namespace, enumeration) x assignments of the output-directory options; overload sets x all on/off "
                       "patterns of the members per language (library on / members off and library off / members on); non-trivial = the run "
                       "wrote files of >= 2 kinds or used an override; distinct = (library, flags, override)")
    ctx.assumptions += ["the loops over a container's functions (overload grouping, multi-dispatch table, generic interfaces, per-function "
                        "guards) are modelled and proved; for enumerations, typedefs, variables and the bodies of the wrap_function "
                        "methods 'the emitter consults wrap.L' is checked by the oracle on generated libraries, not proved"]

    work = common.scratch()
    try:
        # ------------------------------------------------ (D) flag correspondence
        from tools import flagcorr
        flagcorr.run(ctx, r, ok, thorough)

        # ------------------------------------------------ consumer loops: overload sets with per-member options
        from tools import flaggroups
        flaggroups.run(ctx, r, ok, thorough, work, run_config, text_of)

        # ------------------------------------------------ oracle
        combos = [f for f in itertools.product((0, 1), repeat=4) if not (f[1] and not f[0])]
        nslib = base_lib("c++", r)
        nslib.namespace = "qouter"        # the top-level `namespace:` field: the library's declarations live in a namespace node
        libs = [("cxx", base_lib("c++", r)), ("c", base_lib("c", r)), ("cxxns", nslib)]
        ngen = 6 if thorough else 2
        for i in range(ngen):
            libs.append(("g%d" % i, libgen.gen_lib(r, name="qlib")))
        n = 0
        for lname, lib in libs:
            results = {}
            for f in combos:
                res = run_config(work, "%s-%d%d%d%d" % ((lname,) + f), lib, f)
                results[f] = res
                ctx.count(1)
                kf = kind_files(res)
                if sum(1 for k in KINDS if kf[k]) >= 2:
                    ctx.nontrivial((lname, f))
                check_config(ctx, res, lname)
                n += 1
            ctx.sample({"library": lname, "flags": [1, 1, 1, 1], "listing": results[(1, 1, 1, 1)]["list"]}, cap=3)
            if lname in ("cxx", "cxxns"):
                # everything switched on: every declaration of the fixed library that the language can wrap is there
                allon = results[(1, 1, 1, 1)]
                if allon["exc"] is None:
                    for kind, names in (("c", ("qfun0", "qfun1", "qfun2", "qfun5", "qmeth0", "qmeth1", "qchain", "qfun6", "qfun7", "qover", "qloud", "qdark")),
                                        ("fortran", ("qfun0", "qfun1", "qfun2", "qfun5", "qmeth0", "qmeth1", "qchain", "qfun6", "qfun7", "qover", "qloud", "qcls_qdark")),
                                        ("python", ("qfun0", "qfun1", "qfun2", "qfun5", "qmeth0", "qmeth1", "qchain", "qfun6", "qfun7", "qover", "qloud", "qdark")),
                                        ("lua", ("qfun0", "qfun1", "qfun2", "qfun5", "qmeth0", "qmeth1", "qchain", "qfun6", "qfun7", "qover"))):
                        txt = text_of(allon, kind)
                        for nm in names:
                            ctx.count(1)
                            if not re.search(PRESENT[kind] % nm, txt):
                                ctx.fail("c15:declaration-on-but-absent:%s:%s" % (kind, nm),
                                         "all four wrappers are on for the whole library but %s does not appear in the %s output" % (nm, kind),
                                         {"yaml": allon["yaml"], "flags": [1, 1, 1, 1]})
            # other assignments of the output-directory options
            for dm in ("outdir-only", "python-only", "cf-lua"):
                for f in (combos if thorough else [(1, 1, 1, 1), (1, 0, 0, 1), (0, 0, 1, 1)]):
                    res = run_config(work, "%s-%s-%d%d%d%d" % ((lname, dm) + f), lib, f, dirmode=dm)
                    ctx.count(1)
                    ctx.nontrivial((lname, dm, f))
                    check_config(ctx, res, lname)
                    common.rmtree(os.path.dirname(res["dirs"]["out"]))
            # the same selection stated with --option on the command line (both spellings of each boolean):
            # same obligations, and the same bytes as when it is stated in the YAML file
            SPELL = {True: ("true", "True"), False: ("false", "False")}
            for f in (combos if thorough else r.sample(combos, 4)):
                names = ("wrap_c", "wrap_fortran", "wrap_python", "wrap_lua")
                cli = {nm: r.choice(SPELL[bool(v)]) for nm, v in zip(names, f)}
                res = run_config(work, "%s-cli-%d%d%d%d" % ((lname,) + f), lib, f, cli=cli)
                ctx.count(1)
                ctx.nontrivial((lname, "cli", f))
                check_config(ctx, res, lname)
                if res["exc"] is None:
                    ref = results[f]
                    for kdir in ("cf", "py", "lua"):
                        a, b = ref["tree"][ref["phys"][kdir]], res["tree"][res["phys"][kdir]]
                        d = sorted(x for x in set(a) | set(b) if a.get(x) != b.get(x))
                        if d:
                            ctx.fail("c15:command-line-selection-differs:%s" % d[0],
                                     "stating the selection as --option %s gives different files than stating it in the YAML file: %s" % (
                                         " --option ".join(res["cmdline"]), d[:4]),
                                     {"yaml": res["yaml"], "command_line_options": res["cmdline"], "files": d[:8]})
                            break
                common.rmtree(os.path.dirname(res["dirs"]["out"]))
            # byte identity of C and Fortran files across python/lua on/off
            for wc, wf in ((0, 0), (1, 0), (1, 1)):
                ref = results[(wc, wf, 0, 0)]
                for wp, wl in ((0, 1), (1, 0), (1, 1)):
                    oth = results[(wc, wf, wp, wl)]
                    a, b = ref["tree"][ref["phys"]["cf"]], oth["tree"][oth["phys"]["cf"]]
                    d = sorted(f for f in set(a) | set(b) if a.get(f) != b.get(f))
                    ctx.count(1)
                    if d:
                        ctx.fail("c15:cf-depends-on-py-lua:%s" % d[0],
                                 "C/Fortran files change when wrap_python=%d wrap_lua=%d is switched (wrap_c=%d wrap_fortran=%d): %s" % (
                                     wp, wl, wc, wf, d[:4]), {"yaml": oth["yaml"], "flags": [wc, wf, wp, wl], "files": d[:8]})
            # the same with per-declaration overrides in place (e.g. one overload wrapped for scripting only)
            dd0 = lib.todict()
            ndecl = len(dd0["declarations"])
            ovsets = []
            if lname in ("cxx", "cxxns"):
                iov = [k for k, d0 in enumerate(lib.decls) if d0["decl"].startswith("void qover")]
                ovsets.append([((iov[0],), {"wrap_c": False, "wrap_fortran": False})])          # first qover: scripting only
                ovsets.append([((iov[1],), {"wrap_c": False, "wrap_fortran": False}), ((0,), {"wrap_python": False})])
            for _ in range(3 if thorough else 1):
                ovs = []
                for k in r.sample(range(ndecl), min(ndecl, r.randrange(1, 4))):
                    o = r.choice([{"wrap_c": False, "wrap_fortran": False}, {"wrap_fortran": False}, {"wrap_python": False},
                                  {"wrap_lua": False}, {"wrap_python": False, "wrap_lua": False}])
                    ovs.append(((k,), dict(o)))
                ovsets.append(ovs)
            for oi, ovs in enumerate(ovsets):
                ref = None
                for wp, wl in ((0, 0), (0, 1), (1, 0), (1, 1)):
                    res = run_config(work, "%s-ovb%d-%d%d" % (lname, oi, wp, wl), lib, (1, 1, wp, wl), ovs)
                    ctx.count(1)
                    if res["exc"] is not None:
                        break
                    tree = res["tree"][res["phys"]["cf"]]
                    if ref is None:
                        ref = tree
                    else:
                        d = sorted(f for f in set(ref) | set(tree) if ref.get(f) != tree.get(f))
                        if d:
                            ctx.fail("c15:cf-depends-on-py-lua:override:%s" % d[0],
                                     "with per-declaration overrides %s the C/Fortran files change when wrap_python=%d wrap_lua=%d: %s" % (
                                         ovs, wp, wl, d[:4]), {"yaml": res["yaml"], "files": d[:8]})
                    common.rmtree(os.path.dirname(res["dirs"]["out"]))
                ctx.nontrivial((lname, "ovbytes", oi))
            # per-declaration overrides on the libraries with searchable names
            if lname in ("cxx", "c", "cxxns"):
                # NB: scratch directory tags must not contain the declaration names (setup.py records paths)
                targets = [((0,), "qfun0"), ((1,), "qfun1"), ((2,), "qfun2")]
                ienum = [k for k, d0 in enumerate(lib.decls) if d0["decl"].startswith("enum Qtone")][0]
                targets.append(((ienum,), "qloud"))            # an enumeration (not wrapped for Lua at all)
                only_kinds = {"qloud": ("c", "fortran", "python"), "qdark": ("c", "fortran", "python")}
                tn = [0]
                if lname in ("cxx", "cxxns"):
                    top = [d0["decl"] for d0 in lib.decls]
                    icls = [k for k, t in enumerate(top) if t.startswith("class Qcls")][0]
                    ins = [k for k, t in enumerate(top) if t.startswith("namespace qns")][0]
                    targets.append(((icls, 2), "qmeth0"))
                    targets.append(((ins, 1, 0, 0), "qfun7"))      # three namespaces deep
                    targets.append(((icls, 4), "qdark"))           # an enumeration inside a class
                    targets.append(((icls,), "qcls"))              # the option written on the class itself
                    targets.append(((ins,), "qfun6"))              # the option written on the namespace
                # names that a target's option also governs (declared inside it): never "siblings"
                inside = {"qcls": ("qmeth0", "qdark"), "qfun6": ("qfun7",)}
                optn = {"c": "wrap_c", "fortran": "wrap_fortran", "python": "wrap_python", "lua": "wrap_lua"}
                for path, fname in targets if thorough else (targets[:2] + targets[3:4] + targets[-4:]):
                    for kind in only_kinds.get(fname, KINDS):
                        # library on, declaration off
                        ov = [(path, {optn[kind]: False})]
                        if kind == "c":
                            ov = [(path, {"wrap_c": False, "wrap_fortran": False})]
                        tn[0] += 1
                        res = run_config(work, "%s-ov%d" % (lname, tn[0]), lib, (1, 1, 1, 1), ov)
                        ctx.count(1)
                        ctx.nontrivial((lname, "off", fname, kind))
                        if res["exc"] is not None:
                            ctx.fail("c15:exception:%s" % type(res["exc"]).__name__, "override run failed: %r" % (res["exc"],),
                                     {"yaml": res["yaml"]})
                            continue
                        if fname == "qdark" and kind == "fortran":
                            fname_k = "qcls_qdark"          # Fortran prefixes the members of a class's enumeration
                        else:
                            fname_k = fname
                        txt = text_of(res, kind)
                        if re.search(PRESENT[kind] % fname_k, txt):
                            ctx.fail("c15:declaration-off-but-present:%s:%s" % (kind, fname),
                                     "%s has %s: false but appears in the %s output" % (fname, optn[kind], kind), {"yaml": res["yaml"]})
                        if fname == "qfun6":
                            own = [n for dk, n in kind_files(res)[kind] if "_qns" in n]
                            if own:
                                ctx.fail("c15:file-for-off-namespace:%s" % kind,
                                         "namespace qns has %s: false but gets %s files of its own: %s" % (optn[kind], kind, own[:4]), {"yaml": res["yaml"]})
                        others = [t for _, t in targets if t != fname and not t.startswith("qmeth") and t != "qcls"
                                  and t not in inside.get(fname, ()) and kind in only_kinds.get(t, KINDS)
                                  and not (t == "qdark" and fname != "qcls")]
                        if others and not (kind == "c" and lname == "c") and not re.search(PRESENT[kind] % others[0], txt):
                            ctx.fail("c15:sibling-missing:%s:%s" % (kind, others[0]),
                                     "sibling %s disappeared from the %s output" % (others[0], kind), {"yaml": res["yaml"]})
                        # library off, declaration on
                        flags = {"c": (0, 0, 1, 1), "fortran": (1, 0, 1, 1), "python": (1, 1, 0, 1), "lua": (1, 1, 1, 0)}[kind]
                        ov = [(path, {optn[kind]: True})]
                        if kind == "fortran":
                            ov = [(path, {"wrap_fortran": True, "wrap_c": True})]
                        tn[0] += 1
                        res = run_config(work, "%s-ov%d" % (lname, tn[0]), lib, flags, ov)
                        ctx.count(1)
                        ctx.nontrivial((lname, "on", fname, kind))
                        if res["exc"] is not None:
                            ctx.fail("c15:exception:%s" % type(res["exc"]).__name__, "override run failed: %r" % (res["exc"],),
                                     {"yaml": res["yaml"]})
                            continue
                        check_config(ctx, res, lname)
                        txt = text_of(res, kind)
                        if not (kind == "c" and lname == "c") and not re.search(PRESENT[kind] % fname_k, txt):
                            ctx.fail("c15:declaration-on-but-absent:%s:%s" % (kind, fname),
                                     "%s has %s: true (library level off) but does not appear in the %s output" % (fname, optn[kind], kind),
                                     {"yaml": res["yaml"]})
                        for o in others:
                            if re.search(PRESENT[kind] % o, txt):
                                ctx.fail("c15:declaration-off-but-present:%s:%s" % (kind, o),
                                         "%s is off for %s (library level) but appears in the %s output" % (o, kind, kind), {"yaml": res["yaml"]})
                                break
            for k in list(results):
                common.rmtree(os.path.dirname(results[k]["dirs"]["out"]))
        ctx.note("oracle_runs", n)
    finally:
        common.rmtree(work)


def replay(path):
    d = json.load(open(path))
    for f in d.get("failing", []):
        print(f["key"], "|", f["what"])
        print(f["replay"].get("yaml", "")[:2000])
    return 0
