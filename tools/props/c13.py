"""C13 Line wrapping never alters code and respects Fortran's line limit.

Proof: lean/ShroudVerif/Props/C13.lean over the model Model/Lines.lean.
Tie (D): real util.WrapperMixin.write_continue / write_lines vs the Lean driver.
Oracle: rejoin-and-compare / marker / length checks on the real function only.
"""
import io
import itertools
import os

from tools import common

LEVEL = "proof"
MANIFEST = dict(
    category="proof",
    text="Lean 4 theorems over a model of util.write_continue / write_lines / write_output_file / _literal_lines, for all "
         "lines, lengths, indentation depths, indentation units and continuation markers: text preservation modulo whitespace "
         "at break points (wc_text_preserved), whole parts per physical line and breaks only where a TAB/FF stood "
         "(wc_grouping, wc_parts_are_hint_free_segments), marker on every broken line (render_markers), length bound 'fits or "
         "holds a single part' incl. the marker (wc_length, rendered_line_limit), the documented directive table as the exact "
         "semantics of write_lines (wl_subline_spec, wl_indent_sum, wl_total: no crash), header-then-body for every file "
         "(wof_header_then_body), and user supplied lines are never read as directives (user_line_protected, "
         "user_line_emitted; witness unprotected_line_loses_text). Table theorems over regenerated AST scans: each emitter's "
         "line length option, the addend applied to it and the continuation marker, default F_line_length + marker <= 132 "
         "(emitter_line_config); composed with write_continue every emitter wraps at exactly the value of its language's option, "
         "so the length bound holds against the OPTION (emitter_respects_option, emitter_line_limit); a call's result does not "
         "depend on earlier calls (wc_history_free over wcSession); both "
         "user-code branches of _create_splicer pass through _literal_lines (splicer_branches_protect_user_code). The model is "
         "tied to util.py on every run by differential correspondence through the compiled Lean driver (write_continue, "
         "write_lines, write_output_file, _literal_lines, emitter instances, call sequences; exhaustive short strings over the directive alphabet, seeded random "
         "and statement-shaped structured lines); implementation-only oracles search for failing inputs: existential re-reading "
         "of the physical lines, documented directive table, every write_continue call of real runs (hooked) and statement-shaped "
         "lines driven through the real emitter instances as their __init__ configured them, judged against the language's option "
         "(several configurations in one process, small lengths and F_line_length 132), the same line written repeatedly with "
         "varying line length on one and several instances vs the model's session and vs a fresh process in reverse order, "
         "each language's files depend on their own line-length option only, "
         "132 columns with identifiers <= 63 characters, and user lines through declaration-level splicer: / splicer_code: "
         "reach the files character for character.",
    design="3 C13, 9.4, 9.9",
    note="Trusted: Lean kernel (axioms propext, Classical.choice, Quot.sound only); the hand-written model, validated only on "
         "generated inputs; translator tools/extract_linecfg.py; Python whitespace modelled on ASCII+U+0085/U+00A0. The "
         "132-column consequence for real outputs is a measurement over generated libraries and (thorough tier) the corpus. "
         "TAB/FF inside a user line are consumed as break hints (open C12 finding, not a C13 violation: the hint is whitespace).",
    technique="Lean 4 proof by induction over the part list / case analysis of the directive reader, decide +kernel over "
              "regenerated tables + differential correspondence model/implementation + end-to-end oracles",
)
MODULES = ["ShroudVerif.Props.C13"]
THEOREMS = {
    "ShroudVerif.Props.C13": [
        "Shroud.Lines.wc_text_preserved",
        "Shroud.Lines.wc_grouping",
        "Shroud.Lines.wc_parts_are_hint_free_segments",
        "Shroud.Lines.render_markers",
        "Shroud.Lines.wl_plain_line",
        "Shroud.Lines.wl_literal_line",
        "Shroud.Lines.wl_indent_sum",
        "Shroud.Lines.wc_length",
        "Shroud.Lines.wl_column_one",
        "Shroud.Lines.wl_total",
        "Shroud.Lines.wl_empty_body_ok",
        "Shroud.Lines.rendered_line_limit",
        "Shroud.Lines.wl_subline_spec",
        "Shroud.Lines.wof_header_then_body",
        "Shroud.Lines.emitter_line_config",
        "Shroud.Lines.emitter_respects_option",
        "Shroud.Lines.emitter_line_limit",
        "Shroud.Lines.wc_history_free",
        "Shroud.Lines.user_line_protected",
        "Shroud.Lines.user_line_emitted",
        "Shroud.Lines.unprotected_line_loses_text",
        "Shroud.Lines.splicer_branches_protect_user_code",
        "Shroud.Lines.fortran_lists_have_break_hints",
        "Shroud.Lines.fortran_statement_templates_can_be_continued",
        "Shroud.Lines.fortran_bindings_can_be_continued",
    ]
}

ALPHA_THOROUGH = "a ,\t\f\r+-@#^"
ALPHA_QUICK = "a ,\t\f\r+-@#^b\n"


def _mixin():
    from shroud import util

    class W(util.WrapperMixin):
        pass

    return W()


def real_wc(w, linelen, indent, spaces, cont, line):
    w.linelen = linelen
    w.indent = indent
    w.cont = cont
    fp = io.StringIO()
    try:
        w.write_continue(fp, line, spaces)
    except IndexError:
        return "crash IndexError"
    except Exception as e:  # noqa
        return "crash " + type(e).__name__
    text = fp.getvalue()
    assert text.endswith("\n")
    return "ok " + common.encs(text[:-1].split("\n"))


def real_wl(w, linelen, indent, spaces, cont, items):
    w.linelen = linelen
    w.indent = indent
    w.cont = cont
    fp = io.StringIO()
    try:
        w.write_lines(fp, items, spaces)
    except IndexError:
        return "crash IndexError"
    except Exception as e:  # noqa
        return "crash " + type(e).__name__
    text = fp.getvalue()
    if text == "":
        lines = []
    else:
        assert text.endswith("\n")
        lines = text[:-1].split("\n")
    return "ok %d %s" % (w.indent, common.encs(lines))


def real_wof(comment, fname, version, copyright, linelen, spaces, cont, items, prior=None):
    """real util.WrapperMixin.write_output_file into a scratch directory; `prior` (bytes or a function of the
    text a first run writes) is planted as the file's earlier contents before the observed run"""
    import contextlib
    import io as _io
    from shroud import util

    class Lib:
        pass

    class Cfg:
        pass

    class Log:
        def write(self, s):
            pass

    class W(util.WrapperMixin):
        pass
    w = W()
    w.comment, w.cont, w.linelen = comment, cont, linelen
    w.newlibrary = Lib()
    w.newlibrary.copyright = copyright
    w.config = Cfg()
    w.config.write_version = version
    w.log = Log()
    d = common.scratch()
    try:
        try:
            with contextlib.redirect_stdout(_io.StringIO()):
                if prior is not None:
                    if callable(prior):
                        w.write_output_file(fname, d, list(items), spaces)
                        first = open(os.path.join(d, fname), newline="").read()
                        planted = prior(first)
                    else:
                        planted = prior
                    with open(os.path.join(d, fname), "w", newline="") as fpp:
                        fpp.write(planted)
                w.write_output_file(fname, d, list(items), spaces)
        except Exception as e:  # noqa
            return "crash " + type(e).__name__
        text = open(os.path.join(d, fname), newline="").read()
    finally:
        common.rmtree(d)
    lines = text[:-1].split("\n") if text else []
    return "ok " + common.encs(lines)


def enc_items(items):
    return " ".join(("d:%d" % it) if isinstance(it, int) else ("s:" + common.enc(it)) for it in items)


# ------------------------------------------------------------------ oracle
WS = set("\t\n\x0b\x0c\r\x1c\x1d\x1e\x1f \x85\xa0")


def nows(s):
    return "".join(c for c in s if c not in WS)


def oracle_wc(w, linelen, indent, spaces, cont, line):
    """Property C13 stated directly on the implementation (no model involved).
    Returns None or a reason.  Existential over decompositions, so it can only
    reject when no reading of the output satisfies the property."""
    r = real_wc(w, linelen, indent, spaces, cont, line)
    if r.startswith("crash"):
        return "write_continue raised %s" % r[6:]
    return judge_wc(common.decs(r[3:]), linelen, indent, spaces, cont, line)


def judge_wc(phys, linelen, indent, spaces, cont, line):
    """the physical lines `phys` written for the logical `line`, judged against the length `linelen` the property speaks
    about (for an emitter: the value of the language's OPTION, whatever self.linelen was at the time)"""
    bodies = []
    for i, p in enumerate(phys):
        if i + 1 < len(phys):
            if not p.endswith(cont):
                return "broken line %d lacks continuation marker" % i
            bodies.append(p[: len(p) - len(cont)])
        else:
            bodies.append(p)
    if nows("".join(bodies)) != nows(line):
        return "text altered: %r -> %r" % (line, bodies)
    k = 2 if line[:1] == "\r" else 1
    rest = line[1:] if line[:1] == "\r" else line
    segs = rest.replace("\f", "\t").split("\t")
    logical = "".join(segs)
    cuts, acc = set(), 0
    for s in segs[:-1]:
        acc += len(s)
        cuts.add(acc)
    ts = []
    for j, b in enumerate(bodies):
        ind = spaces * (indent if j == 0 else indent + k)
        if not b.startswith(ind):
            return "line %d does not start with its indentation" % j
        ts.append(b[len(ind):])
    memo = {}

    def match(pos, j):
        # can ts[j:] be laid over logical[pos:] skipping whitespace only between lines,
        # starting each continuation line at a break point?
        key = (pos, j)
        if key in memo:
            return memo[key]
        if j == len(ts):
            res = logical[pos:].strip() == ""
        else:
            res = False
            q = pos
            while True:
                t = ts[j]
                if logical.startswith(t, q) and (j == 0 or q == pos or True):
                    start, end = q, q + len(t)
                    overlong = len(bodies[j]) > linelen
                    interior = any(start < c < end for c in cuts)
                    # a continuation line must begin at (whitespace after) a break point
                    begins_ok = j == 0 or any(c <= start and logical[c:start].strip() == "" for c in cuts)
                    if begins_ok and not (overlong and interior) and match(end, j + 1):
                        res = True
                        break
                if j == 0 or q >= len(logical) or logical[q] not in WS:
                    break
                q += 1
        memo[key] = res
        return res

    if not match(0, 0):
        return "no reading of the physical lines preserves the text, breaks at hints only and respects the length"
    return None


def expected_body(subline):
    """The text a subline must contribute, from the documented directive table of write_lines:
    '#' and ordinary lines are text; '@' literal: drop the '@' only; '^': drop the '^';
    '+text[-]': drop the leading '+' and one trailing '-'; '[-]*text[+]': drop leading '-'s and one trailing '+'."""
    if subline == "":
        return ""
    c = subline[0]
    if c == "#":
        return subline
    if c in "@^":
        return subline[1:]
    if c == "+":
        return subline[1:-1] if subline[-1] == "-" and len(subline) > 1 else subline[1:]
    t = subline.lstrip("-")
    return t[:-1] if t.endswith("+") else t


def oracle_wl(w, linelen, indent, spaces, cont, items):
    """Directives steer layout only: the emitted text, with whitespace, break hints and continuation
    markers ignored, is exactly the documented body of every subline, in order."""
    r = real_wl(w, linelen, indent, spaces, cont, items)
    if r.startswith("crash"):
        return "write_lines raised %s" % r[6:]
    lines = common.decs(r.split(" ", 2)[2])
    want = "".join(nows(expected_body(sub)) for it in items if not isinstance(it, int) for sub in it.split("\n"))
    contws = nows(cont)
    got = "".join(nows(l) for l in lines)
    if contws == "":
        return None if got == want else "emitted text %r is not the documented body %r" % (got, want)
    # A broken line ends with the continuation marker; the text itself may contain the marker's
    # characters, so try both readings of every non-final line (exists a reading => accepted).
    ts = [nows(l) for l in lines]
    memo = {}

    def go(i, pos):
        if i == len(ts):
            return pos == len(want)
        key = (i, pos)
        if key in memo:
            return memo[key]
        t = ts[i]
        res = False
        if want.startswith(t, pos) and go(i + 1, pos + len(t)):
            res = True
        elif i + 1 < len(ts) and t.endswith(contws) and want.startswith(t[: len(t) - len(contws)], pos) \
                and go(i + 1, pos + len(t) - len(contws)):
            res = True
        memo[key] = res
        return res

    if not go(0, 0):
        return "no reading of the emitted lines %r gives the documented text %r" % (lines[:6], want[:60])
    return None


def gen_strings(alpha, maxlen):
    for n in range(1, maxlen + 1):
        for t in itertools.product(alpha, repeat=n):
            yield "".join(t)


def rand_line(r):
    words = ["call foo(", "arg%d," % r.randrange(99), "integer(C_INT), intent(IN) :: x", "&", "a", "b_c",
             "const char *name,", "+", "-", "  ", " ", "\t", "\t ", "\f", "\r", "@", "#", "^", "x = y + z;",
             "SHT_rv_cdesc", "\n", ")", "{", "}", "//", "!", "long_identifier_name_%d" % r.randrange(9)]
    n = r.randrange(1, 12)
    return "".join(r.choice(words) for _ in range(n))


def struct_line(r):
    """A statement-shaped logical line: optional leading \\r (subprogram statement: continuation lines get a double
    indent), then many parts of similar length separated by break hints, so that part ends fall on every column
    around the limit."""
    lead = r.choice(["", "\r", "\r"])
    plen = r.randrange(1, 12)
    n = r.randrange(3, 40)
    hint = r.choice(["\t", "\t", "\f"])
    parts = []
    for _ in range(n):
        m = max(1, plen + r.randrange(-1, 2))
        parts.append("".join(r.choice("abcxyz_") for _ in range(m)) + r.choice([",", ", ", ",", ""]))
    return lead + r.choice(["subroutine f(", "call g(", "int h(", ""]) + hint.join(parts) + r.choice([")", ") &", ""])


def run(ctx):
    thorough = ctx.tier == "thorough"
    from tools import extract_linecfg
    ctx.note("linecfg", extract_linecfg.regenerate())
    ok = ctx.lean(MODULES, THEOREMS, extra_targets=("drv_lines",))
    drv = common.Driver("drv_lines")
    w = _mixin()
    r = common.rng("c13")
    ctx.cov["trusted_base"] = [
        "Lean 4.33.0 kernel; axioms within {propext, Classical.choice, Quot.sound}",
        "hand-written model Model/Lines.lean of util.write_continue / write_lines / write_output_file / _literal_lines, tied by differential correspondence",
        "tools/extract_linecfg.py (AST scans: each emitter's line-length option, addend and continuation marker, branches of _create_splicer, "
        "comma-list join sites of wrapf.py; option defaults read from a fresh LibraryNode)",
        "Python str.lstrip/isspace modelled on ASCII + U+0085/U+00A0 code points only",
    ]
    ctx.cov["rule"] = ("write_continue: corpus + every string over the directive/hint alphabet up to a length bound x line lengths "
                       "+ seeded random lines; write_lines: seeded random item lists + short directive strings; emitters: every write_continue "
                       "call of generated libraries under 6 line-length configurations run one after the other in one process, plus "
                       "statement-shaped lines through each real emitter instance, judged against the language's option; sequences: "
                       "the same line at 6 (linelen, indent) settings on two instances vs model session vs fresh process. A case is non-trivial "
                       "when the implementation broke the line (>= 2 physical lines); distinct = distinct request lines.")
    ctx.assumptions += [
        "the theorem is about the Lean model; the model is validated against util.py by differential testing on the generated inputs only",
        "part-length bound for real outputs (<= 132 Fortran columns) is a corpus measurement, not a theorem",
    ]

    # ---------------- correspondence cases
    wc_cases = []
    wl_cases = []
    # corpus first
    cpath = os.path.join(common.CORPUS, "c13.txt")
    if os.path.exists(cpath):
        for ln in open(cpath):
            ln = ln.rstrip("\n")
            if ln.startswith("wc "):
                _, ll, ind, sp, cont, line = ln.split(" ")
                wc_cases.append((int(ll), int(ind), common.dec(sp), common.dec(cont), common.dec(line)))
    if thorough:
        maxlen = 5
        for s in gen_strings(ALPHA_THOROUGH, maxlen):
            for ll in (1, 3, 8):
                wc_cases.append((ll, 1 if len(s) % 2 else 0, "  ", "&", s))
        for s in gen_strings("a \t\f\r,", 6):
            for ll in (2, 5, 13):
                for ind in (0, 2):
                    wc_cases.append((ll, ind, " ", " \\", s))
    else:
        for s in gen_strings(ALPHA_THOROUGH, 3):
            for ll in (1, 3, 8):
                wc_cases.append((ll, len(s) % 2, "  ", "&", s))
    nrand = 40000 if thorough else 6000
    for _ in range(nrand):
        ll = r.choice([1, 2, 3, 5, 8, 13, 20, 40, 72, 80, 132])
        ind = r.randrange(0, 4)
        sp = r.choice(["    ", "  ", " ", "\t", ""])
        cont = r.choice(["&", " \\", "", "&&"])
        wc_cases.append((ll, ind, sp, cont, rand_line(r).replace("\n", " ")))
    nstruct = 12000 if thorough else 3000
    for _ in range(nstruct):
        ll = r.choice([20, 30, 40, 60, 72, 80, 100, 132])
        wc_cases.append((ll, r.randrange(0, 4), r.choice(["    ", "  ", " "]), r.choice(["&", " \\", " &"]), struct_line(r)))
    ctx.note("wc_structured_cases", nstruct)
    # write_lines cases
    wl_alpha = ALPHA_QUICK
    nwl = 30000 if thorough else 6000
    for _ in range(nwl):
        items = []
        for _ in range(r.randrange(1, 5)):
            if r.random() < 0.25:
                items.append(r.randrange(-2, 3))
            elif r.random() < 0.5:
                items.append("".join(r.choice(wl_alpha) for _ in range(r.randrange(0, 7))))
            else:
                items.append(rand_line(r))
        wl_cases.append((r.choice([1, 3, 8, 20, 72, 132]), r.randrange(-1, 3), r.choice(["    ", "  "]),
                         r.choice(["&", " \\"]), items))
    if thorough:
        for s in gen_strings("a+-@#^\n\t ", 4):
            wl_cases.append((3, 0, "  ", "&", [s]))
            wl_cases.append((3, 1, "  ", "&", [1, s, -1, s]))
    else:
        for s in gen_strings("a+-@#^\n\t ", 3):
            wl_cases.append((3, 0, "  ", "&", [s]))

    # ---------------- run implementation + model
    reqs, impl = [], []
    for (ll, ind, sp, cont, line) in wc_cases:
        reqs.append("wc %d %d %s %s %s" % (ll, ind, common.enc(sp), common.enc(cont), common.enc(line)))
        impl.append(real_wc(w, ll, ind, sp, cont, line))
    for (ll, ind, sp, cont, items) in wl_cases:
        reqs.append("wl %d %d %s %s %s" % (ll, ind, common.enc(sp), common.enc(cont), enc_items(items)))
        impl.append(real_wl(w, ll, ind, sp, cont, items))
    # write_output_file: header + copyright + body
    nwof = 400 if thorough else 120
    for k in range(nwof):
        comment = r.choice(["//", "!", "#", "--"])
        fname = r.choice(["wrapfoo.cpp", "wrapffoo.f", "typesfoo.h", "x.c"])
        version = r.choice(["0.12.2", "nowrite-version", "1.0"])
        copyright = [r.choice(["Copyright (c) 2017", "", "SPDX-License-Identifier: (BSD-3-Clause)", "other Shroud Project Developers."])
                     for _ in range(r.randrange(0, 4))]
        items = wl_cases[k % len(wl_cases)][4]
        ll = r.choice([20, 72, 132])
        sp, cont = "    ", r.choice(["", " &"])
        reqs.append("wof %s %s %s %s %d %s %s %s" % (common.enc(comment), common.enc(fname), common.enc(version),
                                                   common.encs(copyright) if copyright else "~", ll, common.enc(sp), common.enc(cont), enc_items(items)))
        impl.append(real_wof(comment, fname, version, copyright, ll, sp, cont, items))
    # _literal_lines: the protection of user supplied lines
    lit_cases = ["", "#", "@", "+", "-", "^", "a+", "x = a +", "- b;", "#if X +", "@brief", "^x", "+-", "-+", " -x", "a\t+"]
    for s0 in gen_strings("a+-@#^ ", 3 if not thorough else 4):
        lit_cases.append(s0)
    for _ in range(2000 if thorough else 400):
        lit_cases.append(rand_line(r).replace("\n", " "))
    for s0 in lit_cases:
        reqs.append("lit %s" % common.enc(s0))
        try:
            src = [s0]
            first = list(w._literal_lines(src))
            second = list(w._literal_lines(src))
            if src != [s0] or second != first:
                # the model's `protect` is a function of the line: the caller's list must come back untouched
                impl.append("impure:" + common.enc(second[0]))
            else:
                impl.append(common.enc(first[0]))
        except Exception as e:  # noqa
            impl.append("crash %s" % type(e).__name__)
    ctx.note("literal_line_cases", len(lit_cases))
    ctx.count(len(reqs))
    disagreements = []
    if drv.available() and ok:
        model = drv.run(reqs)
        for q, a, b in zip(reqs, impl, model):
            if a != b:
                disagreements.append({"request": q, "impl": a, "model": b})
            nt = a.count(";")
            if nt >= 1 or a.startswith("crash"):
                ctx.nontrivial(q)
        if disagreements:
            ctx.tie_broken("lines-correspondence", disagreements[:5])
    else:
        ctx.tie_broken("lines-correspondence", "driver not built")
    ctx.note("wc_cases", len(wc_cases))
    ctx.note("wl_cases", len(wl_cases))
    ctx.note("disagreements", len(disagreements))
    dist = {"crash": sum(1 for a in impl if a.startswith("crash")),
            "multi_line": sum(1 for a in impl if a.count(";") >= 1),
            "single_line": sum(1 for a in impl if a.startswith("ok") and a.count(";") == 0)}
    ctx.note("distribution", dist)
    for q, a in list(zip(reqs, impl))[:: max(1, len(reqs) // 6)][:6]:
        ctx.sample({"request": q, "impl": a})

    # ---------------- oracle on the real implementation (always; wider when something broke)
    bad = 0
    ocases = wc_cases if (thorough or ctx.broken) else wc_cases[:: 3]
    for (ll, ind, sp, cont, line) in ocases:
        if not all(c in WS for c in sp):
            continue
        why = oracle_wc(w, ll, ind, sp, cont, line)
        ctx.count(1)
        if why:
            key = "wc:" + why.split(":")[0]
            if ctx.fail(key, why, {"linelen": ll, "indent": ind, "spaces": sp, "cont": cont, "line": line}):
                bad += 1
                if bad > 5:
                    break
    # write_lines directive oracle (documented directive table vs emitted text)
    wbad = 0
    for (ll, ind, sp, cont, items) in (wl_cases if (thorough or ctx.broken) else wl_cases[:: 2]):
        if not all(c in WS for c in sp):
            continue
        why = oracle_wl(w, ll, ind, sp, cont, items)
        ctx.count(1)
        if why:
            if ctx.fail("wl:" + why.split(":")[0].split(" %")[0][:40], why, {"linelen": ll, "indent": ind, "spaces": sp, "cont": cont, "items": items}):
                wbad += 1
                if wbad > 5:
                    break
    # emitter configuration: each language's files depend on its own line-length option only, and no
    # non-comment Fortran line exceeds 132 columns
    linecfg_oracle(ctx, r, thorough, drv, ok)
    # no history: the same line, varying line length / indentation, one instance and several, against a fresh process
    history_oracle(ctx, r, thorough, drv, ok)
    # user supplied lines (declaration-level splicer:, splicer_code:) reach the files character for character
    literal_oracle(ctx, r, thorough)
    # write_lines crash oracle: logical lines consisting only of directives
    for s in ["@", "+", "-", "+-", "--", "-+"]:
        res = real_wl(w, 72, 0, "    ", "&", [s])
        ctx.count(1)
        if res.startswith("crash"):
            ctx.fail("wl-empty-body:" + s, "write_lines(%r) raises %s" % (s, res[6:]), {"lines": [s]})
    # generated-file line lengths (corpus measurement)
    if thorough:
        from tools import shroudrun
        over = shroudrun.long_fortran_lines(ctx)
        ctx.note("fortran_lines_over_132", over)


EMITTER_CODE = {"Wrapc": 0, "Wrapf": 1, "Wrapp": 2, "Wrapl": 3}


class WcHook:
    """Records every write_continue call of real Shroud runs in this process (class, instance, indentation at the time,
    indentation unit, logical line, text written) and keeps the emitter instances as their __init__ configured them."""

    def __enter__(self):
        from shroud import util
        self.util = util
        self.orig = util.WrapperMixin.write_continue
        self.calls = []
        self.inst = {}
        hook = self

        def write_continue(self_, fp, line, spaces="    "):
            buf = io.StringIO()
            ind = getattr(self_, "indent", 0)
            hook.orig(self_, buf, line, spaces)
            text = buf.getvalue()
            fp.write(text)
            name = type(self_).__name__
            hook.inst.setdefault(name, self_)
            hook.calls.append((name, self_, ind, spaces, line, text))

        util.WrapperMixin.write_continue = write_continue
        return self

    def __exit__(self, *a):
        self.util.WrapperMixin.write_continue = self.orig
        return False

    def take(self):
        calls, inst = self.calls, self.inst
        self.calls, self.inst = [], {}
        return calls, inst


def nominal(name, inst):
    """(line length, marker ok) the property speaks about for a language emitter: Fortran files follow F_line_length and
    continue with `&`, every other language follows C_line_length and has no marker"""
    o = inst.newlibrary.options
    if name == "Wrapf":
        return int(o.F_line_length), inst.cont.strip() == "&"
    return int(o.C_line_length), inst.cont == ""


def judge_call(name, inst, ind, spaces, line, text):
    """one write_continue call of an emitter, judged against the OPTION of its language"""
    bound, cont_ok = nominal(name, inst)
    if not cont_ok:
        return "emitter %s uses the continuation marker %r" % (name, inst.cont)
    if not text.endswith("\n"):
        return "the written text does not end with a newline"
    if "\n" in line or not all(c in WS for c in spaces):
        return None
    return judge_wc(text[:-1].split("\n"), bound, ind, spaces, inst.cont, line)


def drive_emitter(inst, ind, spaces, line):
    """write_continue on a real emitter instance, configured by its own __init__ during a real run"""
    saved = getattr(inst, "indent", 0)
    inst.indent = ind
    fp = io.StringIO()
    try:
        inst.write_continue(fp, line, spaces)
    finally:
        inst.indent = saved
    return fp.getvalue()


HISTORY_SRC = r"""
import io, json, sys
from shroud import util
cases = json.load(sys.stdin)
out = [None] * len(cases)
for k in reversed(range(len(cases))):
    ll, ind, sp, cont, line = cases[k]
    class W(util.WrapperMixin):
        pass
    w = W(); w.linelen, w.indent, w.cont = ll, ind, cont
    fp = io.StringIO()
    try:
        w.write_continue(fp, line, sp)
        out[k] = fp.getvalue()
    except Exception as e:
        out[k] = "crash " + type(e).__name__
print(json.dumps(out))
"""


def history_cases(r, n):
    """the same logical line written several times with different line lengths / indentation: (line, spaces, cont,
    [(linelen, indent), ...]); every sequence contains a step down and a step up in line length"""
    out = []
    for _ in range(n):
        line = struct_line(r)
        sp, cont = r.choice(["    ", "  "]), r.choice([" &", "&", ""])
        ind = r.randrange(0, 3)
        lls = r.sample([12, 20, 30, 40, 60, 72, 100, 132, 250], 3)
        seq = [(max(lls), ind), (min(lls), ind), (max(lls), ind), (sorted(lls)[1], ind), (min(lls), ind + 1), (min(lls), ind)]
        out.append((line, sp, cont, seq))
    return out


def history_oracle(ctx, r, thorough, drv, ok):
    """write_continue must be a function of (line, linelen, indent, spaces, cont): the same line is written repeatedly
    with different line lengths on one instance and across instances in this process; every result is judged against the
    line length of ITS call (implementation only), compared with the Lean model's session (wcSession), and compared with a
    fresh process that performs the same calls in reverse order on fresh instances."""
    import json
    import subprocess
    import sys
    cases = history_cases(r, 1500 if thorough else 300)
    a, b = _mixin(), _mixin()
    flat, got, reqs, impl = [], [], [], []
    bad = 0
    for line, sp, cont, seq in cases:
        res = []
        for k, (ll, ind) in enumerate(seq):
            w = a if k % 2 == 0 else b
            rr = real_wc(w, ll, ind, sp, cont, line)
            res.append(rr)
            flat.append([ll, ind, sp, cont, line])
            got.append(rr)
            ctx.count(1)
            if rr.startswith("crash"):
                why = "write_continue raised %s" % rr[6:]
            else:
                why = judge_wc(common.decs(rr[3:]), ll, ind, sp, cont, line)
            if why and bad <= 5:
                if ctx.fail("wc-history:" + why.split(":")[0], "call %d of a sequence on the same line (line lengths %s): %s" % (
                        k, [q[0] for q in seq], why),
                        {"sequence": [list(q) for q in seq[:k + 1]], "spaces": sp, "cont": cont, "line": line}):
                    bad += 1
        same_ind = [q for q in seq if q[1] == seq[0][1]]
        reqs.append("wcs %d %s %s %s %s" % (seq[0][1], common.enc(sp), common.enc(cont), common.enc(line), " ".join(str(q[0]) for q in same_ind)))
        impl.append("|".join(x[3:] if x.startswith("ok ") else x for x, q in zip(res, seq) if q[1] == seq[0][1]))
        if len(set(res)) > 1:
            ctx.nontrivial(("history", line))
    ctx.note("history_sequences", len(cases))
    if drv.available() and ok:
        model = drv.run(reqs)
        dis = [{"request": q, "impl": x, "model": y} for q, x, y in zip(reqs, impl, model) if x != y]
        if dis:
            ctx.tie_broken("lines-history-correspondence", dis[:3])
    # fresh process, reverse order, fresh instances
    e = dict(os.environ, PYTHONPATH=common.REPO, PYTHONDONTWRITEBYTECODE="1")
    p = subprocess.run([sys.executable, "-c", HISTORY_SRC], input=json.dumps(flat), stdout=subprocess.PIPE, stderr=subprocess.PIPE, text=True, env=e)
    if p.returncode:
        ctx.tie_broken("lines-history-fresh-process", p.stderr[-600:])
        return
    fresh = json.loads(p.stdout.strip().split("\n")[-1])
    diffs = []
    for c, x, y in zip(flat, got, fresh):
        y2 = y if y.startswith("crash") else "ok " + common.encs(y[:-1].split("\n"))
        if x != y2:
            diffs.append({"call": c, "in_sequence": x, "fresh_process_reverse_order": y2})
    ctx.note("history_calls_compared_with_fresh_process", len(flat))
    if diffs:
        ctx.tie_broken("lines-history-fresh-process", diffs[:3])


def emitter_oracle(ctx, r, hook, yaml_text, tag, em_reqs, em_impl, ndrive, libtag):
    """after one real run under the hook: (a) every write_continue call the run made, (b) `ndrive` statement-shaped lines
    driven through each emitter instance the run created - all judged against the OPTION of the emitter's language."""
    calls, inst = hook.take()
    bad = 0
    for name, self_, ind, spaces, line, text in calls:
        if name not in EMITTER_CODE:
            continue
        ctx.count(1)
        why = judge_call(name, self_, ind, spaces, line, text)
        if why:
            o = self_.newlibrary.options
            if ctx.fail("emitter:%s:linelen=option%+d:%s" % (name, int(self_.linelen) - nominal(name, self_)[0], why.split(":")[0]),
                        "%s (C_line_length=%s F_line_length=%s, self.linelen=%s) wrote %r for the logical line %r at indentation %d: %s" % (
                            name, o.C_line_length, o.F_line_length, self_.linelen, text, line, ind, why),
                        {"yaml": yaml_text, "emitter": name, "indent": ind, "spaces": spaces, "line": line, "written": text,
                         "runs_before_in_this_process": tag}):
                bad += 1
                if bad > 3:
                    break
    for name, self_ in sorted(inst.items()):
        if name not in EMITTER_CODE:
            continue
        o = self_.newlibrary.options
        bound, _ = nominal(name, self_)
        dbad = 0
        for _ in range(ndrive):
            line = struct_line(r)
            ind, sp = r.randrange(0, 4), r.choice(["    ", "  "])
            try:
                text = drive_emitter(self_, ind, sp, line)
            except Exception as e:  # noqa
                ctx.fail("emitter:%s:crash" % name, "write_continue raised %r" % (e,), {"yaml": yaml_text, "emitter": name, "indent": ind, "spaces": sp, "line": line})
                break
            ctx.count(1)
            em_reqs.append("em %d %d %d %d %s %s" % (EMITTER_CODE[name], int(o.C_line_length), int(o.F_line_length), ind, common.enc(sp), common.enc(line)))
            em_impl.append("ok " + common.encs(text[:-1].split("\n")))
            if text.count("\n") > 1:
                ctx.nontrivial(("em", name, libtag, line))
            why = judge_call(name, self_, ind, sp, line, text)
            if why and dbad <= 2:
                if ctx.fail("emitter:%s:linelen=option%+d:%s" % (name, int(self_.linelen) - nominal(name, self_)[0], why.split(":")[0]),
                            "%s as its __init__ configured it (C_line_length=%s F_line_length=%s, self.linelen=%s, cont=%r) wrote %r for the logical line %r "
                            "at indentation %d; judged against the option of its language (%d): %s" % (
                                name, o.C_line_length, o.F_line_length, self_.linelen, self_.cont, text, line, ind, bound, why),
                            {"yaml": yaml_text, "emitter": name, "indent": ind, "spaces": sp, "line": line, "written": text,
                             "runs_before_in_this_process": tag}):
                    dbad += 1


def continued_comment(tree):
    """(file, line number, text) of the first Fortran comment line that ends with the continuation marker: a comment
    cannot be continued, so whatever follows it lies outside the comment"""
    for fn, data in sorted(tree.items()):
        if fn.endswith(".f"):
            for ln, line in enumerate(data.decode(errors="replace").split("\n"), 1):
                t = line.strip()
                if t.startswith("!") and t.endswith("&") and not t.startswith("!$"):
                    return fn, ln, line
    return None


def linecfg_oracle(ctx, r, thorough, drv=None, ok=False):
    em_reqs, em_impl = [], []
    with WcHook() as hook:
        _linecfg_oracle(ctx, r, thorough, hook, em_reqs, em_impl)
    ctx.note("emitter_driven_calls", len(em_reqs))
    if drv is not None and drv.available() and ok:
        model = drv.run(em_reqs)
        dis = [{"request": q, "impl": x, "model": y} for q, x, y in zip(em_reqs, em_impl, model) if x != y]
        if dis:
            ctx.tie_broken("emitter-correspondence", dis[:3])
    elif drv is not None:
        ctx.tie_broken("emitter-correspondence", "driver not built")


def _linecfg_oracle(ctx, r, thorough, hook, em_reqs, em_impl):
    from tools import shroudrun
    from tools.gen import libgen
    work = common.scratch()
    ndrive = 600 if thorough else 150
    try:
        for i in range(4 if thorough else 2):
            lib = libgen.gen_lib(r, name="ll%d" % i, language="c++", wrap={"wrap_python": True, "wrap_lua": True})
            # a function with a long argument list, so continuation lines are certain
            lib.decls.append({"decl": "double accumulate_weighted_sum_of_values(const std::string & label_of_the_result, " + ", ".join(
                "double input_value_number_%d" % k for k in range(12)) + ")",
                # documentation text with break hints (TAB, FF) and long lines, on first and later lines
                "doxygen": {"brief": "Accumulate the weighted sum\tof all the input values given, in order, and return it",
                            "description": "The first line of the description is short.\n"
                                           "The second line\tcontains a tab and is long enough that it cannot fit into a single line of the output file.\n"
                                           "third\fline with a form feed and more words so that it also is longer than the limit of seventy-two",
                            "return": "zero\twhen empty, otherwise the weighted sum of every one of the values that were passed to the function"}})
            trees = {}
            # several configurations of the same library one after the other in this process (lengths go up and down, so
            # a layout carried over from an earlier run shows), small values (many continued lines) and the Fortran maximum
            done = []
            for tag, (cl, fl) in {"base": (72, 72), "bigC": (400, 72), "bigF": (72, 120), "smallC": (40, 72), "smallF": (72, 40),
                                  "maxF": (72, 132)}.items():
                lib.options.update(C_line_length=cl, F_line_length=fl)
                d = common.scratch()
                try:
                    y = shroudrun.write_yaml(d, "ll.yaml", lib.yaml())
                    cfg, exc, out = shroudrun.run_inproc([y], d)
                    ctx.count(1)
                    if exc is not None:
                        hook.take()
                        ctx.fail("linecfg:exception", "Shroud failed with C_line_length=%d F_line_length=%d: %r" % (cl, fl, exc), {"yaml": lib.yaml()})
                        continue
                    emitter_oracle(ctx, r, hook, lib.yaml(), list(done), em_reqs, em_impl, ndrive, (i, tag))
                    done.append({"C_line_length": cl, "F_line_length": fl})
                    trees[tag] = shroudrun.read_tree(d)
                    cc = continued_comment(trees[tag])
                    ctx.count(1)
                    if cc:
                        ctx.fail("linecfg:comment-continued:%s" % cc[0].replace("ll%d" % i, "<lib>"),
                                 "%s line %d is a comment that ends with the continuation marker; what follows is outside the comment: %r" % cc,
                                 {"yaml": lib.yaml(), "file": cc[0], "line": cc[1]})
                finally:
                    common.rmtree(d)
                ctx.nontrivial(("linecfg", i, tag))
                for fn, data in trees[tag].items():
                    if fn.endswith(".f"):
                        for ln, line in enumerate(data.decode().split("\n"), 1):
                            if len(line) > max(132, fl + 2) and not line.lstrip().startswith("!"):
                                ctx.fail("linecfg:fortran-line-over-132:C%d:F%d" % (cl, fl),
                                         "non-comment Fortran line of %d columns with C_line_length=%d F_line_length=%d (%s line %d)" % (
                                             len(line), cl, fl, fn, ln), {"yaml": lib.yaml(), "file": fn, "line": ln})
                                break
            if i == 0:
                # identifiers of ordinary length (<= 63 characters): overloaded type-bound procedures, long dummy names,
                # long function names, at DEFAULT line lengths - no non-comment Fortran line may exceed 132 columns
                ln45 = "compute_the_weighted_average_of_all_the_value"           # 45 characters
                ln61 = "a_very_long_but_perfectly_legal_dummy_argument_name_number_one"[:61]
                longlib = libgen.Lib("longnames", "c++", [
                    {"decl": "class Accumulator1234", "declarations": [
                        {"decl": "Accumulator1234()"},
                        {"decl": "void %s(int n)" % ln45},
                        {"decl": "void %s(double x)" % ln45},
                        {"decl": "void %s(int n, double x)" % ln45},
                        {"decl": "void %s(const std::string & name)" % ln45}]},
                    {"decl": "double %s_free(double %s, double %s2, int *%s_out +intent(out))" % (ln45, ln61, ln61[:60], ln61[:57])},
                    {"decl": "void %s_over(int i)" % ln45}, {"decl": "void %s_over(double d)" % ln45},
                    {"decl": "void %s_over(int i, double d, const std::string & s)" % ln45},
                    # a callback with several long named parameters (abstract interface statement)
                    {"decl": "void register_the_progress_callback(void (*progress_callback_function)(double %s, double %s, int %s))" % (
                        "fraction_of_work_completed_so_far", "estimated_seconds_remaining_now", "identifier_of_the_current_stage")},
                    # statements that carry an argument's name several times (c_f_pointer, allocate/deallocate, copy-back, coercion)
                    {"decl": "void get_values(int n, double **values_computed_by_the_library_for_the_current_timestep +intent(out)+dimension(n))"},
                    {"decl": "void refill(std::vector<double> &values_computed_by_the_library_for_the_current_timestep +intent(inout)+deref(allocatable))"},
                    {"decl": "void setflags(bool the_flag_that_tells_whether_the_values_are_final_now, bool *another_flag_that_is_returned_to_the_caller_now +intent(out))"},
                    {"decl": "void describe(int *values_computed_by_the_library_for_the_current_step +cdesc+rank(1))"},
                    # several classes and structs of ordinary name length used from a nested namespace (USE / IMPORT lists)
                ] + [{"decl": "class AccumulatorOfWeightedValues%d" % k, "declarations": [{"decl": "AccumulatorOfWeightedValues%d()" % k}]} for k in range(6)]
                  + [{"decl": "struct MeasurementRecordNumber%d { int count%d; double value%d; };" % (k, k, k)} for k in range(5)]
                  + [{"decl": "struct observation_station_record_of_the_survey { int nx; int ny; };", "options": {"wrap_struct_as": "class"}},
                     # a free function attached to the struct-as-class under another (long) name: `procedure :: name => impl`
                     {"decl": "int count_the_observations_recorded_at_the_station_in_the_survey(const observation_station_record_of_the_survey *station +pass)",
                      "options": {"class_method": "observation_station_record_of_the_survey"},
                      "format": {"F_name_function": "number_of_observations_recorded_at_the_station_during_it"}},
                     {"decl": "void absorb(AccumulatorOfWeightedValues0 *the_accumulator_that_receives_the_values_of_this_timestep, const std::string & label_attached_to_the_values_of_the_current_timestep)"},
                     {"decl": "int sum_all_the_records(%s)" % ", ".join("MeasurementRecordNumber%d *r%d" % (k, k) for k in range(5))},
                     {"decl": "namespace inner", "declarations": [
                         {"decl": "void combine(%s)" % ", ".join("AccumulatorOfWeightedValues%d *a%d" % (k, k) for k in range(6))}]}],
                    {"wrap_python": False, "wrap_lua": False})
                d = common.scratch()
                try:
                    y = shroudrun.write_yaml(d, "longnames.yaml", longlib.yaml())
                    cfg, exc, out = shroudrun.run_inproc([y], d)
                    ctx.count(1)
                    ctx.nontrivial(("linecfg", "longnames"))
                    if exc is not None:
                        hook.take()
                        ctx.fail("linecfg:exception:longnames", "Shroud failed on long identifiers: %r" % (exc,), {"yaml": longlib.yaml()})
                    else:
                        emitter_oracle(ctx, r, hook, longlib.yaml(), [], em_reqs, em_impl, 0, "longnames")
                        for fn, data in shroudrun.read_tree(d).items():
                            if fn.endswith(".f"):
                                for ln, line in enumerate(data.decode().split("\n"), 1):
                                    if len(line) > 132 and not line.lstrip().startswith("!"):
                                        ctx.fail("linecfg:fortran-line-over-132:default:longnames",
                                                 "non-comment Fortran line of %d columns at default line lengths with identifiers <= 63 characters (%s line %d): %s" % (
                                                     len(line), fn, ln, line[:80]), {"yaml": longlib.yaml(), "file": fn, "line": ln})
                                        break
                finally:
                    common.rmtree(d)
            if "base" in trees:
                def diff(a, b, pred):
                    return sorted(f for f in set(a) | set(b) if pred(f) and a.get(f) != b.get(f))
                isf = lambda f: f.endswith(".f")
                isc = lambda f: f.endswith((".c", ".cpp", ".h", ".hpp"))
                for tag, pred, what in (("bigC", isf, "Fortran files change with C_line_length"),
                                        ("smallC", isf, "Fortran files change with C_line_length"),
                                        ("bigF", isc, "C/C++/Python/Lua files change with F_line_length")):
                    if tag in trees:
                        dd = diff(trees["base"], trees[tag], pred)
                        ctx.count(1)
                        if dd:
                            ctx.fail("linecfg:cross-dependence:%s" % tag, "%s: %s" % (what, dd[:4]), {"yaml": lib.yaml(), "files": dd[:8]})
    finally:
        common.rmtree(work)


USER_LINES_C = ["int SHC_rv = first +", "- third;", "+ 1;", "@brief user line", "^caret line", "return SHC_rv +", "0;",
                "-- x; /* two dashes */", "a = b + /* trailing */ c +"]
USER_LINES_F = ["SHT_rv = first + &", "- third", "+ 1", "@not a directive", "^caret"]


def literal_oracle(ctx, r, thorough):
    """End to end, implementation only: user lines that look like write_lines directives, supplied through a
    declaration-level `splicer:` block and through `splicer_code:`, must appear in the generated file with every
    character (leading indentation aside), and the line after the block must keep its indentation."""
    from tools import shroudrun
    import yaml as _yaml
    for rep in range(3 if thorough else 1):
        cl = r.sample(USER_LINES_C, r.randrange(3, len(USER_LINES_C) + 1))
        fl = r.sample(USER_LINES_F, r.randrange(2, len(USER_LINES_F) + 1))
        cl2 = r.sample(USER_LINES_C, r.randrange(2, 6))
        desc = {"library": "lit", "cxx_header": "lit.hpp", "language": "c++",
                "options": {"wrap_python": False, "wrap_lua": False},
                "declarations": [
                    {"decl": "int lfun(int first, int third)", "splicer": {"c": list(cl), "f": list(fl)}},
                    {"decl": "int lbuf(const std::string & first, int third)", "splicer": {"c_buf": list(cl)}},
                    {"decl": "int lcode(const std::string & first, int third)"},
                    # one declaration, several wrappers (default arguments): every one of them carries the user's lines
                    {"decl": "int ldef(int first, int third = 1, int fourth = 2)", "splicer": {"c": list(cl)}}],
                "splicer_code": {"c": {"function": {"lcode": list(cl2)}}, "f": {"function": {"lcode": list(fl)}}}}
        text = _yaml.safe_dump(desc, sort_keys=False)
        d = common.scratch()
        try:
            y = shroudrun.write_yaml(d, "lit.yaml", text)
            cfg, exc, out = shroudrun.run_inproc([y], d)
            ctx.count(1)
            ctx.nontrivial(("literal", rep))
            if exc is not None:
                ctx.fail("literal:exception", "Shroud failed on a description with splicer blocks: %r" % (exc,), {"yaml": text})
                continue
            tree = shroudrun.read_tree(d)
            files = {"c": b"\n".join(v for k, v in tree.items() if k.endswith(".cpp")).decode(),
                     "f": b"\n".join(v for k, v in tree.items() if k.endswith(".f")).decode()}
            for where, block, lines, lang in (("splicer: c of lfun", "function.lfun", cl, "c"), ("splicer: f of lfun", "function.lfun", fl, "f"),
                                              ("splicer: c_buf of lbuf", "function.lbuf_bufferify", cl, "c"),
                                              ("splicer_code c of lcode", "function.lcode", cl2, "c"),
                                              ("splicer_code f of lcode", "function.lcode", fl, "f")):
                phys = files[lang].split("\n")
                b = [k for k, ln in enumerate(phys) if "splicer begin " + block in ln and ln.strip().endswith(block)]
                e = [k for k, ln in enumerate(phys) if "splicer end " + block in ln and ln.strip().endswith(block)]
                ctx.count(1)
                if not b or not e:
                    ctx.fail("literal:block-missing:" + where, "block %s not found in the %s output" % (block, lang), {"yaml": text})
                    continue
                got = [ln.strip() for ln in phys[b[0] + 1:e[0]]]
                want = [ln.strip() for ln in lines]
                if got != want:
                    ctx.fail("literal:user-line-altered:" + where.split(" of ")[0],
                             "user lines supplied through %s are not emitted character for character: want %r, got %r" % (where, want, got),
                             {"yaml": text, "block": block, "want": want, "got": got})
                if block == "function.lfun" and lang == "c":
                    # the default-argument variants of ldef: all blocks whose name starts with function.ldef
                    starts = [k for k, ln in enumerate(phys) if "splicer begin function.ldef" in ln]
                    ctx.count(1)
                    if len(starts) < 3:
                        ctx.fail("literal:block-missing:default-argument-variants", "expected 3 C wrappers for ldef, found %d blocks" % len(starts), {"yaml": text})
                    for k0 in starts:
                        k1 = next(k for k in range(k0 + 1, len(phys)) if "splicer end function.ldef" in phys[k])
                        gotv = [ln.strip() for ln in phys[k0 + 1:k1]]
                        if gotv != want:
                            ctx.fail("literal:user-line-altered:variant-of-one-declaration",
                                     "user lines of one declaration-level splicer differ between the wrappers generated from it (%s): want %r, got %r" % (
                                         phys[k0].strip(), want, gotv), {"yaml": text, "want": want, "got": gotv})
                            break
                ib = len(phys[b[0]]) - len(phys[b[0]].lstrip())
                ie = len(phys[e[0]]) - len(phys[e[0]].lstrip())
                if ib != ie:
                    ctx.fail("literal:indentation-shifted:" + where.split(" of ")[0],
                             "the lines after block %s are indented %d instead of %d columns: a user line was read as an indentation directive" % (block, ie, ib),
                             {"yaml": text, "block": block})
        finally:
            common.rmtree(d)


def replay(path):
    import json
    d = json.load(open(path))
    w = _mixin()
    for f in d.get("failing", []):
        rp = f["replay"]
        if "sequence" in rp:
            # the same line written repeatedly on two instances; the last call is the failing one
            a, b = _mixin(), _mixin()
            why = None
            for k, (ll, ind) in enumerate(rp["sequence"]):
                why = oracle_wc(a if k % 2 == 0 else b, ll, ind, rp["spaces"], rp["cont"], rp["line"])
            print(f["key"], "->", why)
        elif "emitter" in rp:
            # earlier configurations of the same description in this process, then the failing one; the emitter instance of
            # the last run writes the line
            from tools import shroudrun
            import re
            why = None
            with WcHook() as hook:
                texts = []
                for cfg in rp.get("runs_before_in_this_process", []):
                    t = rp["yaml"]
                    for k, v in cfg.items():
                        t = re.sub(r"(%s:\s*)\d+" % k, lambda m: m.group(1) + str(v), t)
                    texts.append(t)
                for t in texts + [rp["yaml"]]:
                    dd = common.scratch()
                    try:
                        shroudrun.run_inproc([shroudrun.write_yaml(dd, "replay.yaml", t)], dd)
                    finally:
                        common.rmtree(dd)
                    calls, inst = hook.take()
                for name, self_, ind, spaces, line, text in calls:
                    if name == rp["emitter"] and line == rp["line"] and ind == rp["indent"]:
                        why = judge_call(name, self_, ind, spaces, line, text)
                        if why:
                            break
                if why is None and rp["emitter"] in inst:
                    self_ = inst[rp["emitter"]]
                    why = judge_call(rp["emitter"], self_, rp["indent"], rp["spaces"], rp["line"],
                                     drive_emitter(self_, rp["indent"], rp["spaces"], rp["line"]))
            print(f["key"], "->", why)
        elif "line" in rp:
            print(f["key"], "->", oracle_wc(w, rp["linelen"], rp["indent"], rp["spaces"], rp["cont"], rp["line"]))
        elif "lines" in rp:
            print(f["key"], "->", real_wl(w, 72, 0, "    ", "&", rp["lines"]))
        else:
            print(f["key"], "->", f.get("what"))
    return 0
