"""C09 Declarations are understood exactly as a C++ compiler understands them.

Proof: lean/ShroudVerif/Props/C09.lean (round trip parse(tokens(gen_decl d)) = ok d, partial domain).
Tie (D): real declast.check_decl -> todict.to_dict and gen_decl / gen_arg_as_cxx / gen_arg_as_c /
as_cast / str vs the Lean driver drv_decl, compared exactly (outcome class, last line of the diagnostic,
structure, the five renderings, token-level renderings).
Oracle (implementation only): (a) parse(render(parse d)) == parse d on the real parser;
(b) g++: decltype(original) is the same type as decltype(gen_arg_as_cxx rendering); gcc: the C rendering
compiles and, for reference-free declarations of C types, is a compatible type.
"""
import os
import re
import subprocess

from tools import common
from tools import extract_decl
from tools.props import decl_common as dc

LEVEL = "proof"
MANIFEST = dict(
    category="proof",
    text="Lean 4 theorems over a model of declast.Parser (declaration_specifier incl. canonical_typemap and names resolved through "
         "the symbol environment, declarator, pointer, parameter_list, array dimensions via ExprParser, attribute, initializer, "
         "decl_statement) and of the unparsers gen_decl / gen_arg_as_cxx / gen_arg_as_c / as_cast / str, for declarations of "
         "unbounded depth: (3) roundtrip_partial: parse(tokens(gen_decl d)) = ok d on the domain WF (no default values, template "
         "arguments or qualified names; array dimensions a constant or identifier; rendered attributes; distinct parameter "
         "names); (1) denote_toks / denote_toks_param / parse_agrees_with_cxx_partial: an independent reference semantics "
         "cxxMeaning written from the C++ declarator grammar reads Shroud's own rendering as the name and the type denote(d) "
         "that Shroud records, on WF + RP, under the hypothesis BaseAgrees (typemap of a built-in specifier multiset = the "
         "standard's type, checked exhaustively through the driver and against g++ on every run); (2) "
         "denote_argToks_cxx_object_partial / denote_argToks_c_object_partial: the same for the gen_arg_as_cxx and gen_arg_as_c "
         "token renderings of OBJECT declarations (pointer/reference/array chains with cv at every level), the C one with "
         "references turned into pointers (toC). The model is tied to declast.py/todict.py on every run by differential "
         "correspondence through the compiled Lean driver (outcome class, diagnostic text, structure, five renderings, token-"
         "level renderings; default and nested-namespace environments); implementation-only oracles: real-parser round trip "
         "(also after the generate phase, comparing attribute values), g++ is_same of decltype(original) vs the rendering (also "
         "with asgn_value=True) and vs cxxMeaning, g++ value comparison of every recorded array-extent expression tree with its "
         "source text (grouping/associativity) and of the text PrintNode writes for that tree (the compiler must accept it and read "
         "the same value: `n--1` re-parses in Shroud but is a decrement for a compiler), g++ is_same of the remove_const=True "
         "rendering with the declared type minus the const of its base type only (volatile and pointer-level cv kept), gcc type "
         "compatibility of the C rendering. AST-rewriting operations "
         "(Model/Rewrite.lean: set_return_to_void, _as_arg, result_as_arg, set_type/instantiate as functions on Decl, crash sites "
         "included): setReturnToVoid_resets_type (nothing of the old result type is left, template arguments included, for every "
         "declaration), setReturnToVoid_roundtrip (the rewritten declaration parses back from its rendering whatever the old result "
         "type was), resultAsArg_roundtrip_partial (same after result_as_arg with a fresh name, on WF), asArg_keeps_type, "
         "setType_keeps_rest; tied to the real methods by the driver op `rewrite` on a systematic family (templated / string / "
         "char / built-in results x pointer chains x cv x parameter lists) and on generated function declarations; "
         "implementation-only oracles after each rewrite: real-parser round trip of gen_decl, g++ is_same with "
         "`void name(params..., R* arg)` built by the compiler from the original, result type of the prototype renderings is void; "
         "the g++/gcc is_same oracles also compare every declaration rendered under another name (name='SH_x') and without a "
         "name (name=None), nested declarators (pointer/reference to function and to array) included. NAME LOOKUP through nested "
         "scopes (Model/NameLookup.lean: the chain of library / namespace / class / block scopes, innermost first, with using-"
         "directives; Chain.lookup models unqualified_lookup of every node kind, Chain.toEnv builds the environment the "
         "declaration parser takes as given): inner_hides_outer (a name declared in an inner scope hides the same name further "
         "out), class_falls_through, delegate_is_transparent, namespace_using_before_outer, toEnv_unq (Env.unq of the flattened "
         "chain IS the chain lookup), member_type_hides_in_env; tied by the driver ops `scope` / `sparse` to the real "
         "unqualified_lookup and to check_decl(text, namespace=scope) on generated scope trees with the same names declared at "
         "several depths (every subset of six scopes; random trees with using-directives); g++ compiles the C++ text of each tree "
         "with static_assert(is_same<N, ::T>) inside every scope for the type T Shroud resolves N to, and for the parameter / "
         "result types of declarations parsed inside the scope.",
    design="3 C09",
    note="Scope: the VALUES of enumerators (ast.EnumNode.__init__: cvalue/fvalue/incr chain for implicit members) are property C11's "
         "statement and are checked there (C11 reports seeded change C09-r6-2 with a concrete enum); C09 covers the expression parser "
         "and printer those values are written with, through array extents. "
         "Trusted: Lean kernel (axioms propext, Classical.choice, Quot.sound); the hand-written models Model/Decl.lean, Token.lean, "
         "CxxMeaning.lean, validated on generated inputs only (corpus, 981 systematic parameter-list shapes, 672 qualified names "
         "over a nested environment, grammar-directed declarations, single-token mutations, random token sequences); cxxMeaning "
         "as a rendering of ISO C++ for this declarator subset (validated against g++ 12 on every run); Python number formatting "
         "run by the harness. _partial / not proved: function-declarator case of the argToks theorems, arbitrary accepted token "
         "lists for clause (1) (only canonical renderings), general [expr] dimensions, qualified/templated types in WF. The rendering "
         "entry points with their keyword arguments (asgn_value, remove_const, as_ptr, force_ptr, as_scalar, name=, params=None, "
         "with_template_args, continuation) are modelled (genArgK; argConst_default, asgn_value_keeps_const_behind_indirection, "
         "asgn_value_drops_const_of_values, genArgK_asgn_value_indirect) and tied through the driver op `kw`. Open findings (3), "
         "all RENDERING LIMITATIONS of the literal round trip, none a disagreement with C++: roundtrip:attr-eq-value (+a=1 is "
         "rendered +a(1); the value becomes text), roundtrip:nested-template-argument (str() of a template argument drops its own "
         "arguments), roundtrip:expr-signed-operand (PrintNode's deliberate parentheses around a signed operand re-parse as a "
         "ParenExpr node). Fixed: all SEMANTIC disagreements with C++ (name-is-a-type c918081 + 02af1f3, typename-plus-specifier "
         "462fc2a, '(' as parameter list vs nested declarator 02af1f3: int (), T *(), int *(int), vector<int> (string)), the "
         "decorated lone void parameter (f6e47c8), attributes that were accepted but never rendered (d5f336d) and the empty "
         "parentheses of a nested declarator rendered without its name (`int (value)` with name=None gave `int ()`, 314c483).",
    technique="Lean 4 proof by induction over the declaration (printer/parser round trip; printer-side induction for the reference "
              "semantics) + differential correspondence model/implementation + g++/gcc oracles",
)
MODULES = ["ShroudVerif.Props.C09"]
THEOREMS = {
    "ShroudVerif.Props.C09": [
        "Shroud.Decl.roundtrip_partial",
        "Shroud.Decl.roundtrip_prefix_partial",
        "Shroud.Decl.defaultEnv_void",
        "Shroud.Decl.denote_toks",
        "Shroud.Decl.denote_toks_param",
        "Shroud.Decl.parse_agrees_with_cxx_partial",
        "Shroud.Decl.denote_argToks_cxx_object_partial",
        "Shroud.Decl.denote_argToks_c_object_partial",
        "Shroud.Decl.specMeans_builtin",
        "Shroud.Decl.argConst_default",
        "Shroud.Decl.asgn_value_keeps_const_behind_indirection",
        "Shroud.Decl.asgn_value_drops_const_of_values",
        "Shroud.Decl.genArgK_asgn_value_indirect",
        "Shroud.Decl.defaultEnv_voidT",
        "Shroud.Decl.setReturnToVoid_resets_type",
        "Shroud.Decl.setReturnToVoid_roundtrip",
        "Shroud.Decl.resultAsArg_roundtrip_partial",
        "Shroud.Decl.asArg_keeps_type",
        "Shroud.Decl.setType_keeps_rest",
        "Shroud.Decl.inner_hides_outer",
        "Shroud.Decl.class_falls_through",
        "Shroud.Decl.delegate_is_transparent",
        "Shroud.Decl.namespace_using_before_outer",
        "Shroud.Decl.toEnv_unq",
        "Shroud.Decl.member_type_hides_in_env",
    ]
}


# ------------------------------------------------------------------ token-level tie helpers
def ser_real_tokens(text):
    toks = dc.safe_tokenize(text)
    if toks is None:
        return "raise"
    if not toks:
        return "~"
    return " ".join("%s:%s" % (t.typ, common.enc(t.value)) for t in toks)


def token_level_domain(a, text):
    """the token-level printers are faithful for declarations without qualified names / template
    arguments / default values / `=` attributes, whose attribute text re-tokenises to itself"""
    if "::" in text or "<" in text or "=" in text:
        return False

    def ok(d):
        if d.init is not None:
            return False
        if d.declarator is None and (d.attrs.get("name") is not None or d.attrs.get("_name") is not None):
            return False      # Declaration.name of an abstract declaration comes from the attribute
        for k, v in d.attrs.items():
            if v is None or v is True:
                continue
            if not isinstance(v, str):
                return False
        for p in d.params or []:
            if not ok(p):
                return False
        return True
    return ok(a)


def attr_text_stable(toks):
    """attribute values in the source re-tokenise to themselves after "".join (e.g. not `1 2`)"""
    text = dc.join(toks)
    depth, cur, ok = 0, [], True
    it = dc.safe_tokenize(text)
    if it is None:
        return False
    i = 0
    while i < len(it):
        t = it[i]
        if depth == 0 and t.typ == "PLUS" and i + 2 < len(it) and it[i + 1].typ == "ID" and it[i + 2].typ == "LPAREN":
            depth, cur = 1, []
            i += 3
            while i < len(it) and depth:
                if it[i].typ == "LPAREN":
                    depth += 1
                elif it[i].typ == "RPAREN":
                    depth -= 1
                if depth:
                    cur.append(it[i].value)
                i += 1
            joined = "".join(cur)
            jt = dc.safe_tokenize(joined)
            if jt is None or [x.value for x in jt] != cur:
                ok = False
            continue
        i += 1
    return ok


# ------------------------------------------------------------------ oracle (a): structural round trip
def has_init(a):
    if a.init is not None:
        return True
    return any(has_init(p) for p in (a.params or []))


def rt_class(a, text):
    """Input classes for which gen_decl's rendering is known not to re-parse to the same declaration."""
    declast, _ = dc.mods()

    def walk(d, f):
        if f(d):
            return True
        return any(walk(p, f) for p in (d.params or []))

    def eq_attr(d):
        return any(v is not None and v is not True and not isinstance(v, str) for v in d.attrs.values())

    def skipped_attr(d):
        return any((k.startswith("_") or k == "template") and v is not None for k, v in d.attrs.items())

    def empty_declarator(dd):
        while dd is not None:
            if not dd.pointer and dd.name is None and dd.func is None:
                return True
            dd = dd.func
        return False

    def abstract_func(d):
        return d.params is not None and (d.declarator is None or d.name is None)

    def void_param(d):
        ps = d.params or []
        return len(ps) == 1 and ps[0].declarator is None and ps[0].specifier == ["void"]

    def symbol_name(d):
        n = d.declarator.name if d.declarator is not None else None
        nn = d.name
        try:
            lib = dc.library()
            return any(isinstance(x, str) and lib.unqualified_lookup(x) is not None for x in (n, nn))
        except Exception:  # noqa
            return False

    def templ(d):
        return any(t.template_arguments or t.const or t.volatile or t.storage for t in d.template_arguments)

    def assoc(d):
        return any(_nonleft(e) for e in d.array)

    def mixed(d):
        sp = d.specifier
        return len(sp) > 1 and any(x not in declast.type_specifier for x in sp)

    if walk(a, mixed) or any(mixed(t) for t in a.template_arguments):
        return "typename-plus-specifier"
    if walk(a, eq_attr):
        return "attr-eq-value"
    if walk(a, skipped_attr):
        return "attr-not-rendered"
    if walk(a, lambda d: empty_declarator(d.declarator)):
        return "empty-declarator"
    if walk(a, void_param):
        return "single-void-param"
    if walk(a, symbol_name):
        return "name-is-a-type"
    if walk(a, templ):
        return "nested-template-argument"
    if walk(a, assoc):
        return "expr-right-nested"
    if walk(a, lambda d: any(_signed(e) for e in d.array)):
        return "expr-signed-operand"
    return "plain"


def _nonleft(e):
    declast, _ = dc.mods()
    if isinstance(e, declast.BinaryOp):
        if isinstance(e.right, declast.BinaryOp):
            return True
        return _nonleft(e.left) or _nonleft(e.right)
    if isinstance(e, declast.UnaryOp):
        return isinstance(e.node, declast.BinaryOp) or _nonleft(e.node)
    if isinstance(e, declast.ParenExpr):
        return _nonleft(e.node)
    if isinstance(e, declast.Identifier) and e.args:
        return any(_nonleft(x) for x in e.args)
    return False


def _signed(e):
    """a signed operand after an operator: PrintNode now writes it in parentheses, which re-parses as ParenExpr"""
    declast, _ = dc.mods()
    if isinstance(e, declast.BinaryOp):
        return isinstance(e.right, declast.UnaryOp) or _signed(e.left) or _signed(e.right)
    if isinstance(e, declast.UnaryOp):
        return isinstance(e.node, declast.UnaryOp) or _signed(e.node)
    if isinstance(e, declast.ParenExpr):
        return _signed(e.node)
    if isinstance(e, declast.Identifier) and e.args:
        return any(_signed(x) for x in e.args)
    return False


def oracle_roundtrip(a, text):
    """None, or (class, reason)"""
    declast, todict = dc.mods()
    if has_init(a):
        return None
    try:
        d1 = todict.to_dict(a)
        rendered = a.gen_decl()
    except Exception as e:  # noqa
        return "render-crash", "gen_decl/to_dict of the accepted declaration %r raises %s" % (text, type(e).__name__)
    try:
        b = declast.check_decl(rendered, namespace=dc.library())
    except RuntimeError as e:
        return rt_class(a, text), "rendering %r of %r is rejected: %s" % (rendered, text, dc.last_line(e))
    except Exception as e:  # noqa
        return rt_class(a, text), "rendering %r of %r raises %s" % (rendered, text, type(e).__name__)
    d2 = todict.to_dict(b)
    if d1 != d2:
        return rt_class(a, text), "re-parsing the rendering %r of %r gives a different declaration" % (rendered, text)
    return None


# ------------------------------------------------------------------ oracle (b): g++
CXX_HEAD = """#include <string>
#include <vector>
#include <cstddef>
#include <cstdint>
#include <type_traits>
using namespace std;
typedef int MPI_Comm;
template<class T> using P = T*;
template<class T> using R = T&;
template<class T, int N> using A = T[N];
template<class Ret, class... Args> using F = Ret(Args...);
template<class Ret, class... Args> using FC = Ret(Args...) const;
template<class T> using C = const T;
template<class T> using V = volatile T;
template<class T> struct SHrc { typedef typename std::remove_const<T>::type type; };
template<class T> struct SHrc<T*> { typedef typename SHrc<T>::type* type; };
template<class T> struct SHrc<T* const> { typedef typename SHrc<T>::type* const type; };
template<class T> struct SHrc<T* volatile> { typedef typename SHrc<T>::type* volatile type; };
template<class T> struct SHrc<T* const volatile> { typedef typename SHrc<T>::type* const volatile type; };
template<class T> struct SHrc<T&> { typedef typename SHrc<T>::type& type; };
"""


def reference_meaning(cases, op="meaning"):
    """driver op `meaning` on the source text of each case -> list of (name, valid, type text) or None"""
    drv = common.Driver("drv_decl")
    out = drv.run([op + " " + dc.enc_tokens(dc.raw_tokens(t)) for t, _ in cases])
    res = []
    for o in out:
        m = o.split(" | ")[0]
        if m == "M none":
            res.append(None)
        else:
            _, nm, valid, txt = m.split(" ")
            res.append((None if nm == "~" else common.dec(nm), valid == "1", common.dec(txt)))
    return res


def check_base_agrees(ctx, maxlen):
    """BaseAgrees (hypothesis of the meaning theorems) for the extracted environment, exhaustively over all
    specifier lists up to maxlen: model `fundName` == cxx_type of the typemap get_canonical_typemap selects;
    and, on the implementation only, g++ agrees that the specifier list and that cxx_type are the same type."""
    import itertools
    declast, _ = dc.mods()
    from shroud import typemap
    specs = sorted(declast.type_specifier)
    lists = [t for n in range(1, maxlen + 1) for t in itertools.product(specs, repeat=n)]
    drv = common.Driver("drv_decl")
    out = drv.run(["fund " + " ".join(common.enc(x) for x in t) for t in lists])
    bad, accepted = [], []
    for t, o in zip(lists, out):
        f, c = o.split(" | ")
        if c != "reject":
            accepted.append(t)
            if f != c:
                bad.append({"specifiers": " ".join(t), "fundName": f if f == "none" else common.dec(f),
                            "typemap_cxx_type": c if c == "none" else common.dec(c)})
    ctx.count(len(lists))
    ctx.note("base_agrees", {"specifier_lists": len(lists), "accepted": len(accepted), "disagreements": len(bad)})
    if bad:
        ctx.tie_broken("BaseAgrees", bad[:5])
    # implementation-only: g++ on the real canonical_typemap / typemap table
    tmp = common.scratch()
    try:
        lines = [CXX_HEAD, "#include <complex>"]
        where = {}
        for t in accepted:
            if "complex" in t:
                continue
            name = "_".join(t)
            name = declast.canonical_typemap.get(name, name)
            tm = typemap.lookup_type(name)
            if tm is None or tm.cxx_type is None:
                continue
            where[len("\n".join(lines).split("\n")) + 1] = t
            lines.append("static_assert(std::is_same<%s, %s>::value, \"differ\");" % (" ".join(t), tm.cxx_type))
        src = os.path.join(tmp, "b.cpp")
        with open(src, "w") as f:
            f.write("\n".join(lines) + "\n")
        p = subprocess.run(["g++", "-std=c++11", "-fsyntax-only", "-fmax-errors=0", "-w", src],
                           stdout=subprocess.PIPE, stderr=subprocess.STDOUT, text=True, timeout=300)
        for m in re.finditer(r"b\.cpp:(\d+):\d+: error: (.*)", p.stdout):
            t = where.get(int(m.group(1)))
            if t:
                ctx.fail("typemap-cxx-type:" + "_".join(t), "g++: specifiers %r are not the type %r that get_canonical_typemap "
                         "selects (%s)" % (" ".join(t), "_".join(t), m.group(2)), {"kind": "spec", "decl": " ".join(t) + " x"})
        ctx.count(len(where))
    finally:
        common.rmtree(tmp)



def cxx_candidates(r, n, maxdepth):
    """named declarations without attributes / defaults / storage, from the shared generator"""
    g = dc.Gen(r, maxdepth)
    out = []
    tries = 0
    while len(out) < n and tries < n * 40:
        tries += 1
        toks = g.decl()
        if any(t in ("+", "=", ";", "static", "extern", "typedef", "register", "auto", "complex") for t in toks):
            continue
        text = dc.join(toks)
        line, a = dc.real_parse(text)
        if a is None or not line.startswith("ok ") or a.name is None:
            continue
        if ") const" in text or ") volatile" in text:
            continue      # a cv-qualified function type is only valid for a member function (class scope is not in this harness)
        if re.search(r"\[ (?![0-9]+ \])", text):
            continue      # only integer-literal array bounds make a self-contained translation unit
        out.append((text, a))
    return out


def gxx_check(ctx, cases, tag, extra_head="", meaning_op="meaning", must_accept=None):
    """cases: (text, ast).  Returns number compared."""
    tmp = common.scratch()
    compared = 0
    try:
        lines = (CXX_HEAD + extra_head).split("\n")
        where = {}
        try:
            ref = reference_meaning(cases, meaning_op)
        except Exception:  # noqa
            ref = [None] * len(cases)
        refstat = {"defined": 0, "valid": 0, "agree_gxx": 0, "gxx_rejects_original": 0, "differ": []}

        def tparam(d, top=True):
            if not top and d.template_arguments:
                return True
            return any(tparam(p, False) for p in (d.params or []))

        for i, (text, a) in enumerate(cases):
            name = a.name
            if tparam(a):
                continue      # gen_arg_as_cxx writes a std::vector<T> parameter as T (C wrapper argument), by design
            try:
                # with_template_args: the C++ type itself (the default turns vector<T> into T for the C wrapper)
                rendered = a.gen_arg_as_cxx(with_template_args=True)
            except Exception:  # noqa
                continue
            where[len(lines) + 1] = ("orig", i)
            lines.append("namespace o%d { extern %s; }" % (i, text))
            where[len(lines) + 1] = ("rend", i)
            lines.append("namespace r%d { extern %s; }" % (i, rendered))
            where[len(lines) + 1] = ("same", i)
            lines.append("static_assert(std::is_same<decltype(o%d::%s), decltype(r%d::%s)>::value, \"differ\");" % (i, name, i, name))
            if a.params is None and not a.array:
                # (an array of const elements becomes an array of assignable elements, as intended; not compared)
                # asgn_value=True: a by-value declaration loses its const, anything behind a pointer/reference keeps its type
                try:
                    asgn = a.gen_arg_as_cxx(with_template_args=True, asgn_value=True)
                    # what the declared type is decided by the compiler, not by Shroud's is_indirect()
                    t = "decltype(o%d::%s)" % (i, name)
                    want = ("std::conditional<std::is_pointer<%s>::value || std::is_reference<%s>::value || "
                            "std::is_array<%s>::value, %s, std::remove_const<%s>::type>::type" % (t, t, t, t, t))
                    where[len(lines) + 1] = ("asgnr", i)
                    lines.append("namespace g%d { extern %s; }" % (i, asgn))
                    where[len(lines) + 1] = ("asgn", i)
                    lines.append("static_assert(std::is_same<%s, decltype(g%d::%s)>::value, \"asgn\");" % (want, i, name))
                except Exception:  # noqa
                    pass
                # remove_const=True: the const of the BASE type goes, whatever the indirection; volatile, the cv of every
                # pointer level and the pointer/reference structure stay (SHrc: the compiler's own construction of that type)
                try:
                    rmc = a.gen_arg_as_cxx(with_template_args=True, remove_const=True)
                    where[len(lines) + 1] = ("rmcr", i)
                    lines.append("namespace c%d { extern %s; }" % (i, rmc))
                    where[len(lines) + 1] = ("rmc", i)
                    lines.append("static_assert(std::is_same<SHrc<decltype(o%d::%s)>::type, decltype(c%d::%s)>::value, \"rmconst\");" % (
                        i, name, i, name))
                except Exception:  # noqa
                    pass
            # the same declaration under another name / without a name (the wrappers declare locals and prototypes so)
            try:
                ren = a.gen_arg_as_cxx(with_template_args=True, name="SH_x")
                where[len(lines) + 1] = ("renr", i)
                lines.append("namespace k%d { extern %s; }" % (i, ren))
                where[len(lines) + 1] = ("ren", i)
                lines.append("static_assert(std::is_same<decltype(o%d::%s), decltype(k%d::SH_x)>::value, \"renamed\");" % (i, name, i))
            except Exception:  # noqa
                pass
            try:
                absr = a.gen_arg_as_cxx(with_template_args=True, name=None)
                where[len(lines) + 1] = ("absr", i)
                lines.append("namespace u%d { using U = %s; }" % (i, absr))
                where[len(lines) + 1] = ("abs", i)
                lines.append("static_assert(std::is_same<decltype(o%d::%s), u%d::U>::value, \"abstract\");" % (i, name, i))
            except Exception:  # noqa
                pass
            if ref[i] is not None and ref[i][1] and ref[i][0] == name:
                where[len(lines) + 1] = ("ref", i)
                lines.append("static_assert(std::is_same<decltype(o%d::%s), %s>::value, \"refdiffer\");" % (i, name, ref[i][2]))
        src = os.path.join(tmp, "t.cpp")
        with open(src, "w") as f:
            f.write("\n".join(lines) + "\n")
        p = subprocess.run(["g++", "-std=c++11", "-fsyntax-only", "-fmax-errors=0", "-w", src],
                           stdout=subprocess.PIPE, stderr=subprocess.STDOUT, text=True, timeout=600)
        bad = {}
        for m in re.finditer(r"t\.cpp:(\d+):\d+: error: (.*)", p.stdout):
            ln = int(m.group(1))
            if ln in where:
                kind, i = where[ln]
                bad.setdefault(i, {}).setdefault(kind, m.group(2))
        for i, (text, a) in enumerate(cases):
            b = bad.get(i, {})
            if ref[i] is not None:
                refstat["defined"] += 1
                if ref[i][1]:
                    refstat["valid"] += 1
                    if "orig" in b:
                        refstat["gxx_rejects_original"] += 1
                    elif "ref" in b:
                        refstat["differ"].append({"decl": text, "cxxMeaning": ref[i][2], "gxx": b["ref"]})
                    elif ref[i][0] == a.name:
                        refstat["agree_gxx"] += 1
            if "orig" in b:
                continue           # not C++: nothing to compare with
            compared += 1
            ctx.count(1)
            if "asgn" in b or "asgnr" in b:
                cls = "paren-declarator" if (a.declarator is not None and a.declarator.func is not None) else rt_class(a, text)
                ctx.fail("gxx-asgn_value:" + cls, "g++: gen_arg_as_cxx(asgn_value=True) renders %r as %r, which is neither the "
                         "declared type (pointer/reference/array) nor the declared value type without its const (%s)" % (
                             text, a.gen_arg_as_cxx(with_template_args=True, asgn_value=True),
                             b.get("asgn", b.get("asgnr"))), {"kind": "gxx", "decl": text})
            if "rmc" in b or "rmcr" in b:
                cls = "paren-declarator" if (a.declarator is not None and a.declarator.func is not None) else rt_class(a, text)
                ctx.fail("gxx-remove_const:" + cls, "g++: gen_arg_as_cxx(remove_const=True) renders %r as %r, which is not the declared "
                         "type with only the const of its base type removed (%s)" % (
                             text, a.gen_arg_as_cxx(with_template_args=True, remove_const=True),
                             b.get("rmc", b.get("rmcr"))), {"kind": "gxx", "decl": text})
            for k1, k2, kw, what in (("renr", "ren", dict(name="SH_x"), "name='SH_x'"), ("absr", "abs", dict(name=None), "name=None")):
                if k1 in b or k2 in b:
                    cls = "paren-declarator" if (a.declarator is not None and a.declarator.func is not None) else rt_class(a, text)
                    ctx.fail("gxx-rename:" + cls, "g++: gen_arg_as_cxx(%s) renders %r as %r, which is not the declared type "
                             "(%s)" % (what, text, a.gen_arg_as_cxx(with_template_args=True, **kw), b.get(k1, b.get(k2))),
                             {"kind": "gxx", "decl": text})
            if "rend" in b or "same" in b:
                why = b.get("rend", b.get("same"))
                ctx.fail("gxx:" + rt_class(a, text), "g++: %r is rendered by gen_arg_as_cxx as %r, not the same type (%s)" % (
                    text, a.gen_arg_as_cxx(with_template_args=True), why), {"kind": "gxx", "decl": text})
        ctx.note("cxxMeaning_vs_gxx:" + tag, dict(refstat, differ=len(refstat["differ"])))
        if refstat["differ"]:
            ctx.tie_broken("cxxMeaning-vs-gxx", refstat["differ"][:5])
    finally:
        common.rmtree(tmp)
    return compared


def gcc_c_check(ctx, cases):
    """C rendering compiles as C; for reference-free declarations over C types it is a compatible type."""
    tmp = common.scratch()
    compared = 0
    try:
        lines = ["#include <stddef.h>", "#include <stdint.h>", "#include <stdbool.h>", "typedef int MPI_Comm;"]
        where = {}
        for i, (text, a) in enumerate(cases):
            if "&" in text or "std" in text or "string" in text or "vector" in text or "MPI_Comm" in text:
                continue      # references / class types / MPI_Comm map to their documented C counterparts
            try:
                rendered = a.gen_arg_as_c()
            except Exception:  # noqa
                continue
            name = a.name
            r2 = re.sub(r"\b%s\b" % re.escape(name), name + "_r", rendered, count=1)
            where[len(lines) + 1] = ("orig", i)
            lines.append("extern %s;" % re.sub(r"\b%s\b" % re.escape(name), "%s_o%d" % (name, i), text, count=1))
            where[len(lines) + 1] = ("rend", i)
            lines.append("extern %s;" % re.sub(r"\b%s\b" % re.escape(name), "%s_r%d" % (name, i), rendered, count=1))
            where[len(lines) + 1] = ("same", i)
            lines.append("_Static_assert(__builtin_types_compatible_p(__typeof__(%s_o%d), __typeof__(%s_r%d)), \"differ\");" % (name, i, name, i))
            del r2
            try:
                ren = a.gen_arg_as_c(name="SH_x")
                where[len(lines) + 1] = ("renr", i)
                lines.append("extern %s;" % re.sub(r"\bSH_x\b", "SH_x%d" % i, ren, count=1))
                where[len(lines) + 1] = ("ren", i)
                lines.append("_Static_assert(__builtin_types_compatible_p(__typeof__(%s_o%d), __typeof__(SH_x%d)), \"renamed\");" % (name, i, i))
            except Exception:  # noqa
                pass
        src = os.path.join(tmp, "t.c")
        with open(src, "w") as f:
            f.write("\n".join(lines) + "\n")
        p = subprocess.run(["gcc", "-std=c11", "-fsyntax-only", "-fmax-errors=0", "-w", src],
                           stdout=subprocess.PIPE, stderr=subprocess.STDOUT, text=True, timeout=600)
        bad = {}
        for m in re.finditer(r"t\.c:(\d+):\d+: error: (.*)", p.stdout):
            ln = int(m.group(1))
            if ln in where:
                kind, i = where[ln]
                bad.setdefault(i, {}).setdefault(kind, m.group(2))
        for i, (text, a) in enumerate(cases):
            if not any(v == i for _, v in where.values()):
                continue
            b = bad.get(i, {})
            if "orig" in b:
                continue
            compared += 1
            ctx.count(1)
            if "asgn" in b or "asgnr" in b:
                cls = "paren-declarator" if (a.declarator is not None and a.declarator.func is not None) else rt_class(a, text)
                ctx.fail("gxx-asgn_value:" + cls, "g++: gen_arg_as_cxx(asgn_value=True) renders %r as %r, which is neither the "
                         "declared type (pointer/reference/array) nor the declared value type without its const (%s)" % (
                             text, a.gen_arg_as_cxx(with_template_args=True, asgn_value=True),
                             b.get("asgn", b.get("asgnr"))), {"kind": "gxx", "decl": text})
            if "renr" in b or "ren" in b:
                ctx.fail("gcc-c-rename", "gcc: gen_arg_as_c(name='SH_x') renders %r as %r, which is not the declared type (%s)" % (
                    text, a.gen_arg_as_c(name="SH_x"), b.get("renr", b.get("ren"))), {"kind": "gcc", "decl": text})
            if "rend" in b or "same" in b:
                ctx.fail("gcc-c", "gcc: %r is rendered by gen_arg_as_c as %r: %s" % (text, a.gen_arg_as_c(), b.get("rend", b.get("same"))),
                         {"kind": "gcc", "decl": text})
    finally:
        common.rmtree(tmp)
    return compared


def gxx_valid(texts, head):
    """indices of the declarations g++ accepts (each in its own namespace)"""
    tmp = common.scratch()
    try:
        lines = (CXX_HEAD + head).split("\n")
        where = {}
        for i, t in enumerate(texts):
            where[len(lines) + 1] = i
            lines.append("namespace v%d { extern %s; }" % (i, t))
        src = os.path.join(tmp, "v.cpp")
        with open(src, "w") as f:
            f.write("\n".join(lines) + "\n")
        p = subprocess.run(["g++", "-std=c++11", "-fsyntax-only", "-fmax-errors=0", "-w", src],
                           stdout=subprocess.PIPE, stderr=subprocess.STDOUT, text=True, timeout=600)
        bad = set()
        for m in re.finditer(r"v\.cpp:(\d+):\d+: error:", p.stdout):
            if int(m.group(1)) in where:
                bad.add(where[int(m.group(1))])
        return set(range(len(texts))) - bad
    finally:
        common.rmtree(tmp)


# ------------------------------------------------------------------ oracle (c): declarations after the generate phase
POSTGEN_DECLS = [
    "void sum0(int n, const double *a +rank(0))", "void sum1(int n, const double *a +rank(1))",
    "void sum2(int n, const double *a +rank(2))", "void sum3(int n +value, double *a +rank(1)+intent(inout))",
    "void dim1(int n, double *a +dimension(n)+intent(out))", "void dim2(int n, int m, double *a +dimension(n,m))",
    "void imp(const double *a +rank(1), int n +implied(size(a)))", "void len1(char *s +len(1)+intent(out))",
    "void len30(char *s +len(30)+intent(out))", "int *ret1(int n) +dimension(n)", "int *ret2() +deref(pointer)+dimension(1)",
    "void own(int **a +intent(out)+dimension(1)+deref(allocatable))", "void val(int x +value, int *y +intent(in))",
    "const char *name() +len(1)", "void hid(int n +hidden, double *a +rank(1))", "void cd(int *a +cdesc+rank(1))",
    "void ext(void (*cb)(int *p +rank(1)) +external)", "double *alloc(int n) +dimension(n)+owner(caller)",
    "void chl(char *s +charlen(1)+intent(out))", "void r7(double *a +rank(7))",
]
POSTGEN_CXX = [
    "void vec(std::vector<int> &v +intent(out)+rank(1))", "const std::string &sname() +len(1)",
    "void sarg(std::string &s +intent(inout)+len(1))", "void ref(int &n +intent(out), double *a +rank(1))",
    # results which the generate phase turns into arguments (result_as_arg / set_return_to_void): templated, string, char
    "std::vector<int> getValues(int n)", "std::vector<double> getWeights()", "const std::vector<double> &weights()",
    "std::vector<std::string> names(int n)", "std::vector<unsigned long> ids() const", "std::string label(int i)",
    "const std::string *plabel()", "std::vector<int> *pvalues(int n)", "char *cname()", "const char *ccname(int i) +len(30)",
    "int countValues(const std::vector<int> &v)", "std::vector<long long> big(const std::vector<int> &v, int n)",
]


def type_sig(a):
    """what a Declaration records about its own type (parameters excluded): specifier, cv, template arguments,
    typemap, declarator chain, array-ness, parameter-list presence, name"""
    def dtor(d):
        if d is None:
            return None
        return ([(p.ptr, bool(p.const), bool(p.volatile)) for p in d.pointer], d.name, dtor(d.func))
    return (list(a.specifier), bool(a.const), bool(a.volatile), getattr(a.typemap, "name", None),
            [type_sig(t) for t in a.template_arguments], dtor(a.declarator), len(a.array or []),
            a.params is None, bool(a.func_const))


def oracle_postgen(ctx):
    """Run the real VerifyAttrs/GenFunctions on functions whose attributes carry values, then gen_decl every
    resulting function (generated variants included), re-parse it and compare the attribute VALUES."""
    from shroud import declast
    stat = {"functions": 0, "renderings": 0, "attrs_compared": 0, "by_value_type": {}, "failures": 0, "rejected_by_generate": 0}

    def norm(v):
        return True if v is True else str(v)

    def compare(orig, again, path, text, rendered):
        bad = []
        oa = {k: v for k, v in orig.attrs.items() if v is not None and not k.startswith("_") and k != "template"}
        ra = {k: v for k, v in again.attrs.items() if v is not None and not k.startswith("_")}
        for k in sorted(set(oa) | set(ra)):
            stat["attrs_compared"] += 1
            tn = type(oa.get(k)).__name__
            stat["by_value_type"][tn] = stat["by_value_type"].get(tn, 0) + 1
            if k not in oa or k not in ra or norm(oa[k]) != norm(ra[k]):
                bad.append("%s%s: %r -> %r" % (path, k, oa.get(k), ra.get(k)))
        so, sa = type_sig(orig), type_sig(again)
        if so != sa:
            bad.append("%stype: %s -> %s" % (path, so, sa))
        for i, (p, q) in enumerate(zip(orig.params or [], again.params or [])):
            bad += compare(p, q, path + "arg%d." % i, text, rendered)
        if len(orig.params or []) != len(again.params or []):
            bad.append(path + "parameter count %d -> %d" % (len(orig.params or []), len(again.params or [])))
        return bad

    for lang in ("c", "c++"):
        for decl in POSTGEN_DECLS + (POSTGEN_CXX if lang == "c++" else []):
            if lang == "c" and ("&" in decl or "std" in decl):
                continue
            d = {"library": "pg", "language": lang, "declarations": [{"decl": decl}]}
            res = _postgen_library(d)
            if res is None:
                stat["rejected_by_generate"] += 1
                continue
            if isinstance(res, Exception):
                stat["failures"] += 1
                ctx.fail("postgen:internal:" + type(res).__name__, "generate_functions on %r raises %s: %s" % (
                    decl, type(res).__name__, " ".join(str(res).split())[:120]), {"kind": "postgen", "decl": decl, "language": lang})
                continue
            lib, fns = res
            for fn in fns:
                stat["functions"] += 1
                a = fn.ast
                try:
                    rendered = a.gen_decl()
                    again = declast.check_decl(rendered, namespace=lib)
                except Exception as e:  # noqa
                    ctx.fail("postgen:render", "after generate, the rendering of %r does not re-parse: %s" % (
                        decl, str(e).split("\n")[-1]), {"kind": "postgen", "decl": decl, "language": lang})
                    stat["failures"] += 1
                    continue
                stat["renderings"] += 1
                ctx.count(1)
                bad = compare(a, again, "", decl, rendered)
                if bad:
                    stat["failures"] += 1
                    ctx.fail("postgen:attr-value", "after generate, %r is written back as %r; re-parsing changes %s" % (
                        decl, rendered, "; ".join(bad[:3])), {"kind": "postgen", "decl": decl, "language": lang})
    ctx.note("postgen_roundtrip", stat)


def _postgen_library(d):
    """(library, functions incl. generated variants) after the real generate_functions, or None if rejected"""
    import contextlib
    import copy
    from shroud import ast, generate, typemap, main
    from tools.props import c17_attrs
    try:
        with contextlib.redirect_stdout(c17_attrs._NULL):
            typemap.initialize()
            lib = ast.create_library_from_dictionary(c17_attrs.lined(copy.deepcopy(d)))
            cfg = main.Config()
            cfg.log = c17_attrs._NULL
            generate.generate_functions(lib, cfg)
    except (RuntimeError, SystemExit):
        return None
    except Exception as e:  # noqa
        return e
    return lib, list(lib.functions)


# ------------------------------------------------------------------ streams
# ------------------------------------------------------------------ AST-rewriting operations
REWRITE_TYPEMAPS = ["int", "long_long", "std::string", "size_t", "unsigned_long_long", "void"]


def rewrite_family():
    """function / object declarations whose result type is of every kind the generate phase rewrites (templated
    std::vector<T>, std::string, char, built-in; by value, pointer, reference, cv) x parameter lists"""
    results = ["std :: vector < int >", "std :: vector < double >", "std :: vector < unsigned long >",
               "std :: vector < std :: string >", "std :: vector < const int >", "std :: string", "char", "int", "void", "double",
               "unsigned long long", "size_t", "bool", "int8_t", "long long int"]
    chains = ["", "*", "&", "* const *"]
    params = ["( )", "( void )", "( int n , const double * a )", "( const std :: vector < int > & v )",
              "( std :: string & s , int ( * cb ) ( int ) )", "( double * out , int SH_rv )"]
    out = []
    for r_ in results:
        for c in chains:
            for cv in ("", "const", "volatile"):
                for prm in params:
                    for tail in (("", "const", "+ dimension ( n ) + owner ( caller )") if "double" in prm else ("",)):
                        out.append(" ".join(x for x in (cv, r_, c, "getValues", prm, tail) if x))
                out.append(" ".join(x for x in (cv, r_, c, "value") if x))          # object: no parameter list
                out.append(" ".join(x for x in (cv, r_, c, "( * fp ) ( int n )") if x))  # parenthesised declarator
                out.append(" ".join(x for x in (cv, r_, c) if x))                    # no declarator at all
    return out


def _rewrites(a):
    """name of the operation, driver arguments, function applying it to a fresh copy of the declaration"""
    import copy
    from shroud import typemap

    def settype(name):
        def f(x):
            x.set_type(typemap.lookup_type(name))
            return x
        return f

    def inst(name):
        def f(x):
            node = copy.copy(x)
            node.typemap = typemap.lookup_type(name)
            return x.instantiate(node)
        return f

    ops = [("void", "void", "~", lambda x: (x.set_return_to_void(), x)[1]),
           ("asarg", "asarg", "SH_rv", lambda x: x._as_arg("SH_rv")),
           ("result", "result", "SH_rv", lambda x: (x.result_as_arg("SH_rv"), x)[1]),
           ("result:out", "result", "out", lambda x: (x.result_as_arg("out"), x)[1])]
    for tm in REWRITE_TYPEMAPS:
        ops.append(("settype:" + tm, "settype", tm, settype(tm)))
    ops.append(("instantiate:long_long", "settype", "long_long", inst("long_long")))
    ops.append(("instantiate:std::string", "settype", "std::string", inst("std::string")))
    return ops


def rewrite_phase(ctx, cases, ok, thorough):
    """(i) tie: model `Decl.setReturnToVoid / asArg / resultAsArg / setType` vs the real methods (driver op
    `rewrite`); (ii) oracle, implementation only: after each rewrite the declaration's own rendering re-parses to the
    declaration it now is, and g++ reads rendering and prototype rendering as the type the rewrite is documented
    to give (`void name(params..., R * arg)`)."""
    import copy
    declast, todict = dc.mods()
    drv = common.Driver("drv_decl")
    reqs, impl, labels = [], [], []
    stat = {"declarations": 0, "rewrites": 0, "by_op": {}, "roundtrip_checked": 0, "roundtrip_failures": 0,
            "model_unmodelled": 0, "disagreements": 0}
    gxx_cases = []
    for text in cases:
        line, a = dc.real_parse(text)
        if a is None or not line.startswith("ok ") or has_init(a):
            continue
        stat["declarations"] += 1
        toks = dc.enc_tokens(dc.raw_tokens(text))
        for label, op, arg, fn in _rewrites(a):
            try:
                b = fn(copy.deepcopy(a))
                res = dc.ast_line(b)
            except dc.INTERNAL as e:
                b, res = None, "crash " + type(e).__name__
            except RuntimeError as e:
                b, res = None, "reject " + common.enc(dc.last_line(e))
            except Exception as e:  # noqa
                b, res = None, "crash " + type(e).__name__
            stat["rewrites"] += 1
            stat["by_op"][label.split(":")[0]] = stat["by_op"].get(label.split(":")[0], 0) + 1
            reqs.append("rewrite %s %s %s" % (op, common.enc(arg), toks))
            impl.append(res)
            labels.append("%s of %r" % (label, text))
            ctx.count(1)
            if b is None or not res.startswith("ok "):
                continue
            # ---- oracle: the rewritten declaration against its own rendering (real parser)
            wrapped = b.declarator is not None and b.declarator.func is not None and op in ("asarg", "result")
            if wrapped:
                continue          # _as_arg of `R (*fp)(..)` sets a name beside the nested declarator: not a Declarator shape
            if op == "settype" and (a.template_arguments or arg == "void"):
                continue          # a template keeps its arguments by design; `void` is only a result type
            if op == "result" and any(p.name == arg for p in (a.params or [])):
                continue          # precondition of result_as_arg: the new argument's name is not a parameter's
            if op in ("void", "result") and a.name is None:
                continue          # precondition of set_return_to_void / result_as_arg: a named (function) declarator
            stat["roundtrip_checked"] += 1
            try:
                rendered = b.gen_decl()
                again = declast.check_decl(rendered, namespace=dc.library())
                d1, d2 = dc.ser_decl(todict.to_dict(b)), dc.ser_decl(todict.to_dict(again))
                why = None if d1 == d2 else "re-parsing it gives a different declaration"
            except RuntimeError as e:
                why = "it is rejected: " + dc.last_line(e)
            except Exception as e:  # noqa
                rendered = locals().get("rendered", "?")
                why = "it raises " + type(e).__name__
            if why and rt_class(b, rendered) in KNOWN_RT_CLASSES:
                why = None        # the rendering limits recorded for unrewritten declarations are not this oracle's business
            if why:
                stat["roundtrip_failures"] += 1
                ctx.fail("rewrite-roundtrip:" + label.split(":")[0], "after %s the declaration %r renders as %r; %s" % (
                    label, text, rendered, why), {"kind": "rewrite", "decl": text, "op": label})
            if op == "result" and b.params is not None and "+" not in text and not text.rstrip().endswith("const"):
                if a.name is not None:
                    gxx_cases.append((text, arg, a, b))
    ctx.note("rewrite_oracle", {k: stat[k] for k in ("declarations", "rewrites", "roundtrip_checked", "roundtrip_failures")})
    dc.guarded(ctx, "oracle-rewrite-gxx", rewrite_gxx, ctx, gxx_cases[: (4000 if thorough else 1200)])
    if not (drv.available() and ok):
        ctx.tie_broken("rewrite-correspondence", "driver not built")
        return
    model = drv.run(reqs)
    dis = []
    for q, x, y, lab in zip(reqs, impl, model, labels):
        if y.startswith("unmodelled") or y == "not-ok":
            stat["model_unmodelled"] += 1
            continue
        if x != y:
            dis.append({"case": lab, "impl": _dec_line(x), "model": _dec_line(y)})
        else:
            ctx.nontrivial("rewrite:" + lab.split(" of ")[0].split(":")[0] + ":" + x.split(" ")[0])
    stat["disagreements"] = len(dis)
    ctx.note("rewrite_tie", stat)
    if dis:
        ctx.tie_broken("rewrite-correspondence", dis[:6])


KNOWN_RT_CLASSES = ("attr-eq-value", "nested-template-argument", "expr-signed-operand")


def _dec_line(line):
    parts = line.split(" ")
    out = parts[:2]
    for x in parts[2:4]:
        try:
            out.append(repr(common.dec(x)))
        except Exception:  # noqa
            out.append(x)
    return " ".join(out)[:400]


def rewrite_gxx(ctx, cases):
    """g++: `R name(params)` after result_as_arg(arg) must be `void name(params, R' arg)` where R' is R when R is a
    pointer or reference and `R *` otherwise -- for gen_decl and for gen_arg_as_cxx(with_template_args=True)."""
    if not cases:
        return
    tmp = common.scratch()
    try:
        lines = CXX_HEAD.split("\n")
        lines.append("#include <tuple>")
        lines.append("#include <utility>")
        lines.append("typedef int MPI_Fint;")
        lines.append("template<class F, int N> struct RWArg; template<class R, class... A, int N> struct RWArg<R(A...), N> "
                     "{ using type = typename std::tuple_element<N, std::tuple<A...>>::type; };")
        where = {}
        for i, (text, arg, a, b) in enumerate(cases):
            name = a.name
            where[len(lines) + 1] = ("orig", i)
            lines.append("namespace o%d { extern %s; }" % (i, text))
            want = ("namespace w%d { template<class F> struct X; template<class R, class... A> struct X<R(A...)> { "
                    "using P = typename std::conditional<std::is_pointer<R>::value || std::is_reference<R>::value, R, "
                    "typename std::add_pointer<R>::type>::type; using T = void(A..., P); }; "
                    "using W = X<decltype(o%d::%s)>::T; }" % (i, i, name))
            where[len(lines) + 1] = ("want", i)
            lines.append(want)
            # the prototype rendering writes a std::vector<T> PARAMETER as T (by design): only its result type is compared then
            templ = any(p.template_arguments for p in (b.params or []))
            for k, render in (("decl", lambda: b.gen_decl()), ("cxx", lambda: b.gen_arg_as_cxx(with_template_args=True)),
                              ("cxxd", lambda: b.gen_arg_as_cxx()), ("c", lambda: b.gen_arg_as_c())):
                try:
                    rtext = render()
                except Exception:  # noqa
                    continue
                if k == "c" and ("&" in rtext or "std::" in rtext or "bool" in rtext):
                    continue
                where[len(lines) + 1] = (k + "r", i)
                lines.append("namespace %s%d { extern %s; }" % (k, i, rtext))
                where[len(lines) + 1] = (k, i)
                if k == "decl" or (k == "cxx" and not templ):
                    lines.append("static_assert(std::is_same<w%d::W, decltype(%s%d::%s)>::value, \"rewritten\");" % (i, k, i, name))
                else:
                    lines.append("static_assert(std::is_void<decltype(%s%d::%s(%s))>::value, \"result type is not void\");" % (
                        k, i, name, ", ".join("std::declval<typename RWArg<decltype(%s%d::%s), %d>::type>()" % (k, i, name, j)
                                              for j in range(len(b.params)))))
        src = os.path.join(tmp, "t.cpp")
        with open(src, "w") as f:
            f.write("\n".join(lines) + "\n")
        p = subprocess.run(["g++", "-std=c++11", "-fsyntax-only", "-fmax-errors=0", "-w", src],
                           stdout=subprocess.PIPE, stderr=subprocess.STDOUT, text=True, timeout=600)
        bad = {}
        for m in re.finditer(r"t\.cpp:(\d+):\d+: error: (.*)", p.stdout):
            ln = int(m.group(1))
            if ln in where:
                kind, i = where[ln]
                bad.setdefault(i, {}).setdefault(kind, m.group(2))
        n = 0
        for i, (text, arg, a, b) in enumerate(cases):
            e = bad.get(i, {})
            if "orig" in e or "want" in e:
                continue
            n += 1
            ctx.count(1)
            for k, what, fn in (("decl", "gen_decl()", lambda: b.gen_decl()),
                                ("cxx", "gen_arg_as_cxx(with_template_args=True)", lambda: b.gen_arg_as_cxx(with_template_args=True)),
                                ("cxxd", "gen_arg_as_cxx()", lambda: b.gen_arg_as_cxx()), ("c", "gen_arg_as_c()", lambda: b.gen_arg_as_c())):
                if k in e or k + "r" in e:
                    got = fn()
                    ctx.fail("rewrite-gxx:result_as_arg", "g++: %r after result_as_arg(%r) is rendered by %s as %r, which is not "
                             "`void %s(<parameters>, <result type as pointer> %s)` (%s)" % (
                                 text, arg, what, got, a.name, arg, e.get(k, e.get(k + "r"))),
                             {"kind": "rewrite", "decl": text, "op": "result"})
        ctx.note("rewrite_gxx_compared", n)
    finally:
        common.rmtree(tmp)


def corpus_cases(name):
    path = os.path.join(common.CORPUS, name)
    out = []
    if os.path.exists(path):
        for ln in open(path):
            ln = ln.rstrip("\n")
            if ln and not ln.startswith("#"):
                out.append(ln)
    return out


def streams(r, n, maxdepth, shares=(4, 3, 2)):
    g = dc.Gen(r, maxdepth)
    cases, kinds = [], []
    tot = sum(shares)
    for i in range(n):
        k = i % tot
        if k < shares[0]:
            t, kind = g.decl(), "grammar"
        elif k < shares[0] + shares[1]:
            t, m = dc.mutate(r, g.decl())
            kind = "mutation:" + m
        else:
            t, kind = dc.random_tokens(r), "random"
        cases.append(dc.join(t))
        kinds.append(kind)
    return cases, kinds, g.stats


# ------------------------------------------------------------------ systematic families
def special_shapes():
    """Small exhaustive family around parameter lists: every base type x pointer chain x named/unnamed, as the
    only parameter, as one of two, and as the parameter of a callback; plus function pointers with abstract
    parameter lists.  (The random generator reaches these shapes too rarely.)"""
    types = ["void", "const void", "int", "const char", "size_t", "std :: string", "double", "volatile void",
             "unsigned long"]
    chains = ["", "*", "* *", "* const", "&", "* &", "* * *", "* const *", "* volatile"]
    out = []
    for t in types:
        for c in chains:
            for name in ("", "p"):
                prm = " ".join(x for x in (t, c, name) if x)
                out.append("void f ( %s )" % prm)
                out.append("int g ( %s , int n )" % prm)
                out.append("int g ( int n , %s )" % prm)
                out.append("void h ( int ( * cb ) ( %s ) )" % prm)
                out.append("%s ( * fp ) ( %s )" % (t + (" " + c if c else ""), prm))
                out.append("void k ( void ( * ) ( %s ) , %s )" % (prm, prm))
    out += ["void f ( void )", "void f ( )", "void f ( const void )", "void f ( void + a )", "void f ( void x )",
            "int ( * cb ) ( void )", "int ( * cb ) ( )", "void f ( void ( * ) ( void ) )",
            "void f ( int ( * ) ( int ( * ) ( void * ) ) )"]
    # nested declarators of every kind: pointer / reference / const pointer to function, to array, to array of arrays;
    # function pointers returning pointers; as top-level declaration and as parameter
    for t in ("int", "const double", "char *", "const char * const *", "unsigned long"):
        for inner in ("* m", "& m", "* const m", "* * m", "* volatile m"):
            for suffix in ("[ 4 ]", "[ 3 ] [ 2 ]", "( int a )", "( void )", "( const double * v , int n )", "( )"):
                out.append("%s ( %s ) %s" % (t, inner, suffix))
                out.append("void f ( %s ( %s ) %s )" % (t, inner, suffix))
                out.append("%s ( %s ) %s" % (t, inner.replace(" m", ""), suffix))
    return out


def expr_shapes():
    """Array extents with chains of operators of equal and of mixed precedence, unary signs and parentheses:
    the shapes in which grouping (associativity / precedence) changes the value."""
    import itertools
    atoms = [["n", "m", "k"], ["100", "10", "5"], ["a", "2", "b"], ["N", "M", "3"]]
    out = []
    for at in atoms:
        for o1, o2 in itertools.product("+-*/", repeat=2):
            out.append("double w [ %s %s %s %s %s ]" % (at[0], o1, at[1], o2, at[2]))
    for o1, o2, o3 in itertools.product("+-*/", repeat=3):
        out.append("int w [ n %s m %s k %s 2 ]" % (o1, o2, o3))
    # a binary operator directly followed by a signed operand (literal or name): the printed text must keep them apart
    for o1, sg in itertools.product("+-*/", "+-"):
        out += ["int w [ n %s %s 1 ]" % (o1, sg), "int w [ 40 %s %s 2 ]" % (o1, sg), "int w [ n %s %s m ]" % (o1, sg),
                "int w [ %s 3 %s %s k ]" % (sg, o1, sg)]
    out += ["int w [ n - ( m - k ) ]", "int w [ ( n - m ) - k ]", "int w [ - n - m ]", "int w [ n - - m - k ]", "int w [ n / ( m / k ) ]",
            "int w [ 2 * ( n + 1 ) - 1 ]", "void f ( int w [ n - m - k ] , double v [ 100 / 10 / 5 ] )", "int w [ n - m - k ] [ a / b * c ]"]
    return out


EXPR_VALUES = {"n": 20, "m": 5, "k": 3, "a": 40, "b": 4, "c": 2, "N": 11, "M": 4, "x": 9}


def tree_text(e):
    """the recorded expression tree, fully parenthesised (None: contains a call or an unknown name)"""
    if "constant" in e:
        if re.fullmatch(r"[0-9]+", e["constant"]):
            return e["constant"]
        # a Constant node that carries its own sign is read as that signed number
        return "(%s)" % e["constant"] if re.fullmatch(r"[+-][0-9]+", e["constant"]) else None
    if "left" in e:
        l, r = tree_text(e["left"]), tree_text(e["right"])
        return None if l is None or r is None else "(%s %s %s)" % (l, e["op"], r)
    if "op" in e:
        x = tree_text(e["node"])
        return None if x is None else "(%s %s)" % (e["op"], x)
    if "name" in e:
        return None if "args" in e or e["name"] not in EXPR_VALUES else e["name"]
    if "node" in e:
        x = tree_text(e["node"])
        return None if x is None else "(%s)" % x
    return None


def oracle_expr_values(ctx, cases, asts, impl):
    """Value-level comparison of the recorded expression trees with the C++ compiler: for every array extent made of
    integers, known identifiers, + - * / and parentheses, g++ must find the fully parenthesised recorded tree equal to
    the source text (long arithmetic, identifiers bound to fixed constants).  The text PrintNode writes for the same
    tree (the extent as it appears in every rendering) must be accepted by g++ and have that value too: a rendering such
    as `n--1` re-parses in Shroud (its tokenizer has no `--`) but is not the expression for a compiler."""
    _, todict = dc.mods()
    items = []

    def walk(a, text):
        for node in getattr(a, "array", None) or []:
            e = todict.to_dict(node)
            t = tree_text(e)
            if t is not None:
                try:
                    rendered = todict.print_node(node)
                except Exception:  # noqa
                    rendered = None
                items.append((text, t, e, rendered))
        for p in getattr(a, "params", None) or []:
            walk(p, text)

    def src_text(e):
        # the source spelling of the extent: PrintNode output (it adds parentheses only around signed operands)
        return todict.print_node_dict(e) if hasattr(todict, "print_node_dict") else None

    for s, a, l in zip(cases, asts, impl):
        if a is None or not l.startswith("ok "):
            continue
        try:
            walk(a, s)
        except Exception:  # noqa
            continue
    # source text of each extent: take it from the declaration text itself (bracket groups in order)
    tmp = common.scratch()
    stat = {"extents": 0, "compared": 0, "differ": 0, "renderings": 0, "renderings_compared": 0, "renderings_differ": 0}
    try:
        lines = ["constexpr long " + ", ".join("%s = %d" % kv for kv in EXPR_VALUES.items()) + ";"]
        where = {}
        rwhere = {}
        seen = set()
        rseen = {}
        for text, tree, e, rendered in items:
            if rendered is not None and (rendered, tree) not in rseen and re.fullmatch(r"[0-9A-Za-z_+\-*/() ]+", rendered):
                # line pair: the tree against itself (is it a constant expression at all?) and the rendering against the tree
                lines.append("static_assert(%s == %s, \"tree\");" % (tree, tree))
                lines.append("static_assert((%s) == %s, \"rendering\");" % (rendered, tree))
                rseen[(rendered, tree)] = len(lines)
                rwhere[len(lines)] = (text, rendered, tree)
            groups = re.findall(r"\[ ([^\[\]]*) \]", text)
            for gsrc in groups:
                if not re.fullmatch(r"[0-9A-Za-z_+\-*/() ]+", gsrc) or (gsrc, tree) in seen:
                    continue
                # pair the extent with the bracket group that has the same tokens (parentheses aside)
                if re.sub(r"[() ]", "", gsrc) != re.sub(r"[() ]", "", tree):
                    continue
                seen.add((gsrc, tree))
                where[len(lines) + 1] = (text, gsrc, tree)
                lines.append("static_assert((%s) == %s, \"grouping\");" % (gsrc, tree))
        stat["extents"] = len(where)
        stat["renderings"] = len(rwhere)
        src = os.path.join(tmp, "e.cpp")
        with open(src, "w") as f:
            f.write("\n".join(lines) + "\n")
        p = subprocess.run(["g++", "-std=c++11", "-fsyntax-only", "-fmax-errors=0", "-w", src],
                           stdout=subprocess.PIPE, stderr=subprocess.STDOUT, text=True, timeout=600)
        failed, other = set(), set()
        for m in re.finditer(r"e\.cpp:(\d+):\d+: error: (.*)", p.stdout):
            ln = int(m.group(1))
            if ln in where or ln in rwhere or ln + 1 in rwhere:
                (failed if "static assertion failed" in m.group(2) else other).add(ln)
        for ln, (text, gsrc, tree) in where.items():
            if ln in other and ln not in failed:
                continue          # not a constant expression (division by zero, overflow)
            stat["compared"] += 1
            ctx.count(1)
            if ln in failed:
                stat["differ"] += 1
                ctx.fail("expr-grouping", "in %r the extent `%s` is recorded as the tree %s, which g++ evaluates to a different value" % (
                    text, gsrc, tree), {"kind": "expr", "decl": text})
        for ln, (text, rendered, tree) in rwhere.items():
            if ln - 1 in other or ln - 1 in failed:
                continue          # the recorded tree itself is not a constant expression (division by zero, overflow)
            stat["renderings_compared"] += 1
            ctx.count(1)
            if ln in failed or ln in other:
                stat["renderings_differ"] += 1
                ctx.fail("expr-rendering", "in %r an extent recorded as the tree %s is written `%s`, which g++ %s" % (
                    text, tree, rendered, "evaluates to a different value" if ln in failed else "does not accept as that expression"),
                    {"kind": "expr", "decl": text})
    finally:
        common.rmtree(tmp)
    ctx.note("expression_values_vs_gxx", stat)


def nested_cases():
    """Qualified names of 1-4 components over the nested environment (extract_decl.nested_library): every path,
    valid or not, in variable / parameter / callback position."""
    comps = ["outer", "inner", "deep", "other", "Cls", "Only", "Deepest", "std", "string"]
    names = set()
    valid = ["Cls", "outer :: Cls", "outer :: inner :: Cls", "outer :: inner :: Only", "outer :: inner :: deep :: Cls",
             "outer :: inner :: deep :: Deepest", "other :: Only", "other :: inner :: Cls", "std :: string"]
    names.update(valid)
    import itertools
    for n in (1, 2, 3):
        for t in itertools.product(comps, repeat=n):
            if n < 3 or (t[0] in ("outer", "other") and t[1] in ("inner", "Cls", "Only")):
                names.add(" :: ".join(t))
    for t in itertools.product(["outer", "other"], ["inner"], ["deep", "Cls", "Only"], ["Cls", "Deepest", "Only", "deep"]):
        names.add(" :: ".join(t))
    out = []
    for nm in sorted(names):
        out.append("%s * p" % nm)
        out.append("void f ( const %s & p )" % nm)
        out.append("%s * g ( %s * , int n )" % (nm, nm))
        out.append("void h ( int ( * cb ) ( %s * ) )" % nm)
    return out


KW_COMBOS = [dict(asgn_value=True), dict(remove_const=True), dict(as_ptr=True), dict(force_ptr=True), dict(as_scalar=True),
             dict(name="SH_x"), dict(name=None), dict(params=None), dict(with_template_args=True), dict(continuation=True),
             dict(asgn_value=True, as_ptr=True), dict(asgn_value=True, name="SH_x", params=None)]


def kw_tie(ctx, cases, asts, impl, ok):
    """the rendering entry points with their keyword variants (driver op `kw`)"""
    drv = common.Driver("drv_decl")
    sel = [(s, a) for s, a, l in zip(cases, asts, impl) if a is not None and l.startswith("ok ")][:8000]
    if not (drv.available() and ok) or not sel:
        return
    out = drv.run(["kw " + dc.enc_tokens(dc.raw_tokens(s)) for s, _ in sel])
    dis = []
    n = 0
    for (s, a), m in zip(sel, out):
        want = ["ok"]
        for f in (a.gen_arg_as_cxx, a.gen_arg_as_c):
            for kw in KW_COMBOS:
                try:
                    want.append(common.enc(f(**kw)))
                except dc.INTERNAL as e:
                    want.append("!" + type(e).__name__)
                except Exception as e:  # noqa
                    want.append("!raise:" + type(e).__name__)
        n += 1
        w = " ".join(want)
        if w != m:
            fw, fm = w.split(" "), m.split(" ")
            idx = next((i for i, (x, y) in enumerate(zip(fw, fm)) if x != y), None)
            dis.append({"decl": s, "combo": str(KW_COMBOS[(idx - 1) % len(KW_COMBOS)]) if idx else "?",
                        "impl": fw[idx] if idx else w[:100], "model": fm[idx] if idx is not None and idx < len(fm) else m[:100]})
    ctx.count(n * 2 * len(KW_COMBOS))
    ctx.note("keyword_renderings_compared", {"declarations": n, "combinations": 2 * len(KW_COMBOS), "disagreements": len(dis)})
    if dis:
        for x in dis[:5]:
            for k in ("impl", "model"):
                try:
                    x[k] = common.dec(x[k])
                except Exception:  # noqa
                    pass
        ctx.tie_broken("keyword-renderings", dis[:5])


def correspondence(ctx, cases, kinds, ok, want_tokens=True, outcome_only=False, lib=None, op="parse", tag="decl"):
    """Compare real code and model on every case.  Returns (impl lines, asts)."""
    drv = common.Driver("drv_decl")
    impl, asts, reqs = [], [], []
    for s in cases:
        line, a = dc.real_parse(s, lib)
        impl.append(line)
        asts.append(a)
        reqs.append(op + " " + dc.enc_tokens(dc.raw_tokens(s)))
    ctx.count(len(cases))
    if not (drv.available() and ok):
        ctx.tie_broken(tag + "-correspondence", "driver not built")
        return impl, asts
    model = drv.run(reqs)
    dis = []
    dist = {}
    for s, k, a, b in zip(cases, kinds, impl, model):
        cls = dc.outcome_class(a)
        dist[cls] = dist.get(cls, 0) + 1
        if b.startswith("unmodelled"):
            dist["model-unmodelled"] = dist.get("model-unmodelled", 0) + 1
            continue
        if b == "fuel":
            dis.append({"decl": s, "impl": a[:200], "model": "fuel (recursion budget of the model exhausted)"})
            continue
        if outcome_only and a.startswith("ok ") and b.startswith("ok "):
            pass          # C17 ties outcome class and diagnostic text; structure/renderings are C09's tie
        elif a != b:
            dis.append({"decl": s, "kind": k, "impl": a[:400], "model": b[:400]})
        if cls == "ok":
            ctx.nontrivial(a.split(" ")[1])
        elif cls == "reject":
            ctx.nontrivial("reject:" + a.split(" ")[1][:60])
    if dis:
        ctx.tie_broken(tag + "-correspondence", dis[:5])
    ctx.note(tag + "_disagreements", len(dis))
    ctx.note(tag + "_outcome_distribution", dist)
    kd = {}
    for k, a in zip(kinds, impl):
        key = k.split(":")[0] + ":" + dc.outcome_class(a).split(":")[0]
        kd[key] = kd.get(key, 0) + 1
    ctx.note(tag + "_stream_by_outcome", kd)
    ctx.note(tag + "_grammar_coverage", dc.grammar_coverage([a for a, l in zip(asts, impl) if l.startswith("ok ")]))
    if op != "parse":
        return impl, asts
    # keyword reclassification
    treq = ["tok " + dc.enc_tokens(dc.raw_tokens(s)) for s in cases[:4000]]
    tmodel = drv.run(treq)
    tdis = [{"decl": s, "impl": dc.real_kinds(s), "model": m} for s, m in zip(cases[:4000], tmodel) if dc.real_kinds(s) != m]
    if tdis:
        ctx.tie_broken("token-reclassification", tdis[:5])
    # token-level printers
    if want_tokens:
        sel = [(s, a) for s, a, l in zip(cases, asts, impl)
               if l.startswith("ok ") and a is not None and token_level_domain(a, s) and attr_text_stable(s.split(" "))]
        sel = sel[:6000]
        out = drv.run(["toks " + dc.enc_tokens(dc.raw_tokens(s)) for s, _ in sel])
        kdis = []
        for (s, a), m in zip(sel, out):
            try:
                want = "ok %s | %s | %s" % (ser_real_tokens(a.gen_decl()), ser_real_tokens(a.gen_arg_as_cxx()),
                                            ser_real_tokens(a.gen_arg_as_c()))
            except Exception:  # noqa
                continue
            if want != m:
                kdis.append({"decl": s, "impl": want[:300], "model": m[:300]})
        ctx.count(len(sel))
        ctx.note("token_level_compared", len(sel))
        if kdis:
            ctx.tie_broken("token-level-printers", kdis[:5])
    return impl, asts


def run(ctx):
    thorough = ctx.tier == "thorough"
    if dc.guarded(ctx, "translator:extract_decl", extract_decl.write) is None:
        ctx.tie_broken("translator", "Gen/DeclTables.lean could not be regenerated from the tree under test")
    ok = ctx.lean(MODULES, THEOREMS, extra_targets=("drv_decl",))
    r = common.rng("c09")
    ctx.cov["trusted_base"] = [
        "Lean 4.33.0 kernel; axioms within {propext, Classical.choice, Quot.sound}",
        "hand-written models Model/Decl.lean, Token.lean, CxxMeaning.lean, Rewrite.lean, tied by differential correspondence (drv_decl; "
        "ops parse, toks, kw, meaning, rewrite)",
        "Gen/DeclTables.lean regenerated from typemap.initialize(), canonical_typemap, token_specification and the library symbols "
        "(default and nested-namespace environment)",
        "tokenisation of the test inputs by the real regex (the character-level tokenizer model belongs to C17); Python "
        "int()/float()/str() run by the harness, not modelled",
        "g++/gcc 12 as the C++/C reference for the is_same oracles; cxxMeaning as a rendering of ISO C++ for this subset",
        "hypothesis BaseAgrees of the meaning theorems: checked exhaustively by the driver op `fund` and against g++, not proved",
        "Model/NameLookup.lean (scope-chain lookup), tied by the driver ops `scope` / `sparse`; the symbol tables of the scopes are "
        "read from the real nodes (`symbols`, `using`, `parent`), the lookup order is the model's",
    ]
    ctx.cov["rule"] = ("corpus + grammar-directed declarations (depth-bounded) + single-token mutations + random token sequences; "
                       "exact comparison of outcome class, diagnostic, structure and five renderings; non-trivial = distinct accepted "
                       "structures and distinct diagnostics; rewrite family: result kinds x pointer chains x cv x parameter lists x "
                       "{set_return_to_void, _as_arg, result_as_arg, set_type, instantiate}, every rewritten declaration compared "
                       "with the model and re-parsed from its own rendering; every array extent: recorded tree and printed text evaluated by g++; "
                       "asgn_value / remove_const renderings of every g++ candidate against the compiler's own construction of the type; "
                       "renamed / unnamed renderings of every g++ candidate")
    ctx.assumptions += [
        "name lookup: qualified names through classes (`Pen::Color`), template parameter scopes and cyclic using-directives are outside the model; "
        "using-directives are compared with the real lookup only (C++ gives them a different, ambiguity-producing meaning)",
        "result_as_arg is exercised with argument names that are not parameter names (its precondition); set_return_to_void on named declarators",
        "the round-trip theorem is about the Lean model on its WF domain; the model is validated against declast.py on generated inputs only",
        "clauses (1),(2) are proved for Shroud's own renderings (canonical token lists); for arbitrary accepted inputs agreement "
        "with C++ is checked with g++ and by comparing cxxMeaning with denote(parse) on the generated inputs, not proved",
        "the argToks theorems cover object declarations; function declarators of the prototype renderings are oracle-only",
        "parser namespace is a C++ library (global scope); class scope (constructors/destructors) and class/enum/struct/template statements are not modelled",
    ]
    depth = 4 if thorough else 3
    n = 150000 if thorough else 24000
    st = {"cases": [], "kinds": [], "impl": [], "asts": [], "sp": []}

    def phase_tie():
        cases = corpus_cases("c09.txt")
        kinds = ["corpus"] * len(cases)
        sp_cases = special_shapes()
        cases += sp_cases
        kinds += ["special"] * len(sp_cases)
        ex_cases = expr_shapes()
        cases += ex_cases
        kinds += ["expr"] * len(ex_cases)
        c2, k2, gstats = streams(r, n, depth)
        cases += c2
        kinds += k2
        st["cases"], st["kinds"], st["sp"] = cases, kinds, sp_cases
        impl, asts = correspondence(ctx, cases, kinds, ok)
        st["impl"], st["asts"] = impl, asts
        kw_tie(ctx, cases, asts, impl, ok)
        ctx.note("special_shapes", len(sp_cases))
        ctx.note("generator_branches", dict(sorted(gstats.items(), key=lambda kv: -kv[1])[:40]))
        for s, a in list(zip(cases, impl))[:: max(1, len(cases) // 6)][:6]:
            ctx.sample({"decl": s, "impl": a[:160]})

    def ensure_impl():
        # the tie phase died before the implementation was run: run it now, on its own, for the oracles
        if st["cases"] and not st["impl"]:
            for s in st["cases"]:
                line, a = dc.real_parse(s)
                st["impl"].append(line)
                st["asts"].append(a)

    def phase_roundtrip():
        # ---- oracle (a): parse(render(parse d)) == parse d on the real parser
        classes = {}
        for s, a, line in zip(st["cases"], st["asts"], st["impl"]):
            if a is None or not line.startswith("ok "):
                continue
            try:
                res = oracle_roundtrip(a, s)
            except Exception as e:  # noqa
                res = ("render-crash", "round-trip of %r raises %s" % (s, type(e).__name__))
            ctx.count(1)
            if res:
                cls, why = res
                classes[cls] = classes.get(cls, 0) + 1
                ctx.fail("roundtrip:" + cls, why, {"kind": "roundtrip", "decl": s})
        ctx.note("roundtrip_failure_classes", classes)

    def phase_meaning():
        # ---- reference semantics: cxxMeaning(ts) vs denote(parse ts) on every accepted input (model level), and
        #      the BaseAgrees hypothesis of the meaning theorems
        drv = common.Driver("drv_decl")
        if not (drv.available() and ok):
            return
        acc = [(s, a) for s, a, line in zip(st["cases"], st["asts"], st["impl"]) if a is not None and line.startswith("ok ")]
        out = drv.run(["meaning " + dc.enc_tokens(dc.raw_tokens(s)) for s, _ in acc])
        mstat = {"accepted": len(acc), "reference_defined_and_valid": 0, "agree": 0, "by_class": {}}
        for (s, a), o in zip(acc, out):
            m, d = o.split(" | ")
            if m == "M none" or not d.startswith("D ") or d in ("D none", "D not-ok"):
                continue
            _, mn, valid, mt = m.split(" ")
            if valid != "1":
                continue
            mstat["reference_defined_and_valid"] += 1
            _, dn, dt = d.split(" ")
            ctx.count(1)
            # array bounds are compared as token text up to parentheses (PrintNode re-parenthesises signed operands)
            mtx, dtx = common.dec(mt).replace("(", "").replace(")", ""), common.dec(dt).replace("(", "").replace(")", "")
            if mn == dn and mtx == dtx:
                mstat["agree"] += 1
            else:
                cls = rt_class(a, s)
                if mtx.count("F<") + mtx.count("FC<") != dtx.count("F<") + dtx.count("FC<"):
                    cls = "abstract-function-parens"
                mstat["by_class"][cls] = mstat["by_class"].get(cls, 0) + 1
                ctx.fail("meaning:" + cls, "C++ reads %r as %s %s; Shroud records %s %s" % (
                    s, "<abstract>" if mn == "~" else common.dec(mn), common.dec(mt),
                    "<abstract>" if dn == "~" else common.dec(dn), common.dec(dt)), {"kind": "meaning", "decl": s})
        ctx.note("cxxMeaning_vs_denote", mstat)
        check_base_agrees(ctx, 5 if thorough else 4)

    def phase_nested():
        # ---- nested namespaces: qualified names of 1-4 components, same names at different depths
        ncases = nested_cases()
        nlib = dc.nested_library()
        nimpl, nasts = correspondence(ctx, ncases, ["nested"] * len(ncases), ok, want_tokens=False, lib=nlib, op="parse2",
                                      tag="nested")
        nacc = [(s, a) for s, a, l in zip(ncases, nasts, nimpl) if a is not None and l.startswith("ok ") and a.name]
        valid = gxx_valid(ncases, extract_decl.NESTED_CXX)
        nrej = 0
        for i, (s, l) in enumerate(zip(ncases, nimpl)):
            if i in valid and not l.startswith("ok "):
                nrej += 1
                ctx.fail("qualified-rejected", "g++ accepts %r (names resolve through nested scopes) but check_decl rejects it: %s" % (
                    s, common.dec(l.split(" ", 1)[1]) if l.startswith("reject ") else l), {"kind": "nested", "decl": s})
        nn = gxx_check(ctx, nacc, "nested", extra_head=extract_decl.NESTED_CXX, meaning_op="meaning2")
        ctx.note("nested", {"cases": len(ncases), "accepted": len(nacc), "gxx_valid": len(valid), "valid_but_rejected": nrej,
                            "gxx_compared": nn})

    def phase_compilers():
        # ---- oracle (b): g++ / gcc
        cand = cxx_candidates(common.rng("c09-gxx"), 4000 if thorough else 500, depth)
        for t in st["sp"] or special_shapes():
            line, a = dc.real_parse(t)
            if a is not None and line.startswith("ok ") and a.name is not None:
                cand.append((t, a))
        ng = gxx_check(ctx, cand, "is_same")
        nc = gcc_c_check(ctx, cand)
        ctx.note("gxx_compared", ng)
        ctx.note("gcc_c_compared", nc)

    dc.guarded(ctx, "tie", phase_tie)
    dc.guarded(ctx, "implementation-run", ensure_impl)
    dc.guarded(ctx, "oracle-roundtrip", phase_roundtrip)
    dc.guarded(ctx, "oracle-expression-values", oracle_expr_values, ctx, st["cases"], st["asts"], st["impl"])
    dc.guarded(ctx, "reference-semantics", phase_meaning)
    dc.guarded(ctx, "nested-namespaces", phase_nested)
    # ---- oracle (c): declarations after the generate phase (attribute values as integers / True / text)
    dc.guarded(ctx, "oracle-postgen", oracle_postgen, ctx)
    dc.guarded(ctx, "oracle-compilers", phase_compilers)

    def phase_rewrite():
        fam = rewrite_family()
        fns = [s for s, a, l in zip(st["cases"], st["asts"], st["impl"])
               if a is not None and l.startswith("ok ") and a.params is not None][: (6000 if thorough else 1200)]
        rewrite_phase(ctx, fam + fns, ok, thorough)

    dc.guarded(ctx, "rewrite", phase_rewrite)

    def phase_scope():
        from tools.props import c09_scope
        c09_scope.run_scope(ctx, ok, thorough)

    dc.guarded(ctx, "name-lookup", phase_scope)


def replay(path):
    import json
    d = json.load(open(path))
    for f in d.get("failing", []):
        rp = f["replay"]
        line, a = dc.real_parse(rp["decl"])
        print(f["key"], "->", rp["decl"], "=>", line[:200])
        if a is not None and line.startswith("ok "):
            print("   roundtrip:", oracle_roundtrip(a, rp["decl"]))
            if rp.get("kind") in ("expr", "gxx"):
                for kw in ({}, dict(asgn_value=True), dict(remove_const=True)):
                    try:
                        print("   gen_arg_as_cxx(%s): %s" % (kw, a.gen_arg_as_cxx(with_template_args=True, **kw)))
                    except Exception as e:  # noqa
                        print("   gen_arg_as_cxx(%s) raises %s" % (kw, type(e).__name__))
    return 0
