"""C16 Documentation and debug options change comments only.

Proof: lean/ShroudVerif/Props/C16.lean over the lexical models Model/Lex.lean (checker
`commentOnlyDiff` = equal token structure after comment removal; accepted edits: comment blocks,
blank lines, trailing comments; every token change rejected) + table theorem over the regenerated
list of option-guarded statements (tools/extract_guards.py -> Gen/Guards.lean).
Translation validation: real outputs of corpus + generated libraries under on/off combinations of
debug(+debug_index) / doxygen / show_splicer_comments / write-version set globally and
debug / doxygen / literalinclude set on individual declarations; same file set; every pair of
differing source files is judged by the compiled Lean checker (drv_lex `cmp`).
Correspondence for the lexers: a Python mirror of the two state machines is compared with the
driver's token digests; the lexers are compared with gcc / gfortran on samples (thorough tier).
"""
import hashlib
import collections
import itertools
import json
import os
import re
import subprocess
import sys
from concurrent.futures import ThreadPoolExecutor

from tools import common, shroudrun

LEVEL = "translation_validation"
MANIFEST = dict(
    category="translation_validation",
    text="Lean 4 theorems, for all texts, about lexical models of C/C++ and free-form Fortran (one-character state machines for "
         "comment removal; language-level tokens by maximal munch: identifiers, numbers, literals, punctuators; C line ends "
         "significant only for preprocessor directives; Fortran names case-insensitive, continuations joined): the checker "
         "commentOnlyDiff accepts exactly the file pairs with equal token lists (commentOnlyDiff_iff, token_change_detected); the "
         "tokens of a chunk concatenate to the chunk and are non-empty (lex_tokens_concat), so accepted pairs differ only in "
         "comments and in blanks between tokens; every insertion/removal of complete comment blocks and blank lines at code-state "
         "line boundaries and of trailing comments is accepted, for any number of edits (insert_comment_block, remove_comment_block, "
         "trailing_comment, commentEdit_accepted, with the comment shapes line_comment_block_c/f, blank_block, block_comment_c for "
         "every comment text); the code-state hypotheses are necessary (insert_needs_code_state, trailing_needs_code_state); "
         "stripping is idempotent (stripC_idempotent, stripF_idempotent). No _partial statements. Table theorems over five lists "
         "regenerated from the working tree by an AST scan on every run: every statement under a debug/debug_index/doxygen/"
         "declaration-level literalinclude/show_splicer_comments/write_version guard (both branches) and in the comment emitters "
         "only appends comment/blank templates or is neutral (guarded_statements_comment_only), every read of an option is a guard, "
         "alias or comment argument (option_uses_classified), comment lists stay clean (comment_lists_clean), no guarded comment "
         "reaches a list whose emptiness decides whether a file is written unless code is appended beside it "
         "(no_guarded_append_decides_file), config.write_version is read only by util.write_output_file and main.dump_jsonfile "
         "(write_version_read_only_for_header; the header line is a comment by Shroud.Lines.wof_header_then_body, Props/C13.lean). "
         "Translation validation: for corpus, generated and feature libraries (overload sets with all cpp_if patterns, "
         "fortran_generic, default-argument generics, classes with cpp_if / base classes / overloaded methods without cpp_if, structs, "
         "scopes that hold no code, functions sharing one free_pattern destructor, same-named callback methods in different classes, "
         "doxygen blocks, user splicers for harvested block names) and on/off combinations of the options set globally and on "
         "individual declarations (alone, in pairs, on every / the first / the last class, on the first/middle/last member of overload "
         "sets and of same-named functions in different scopes) the real outputs are "
         "produced, the file sets must agree and each differing C/C++/Fortran source pair (C, C++, Python-extension and Lua "
         "wrappers are C/C++ sources) is judged by the compiled Lean checker. setup.py, *_types.yaml and the .json/.log run logs "
         "take part in the file-set comparison only: the property demands token identity for the sources.",
    design="3 C16",
    note="PROVED IN LEAN (all texts, no bound): the checker's meaning - it accepts a pair iff the language-level token lists after "
         "comment removal are equal, tokens only regroup the characters of the stripped text, comment-block / blank-line / "
         "trailing-comment edits at code-state positions are accepted in any number, code-state hypotheses necessary, stripping "
         "idempotent; and (decide +kernel over tables regenerated from the working tree's AST on every run) that no statement "
         "guarded by the six options, no emitter statement, no option read, no comment-list write, no append to an "
         "emptiness-tested list, no write_version read and no dynamic part of a comment template falls outside the comment-only "
         "classes. VALIDATED PER OUTPUT (not proved): that the real generator's outputs for a given library and option placement "
         "have equal file sets and are accepted by the checker - this is checked pair by pair on the libraries generated in a "
         "run; nothing is proved about Shroud's emitters themselves beyond the syntactic table theorems, whose classes (comment "
         "template, local temporary, flag, allow-list) are a sufficient condition only under the assumptions listed. ALSO "
         "VALIDATED, NOT PROVED: that the lexical models agree with gcc/gfortran. Trusted: Lean kernel (axioms propext, Quot.sound); the lexical models: not modelled are trigraphs, raw strings, splices "
         "outside // comments and literals, #if 0, C++14 digit separators, Fortran continuation inside character context, fixed form, ';'; "
         "where not exact the tokens are coarser than the compilers' (identifier glued to an adjacent literal, adjacent literals, "
         "'..', Fortran names joined by dots; header names after #include and NAME( after #define are single tokens) so a blank cannot move into or out of a compiler token unnoticed - this coarseness "
         "claim and the comment removal are validated, not proved: Python mirror compared with the Lean driver on every run; in "
         "the thorough tier gcc -fpreprocessed -dD -E -P (per directive / code stretch, and token equality after re-lexing gcc's "
         "output), same -O1 -DNDEBUG assembly (NDEBUG: assert() expands __LINE__, which depends on layout, not on tokens) from the text rebuilt with one blank between any two model tokens (this found and removed two flaws of the first tokenizer: <header> names, function-like macro definitions) where the wrapper compiles "
         "here, same gfortran parse tree for the rebuilt Fortran text. Trusted too: the AST classification of "
         "tools/extract_guards.py with its allow-list (each entry justified there; discharged only by the differential runs) and "
         "the assumption that dynamic text spliced into comment templates holds no newline. Version stamping: the stamp is in the "
         "second header line only (C13 theorem wof_header_then_body about the model of write_output_file + the write_version "
         "reads table). The guarantee of the checker is unbounded; which file pairs it is applied to is bounded by the libraries "
         "and option placements generated.",
    technique="Lean 4 proof (state-machine invariants, induction over texts, simulation for idempotence; decide +kernel over "
              "regenerated AST tables) + translation validation with the proved checker + compiler cross-validation of the lexers",
)
MODULES = ["ShroudVerif.Props.C16"]
THEOREMS = {
    "ShroudVerif.Props.C16": [
        "Shroud.Lex.commentOnlyDiff_iff",
        "Shroud.Lex.token_change_detected",
        "Shroud.Lex.insert_comment_block",
        "Shroud.Lex.remove_comment_block",
        "Shroud.Lex.line_comment_block_c",
        "Shroud.Lex.line_comment_block_f",
        "Shroud.Lex.blank_block",
        "Shroud.Lex.block_comment_c",
        "Shroud.Lex.trailing_comment",
        "Shroud.Lex.commentEdit_accepted",
        "Shroud.Lex.insert_needs_code_state",
        "Shroud.Lex.trailing_needs_code_state",
        "Shroud.Lex.stripC_idempotent",
        "Shroud.Lex.stripF_idempotent",
        "Shroud.Gen.Guards.guarded_statements_comment_only",
        "Shroud.Gen.Guards.option_uses_classified",
        "Shroud.Gen.Guards.comment_lists_clean",
        "Shroud.Gen.Guards.no_guarded_append_decides_file",
        "Shroud.Gen.Guards.write_version_read_only_for_header",
        "Shroud.Gen.Guards.comment_text_parts_safe",
        "Shroud.Lex.lex_tokens_concat",
        "Shroud.Lex.tokensOf_congr",
        "Shroud.Gen.Guards.guards_found",
    ]
}

C_EXT = (".c", ".h", ".cpp", ".hpp", ".cxx", ".hxx", ".cc", ".hh")
F_EXT = (".f", ".f90", ".F", ".F90")
SKIP_EXT = (".log", ".json")

QUICK_LIBS = ["tutorial", "classes", "strings", "struct-py-c", "generic", "namespacedoc"]


def lang_of(fn):
    if fn.endswith(C_EXT):
        return "c"
    if fn.endswith(F_EXT):
        return "f"
    return None


# ------------------------------------------------------------------ Python mirror of Model/Lex.lean
BLANK = " \t\r\x0b\x0c"
SP, NL = ("sp",), ("nl",)


def _code_out(c):
    return NL if c == "\n" else SP if c in BLANK else ("ch", c)


def strip_c(t):
    out, s = [], "code"
    for c in t:
        if s == "slash":
            if c == "/":
                s = "line"; out.append(SP); continue
            if c == "*":
                s = "block"; out.append(SP); continue
            out.append(("ch", "/")); s = "code"     # fall through to code handling of c
        if s == "code":
            if c == "/":
                s = "slash"
            elif c == '"':
                s = "str"; out.append(("lit", c))
            elif c == "'":
                s = "chr"; out.append(("lit", c))
            else:
                out.append(_code_out(c))
        elif s == "line":
            if c == "\n":
                s = "code"; out.append(NL)
            elif c == "\\":
                s = "lineEsc"
        elif s == "lineEsc":
            s = "lineEsc" if c == "\\" else "line"
        elif s == "block":
            if c == "*":
                s = "blockStar"
        elif s == "blockStar":
            s = "code" if c == "/" else "blockStar" if c == "*" else "block"
        elif s in ("str", "chr"):
            q = '"' if s == "str" else "'"
            if c == q:
                out.append(("lit", c)); s = "code"
            elif c == "\\":
                out.append(("lit", c)); s += "Esc"
            elif c == "\n":
                out.append(NL); s = "code"
            else:
                out.append(("lit", c))
        elif s in ("strEsc", "chrEsc"):
            out.append(("lit", c)); s = s[:3]
    if s == "slash":
        out.append(("ch", "/"))
    return out


def strip_f(t):
    out, s, q = [], "code", None
    for c in t:
        if s == "amp":
            if c == "\n":
                s = "cont"; continue
            if c in BLANK:
                continue
            if c == "!":
                s = "ampComment"; continue
            if c == "&":
                out += [("ch", "&"), ("ch", "&")]; s = "code"; continue
            out.append(("ch", "&")); s = "code"
        elif s == "cont":
            if c == "\n" or c in BLANK:
                continue
            if c == "!":
                s = "contComment"; continue
            if c == "&":
                s = "code"; continue
            out.append(SP); s = "code"
        if s == "code":
            if c == "!":
                s = "comment"; out.append(SP)
            elif c in "'\"":
                s = "str"; q = c; out.append(("lit", c))
            elif c == "&":
                s = "amp"
            else:
                out.append(_code_out(c))
        elif s == "str":
            if c == "\n":
                out.append(NL); s = "code"
            elif c == q:
                out.append(("lit", c)); s = "code"
            else:
                out.append(("lit", c))
        elif s == "comment":
            if c == "\n":
                s = "code"; out.append(NL)
        elif s in ("ampComment", "contComment"):
            if c == "\n":
                s = "cont"
    if s == "amp":
        out.append(("ch", "&"))
    return out


def tokens(outs):
    """non-empty logical lines, each a list of tokens, a token a list of (kind, char)"""
    lines, line, tok = [], [], []
    for o in outs:
        if o is SP or o is NL:
            if tok:
                line.append(tok); tok = []
            if o is NL and line:
                lines.append(line); line = []
        else:
            tok.append(o)
    if tok:
        line.append(tok)
    if line:
        lines.append(line)
    return lines


HASHMOD = (1 << 61) - 1


def digest(lines):
    h, n = 7, 0
    for l in lines:
        for t in l:
            n += 1
            for k, c in t:
                h = (h * 1000003 + 2 * ord(c) + (3 if k == "ch" else 4) + 1) % HASHMOD
            h = (h * 1000003 + 2) % HASHMOD
        h = (h * 1000003 + 3) % HASHMOD
    return "%d %d %d" % (len(lines), n, h)


def _alnum(c):
    return c.isascii() and c.isalnum()


CFG_C = dict(isword=lambda c: _alnum(c) or c in "_$", expo="eEpP", dotnum=True, puncts={
    "->", "++", "--", "<<", ">>", "<=", ">=", "==", "!=", "&&", "||", "+=", "-=", "*=", "/=", "%=", "&=", "^=", "|=",
    "::", "##", ".*", "..", "<:", ":>", "<%", "%>", "%:", "<<=", ">>=", "...", "->*", "<=>", "%:%", "%:%:"})
CFG_F = dict(isword=lambda c: _alnum(c) or c in "_.", expo="edq", dotnum=False,
             puncts={"**", "//", "==", "/=", "<=", ">=", "=>", "::", "(/", "/)"})


def lex_chunk(cfg, chunk):
    """mirror of Model/Lex.lean lexChunk: split a blank-free chunk into language tokens"""
    out, cur, k = [], [], 0
    n = len(chunk)
    for i, o in enumerate(chunk):
        kind, c = o
        lit = kind == "lit"
        nd = i + 1 < n and chunk[i + 1][0] == "ch" and chunk[i + 1][1].isascii() and chunk[i + 1][1].isdigit()
        if k == 1:
            ext = lit or cfg["isword"](c)
        elif k == 2:
            ext = (lit or cfg["isword"](c) or c == "." or
                   (c in "+-" and bool(cur) and cur[-1][0] == "ch" and cur[-1][1] in cfg["expo"]))
        elif k == 3:
            ext = (not lit and not cfg["isword"](c) and not (cfg["dotnum"] and c == "." and nd)
                   and "".join(x[1] for x in cur) + c in cfg["puncts"])
        else:
            ext = False
        if ext:
            cur.append(o)
        else:
            if cur:
                out.append(cur)
            cur = [o]
            if lit:
                k = 1
            elif c.isascii() and c.isdigit():
                k = 2
            elif cfg["dotnum"] and c == "." and nd:
                k = 2
            elif cfg["isword"](c):
                k = 1
            else:
                k = 3
    if cur:
        out.append(cur)
    return out


def lex_line_c(l):
    per = [lex_chunk(CFG_C, ch) for ch in l]
    flat = [t for c in per for t in c]
    if len(flat) >= 2 and flat[0] == [("ch", "#")] and flat[1] == [("ch", c) for c in "include"]:
        n, rest = 2, []
        for c in per:
            if n >= len(c):
                n -= len(c)
                continue
            rest.append([x for t in c[n:] for x in t])
            n = 0
        return flat[:2] + [t for t in rest if t]
    if len(flat) >= 2 and flat[0] == [("ch", "#")] and flat[1] == [("ch", c) for c in "define"]:
        n, rest = 2, []
        for c in per:
            if n >= len(c) and not rest:
                n -= len(c)
                continue
            rest.append(c[n:] if not rest else c)
            n = 0
        if rest and len(rest[0]) >= 2 and rest[0][1] == [("ch", "(")]:
            rest[0] = [rest[0][0] + rest[0][1]] + rest[0][2:]
        return flat[:2] + [t for c in rest for t in c]
    return flat


def _lower(c):
    return chr(ord(c) + 32) if "A" <= c <= "Z" else c


def refine(lang, lines):
    if lang == "f":
        return [lex_line_c(l) if l and l[0][0] == ("ch", "#") else
                [t for ch in l for t in lex_chunk(CFG_F, [(k, _lower(c) if k == "ch" else c) for k, c in ch])] for l in lines]
    lexed = [lex_line_c(l) for l in lines]
    res = []
    for l in reversed(lexed):
        isdir = bool(l) and l[0][0] == ("ch", "#")
        if isdir or not res or (res[-1] and res[-1][0][0] == ("ch", "#")):
            res.append(l)
        else:
            res[-1] = l + res[-1]
    res.reverse()
    return res


def py_tokens(lang, text):
    return refine(lang, tokens(strip_c(text) if lang == "c" else strip_f(text)))


def tok_text(lines):
    return [["".join(c for _k, c in t) for t in l] for l in lines]


# ------------------------------------------------------------------ variants
GLOBAL_OPTS = ("debug", "doxygen", "show_splicer_comments", "write_version")


def global_variants(thorough, r):
    """list of (name, spec) with spec = dict(debug, doxygen, show_splicer_comments, write_version)"""
    base = dict(debug=False, doxygen=False, show_splicer_comments=False, write_version=False)
    res = [("base", base)]
    for o in GLOBAL_OPTS:
        v = dict(base); v[o] = True
        res.append((o, v))
    res.append(("all", dict(debug=True, doxygen=True, show_splicer_comments=True, write_version=True)))
    combos = [dict(zip(GLOBAL_OPTS, bits)) for bits in itertools.product((False, True), repeat=4)]
    combos = [c for c in combos if sum(c.values()) in (2, 3)]
    r.shuffle(combos)
    for c in combos[: (len(combos) if thorough else 2)]:
        res.append(("+".join(k for k in GLOBAL_OPTS if c[k]), c))
    return res


def spec_cmdline(spec):
    opts = ["debug=%s" % spec["debug"], "debug_index=%s" % spec["debug"], "doxygen=%s" % spec["doxygen"],
            "show_splicer_comments=%s" % spec["show_splicer_comments"]]
    return opts, bool(spec["write_version"])


def walk_decls(decls, path=()):
    for i, d in enumerate(decls or []):
        if isinstance(d, dict) and "decl" in d:
            yield path + (i,), d
            if isinstance(d.get("declarations"), list):
                for x in walk_decls(d["declarations"], path + (i,)):
                    yield x


def decl_variants(doc, thorough, r):
    """per-declaration edits: list of (name, {decl path: {option: value}})"""
    paths = [p for p, _d in walk_decls(doc.get("declarations"))]
    if not paths:
        return []
    res = []
    for opt, val in (("debug", True), ("doxygen", True), ("literalinclude", True)):
        res.append(("decl-all-%s" % opt, {p: {opt: val} for p in paths if len(p) == 1}))
        k = max(1, len(paths) // 3)
        for j in range(2 if thorough else 1):
            sub = r.sample(paths, k)
            res.append(("decl-some%d-%s" % (j, opt), {p: {opt: val} for p in sub}))
    # options set together on the same declarations (inherited by the members of namespaces and classes)
    for pair in (("debug", "debug_index"), ("doxygen", "debug"), ("literalinclude", "debug"),
                 ("literalinclude", "debug", "debug_index", "doxygen")):
        res.append(("decl-all-" + "+".join(pair), {p: {o: True for o in pair} for p in paths if len(p) == 1}))
        nested = [p for p in paths if len(p) > 1]
        if nested:
            res.append(("decl-inner-" + "+".join(pair), {p: {o: True for o in pair} for p in r.sample(nested, max(1, len(nested) // 2))}))
    mix = {}
    for p in paths:
        if r.random() < 0.5:
            mix[p] = {o: True for o in ("debug", "debug_index", "doxygen", "literalinclude") if r.random() < 0.5}
    res.append(("decl-mix", mix))
    # the option on every class / on the first / on the last class only
    cls = class_paths(doc)
    if cls:
        for opt in ("literalinclude", "debug", "doxygen"):
            res.append(("decl-class-all-%s" % opt, {p: {opt: True} for p in cls}))
            if len(cls) > 1:
                res.append(("decl-class-first-%s" % opt, {cls[0]: {opt: True}}))
                res.append(("decl-class-last-%s" % opt, {cls[-1]: {opt: True}}))
    # the option on one specific member (first / middle / last) of every overload set
    sets = overload_sets(doc)
    if sets:
        for pos in ("first", "middle", "last"):
            if pos == "middle" and not any(len(s) > 2 for s in sets):
                continue
            for opt in ("literalinclude", "debug", "doxygen"):
                ed = {}
                for s in sets:
                    if pos == "middle" and len(s) <= 2:
                        continue
                    ed[s[0] if pos == "first" else s[-1] if pos == "last" else s[len(s) // 2]] = {opt: True}
                res.append(("decl-ovl-%s-%s" % (pos, opt), ed))
    return res


_FNAME = re.compile(r"([A-Za-z_]\w*)\s*\(")


def overload_sets(doc):
    """declaration paths grouped by (scope, function name), groups of two or more"""
    groups = {}
    for p, d in walk_decls(doc.get("declarations")):
        t = d["decl"].strip()
        if t.split(" ")[0] in ("class", "struct", "enum", "namespace", "typedef", "template", "using"):
            continue
        m = _FNAME.search(t)
        if m:
            groups.setdefault((p[:-1], m.group(1)), []).append(p)
    sets = [g for g in groups.values() if len(g) > 1]
    # functions of the same name in different scopes (they can share generated entities: generic names,
    # abstract interfaces of their callback arguments)
    byname = {}
    for (scope, nm), g in groups.items():
        byname.setdefault(nm, []).extend(g)
    for nm, g in byname.items():
        if len(g) > 1 and len({p[:-1] for p in g}) > 1 and sorted(g) not in [sorted(x) for x in sets]:
            sets.append(sorted(g))
    return sets


def class_paths(doc):
    return [p for p, d in walk_decls(doc.get("declarations")) if d["decl"].strip().split(" ")[0] in ("class", "struct")]


def apply_decl_edits(doc, edits, base_off=True):
    """deep copy of doc with `options` merged into the addressed declarations"""
    doc = json.loads(json.dumps(doc))
    for path, opts in edits.items():
        d = {"declarations": doc["declarations"]}
        for i in path:
            d = d["declarations"][i]
        o = d.get("options")
        if not isinstance(o, dict):
            o = {}
        o.update(opts)
        d["options"] = o
    return doc


# ------------------------------------------------------------------ worker: all variants of one library in one process
def worker(spec):
    """spec: {yaml, language, options, path, variants: [{outdir, options, write_version, yaml_text}]}"""
    res = []
    for v in spec["variants"]:
        y = spec["yaml"]
        if v.get("yaml_text") is not None:
            y = os.path.join(v["outdir"] + ".in", os.path.basename(spec["yaml"]))
            os.makedirs(os.path.dirname(y), exist_ok=True)
            with open(y, "w") as f:
                f.write(v["yaml_text"])
        cfg, exc, out = shroudrun.run_inproc([y], v["outdir"], options=list(spec["options"]) + list(v["options"]),
                                             language=spec.get("language"), write_version=v["write_version"],
                                             path=spec.get("path"))
        res.append(None if exc is None else "%s: %s" % (type(exc).__name__, exc))
    return res


def run_worker(spec, timeout=1200):
    env = dict(os.environ, PYTHONPATH=common.VERIF + ":" + common.REPO, PYTHONDONTWRITEBYTECODE="1")
    p = subprocess.run([sys.executable, "-m", "tools.props.c16", "--worker"], input=json.dumps(spec),
                       stdout=subprocess.PIPE, stderr=subprocess.PIPE, text=True, env=env, cwd=common.VERIF,
                       timeout=timeout)
    if p.returncode != 0:
        raise RuntimeError("c16 worker failed: " + p.stderr[-1500:])
    return json.loads(p.stdout.strip().split("\n")[-1])


def load_yaml(path):
    import yaml
    with open(path) as f:
        return yaml.safe_load(f)


def dump_yaml(doc):
    import yaml
    return yaml.safe_dump(doc, default_flow_style=False, sort_keys=False)


def library_items(thorough, r, work):
    """[{label, yaml, options, language, path}]"""
    from tools.gen import libgen
    items = []
    names = [c[0] for c in shroudrun.CORPUS] if thorough else QUICK_LIBS
    for n, y, extra in shroudrun.CORPUS:
        if n not in names:
            continue
        opts, lang, _wv = shroudrun.parse_cmdline(extra)
        # library-level literalinclude(2) is excluded by the property: keep what the corpus line says (same in all variants)
        opts = [o for o in opts if not o.startswith("debug=")]
        items.append(dict(label=n, yaml=shroudrun.corpus_yaml(y), options=["debug_testsuite=true"] + opts, language=lang,
                          path=[shroudrun.REG]))
    for i in range(8 if thorough else 3):
        lib = libgen.gen_lib(r, name="gl%d" % i, wrap={"wrap_python": r.random() < 0.6, "wrap_lua": r.random() < 0.5})
        d = lib.todict()
        # some documentation so that doxygen has something to say
        for _p, dd in walk_decls(d["declarations"]):
            if r.random() < 0.5:
                dd["doxygen"] = {"brief": "brief of %s" % dd["decl"].split("(")[0][-12:], "description": "line one\nline two\n"}
                if r.random() < 0.4:
                    dd["doxygen"]["brief"] += "\nsecond brief line"
                    dd["doxygen"]["description"] = "no trailing newline\nsecond line"
                    dd["doxygen"]["return"] = "what it returns\nmore\n"
        y = shroudrun.write_yaml(work, "gl%d.yaml" % i, dump_yaml(d))
        items.append(dict(label="gen:gl%d" % i, yaml=y, options=[], language=None, path=[work], text=dump_yaml(d)))
    return items


# ------------------------------------------------------------------ feature libraries: the inputs option-guarded code interacts with
FEATURES = collections.Counter()
CPP_PATTERNS = ("none", "same", "first", "last", "differ", "first-two-same")
_PAT_QUEUE = []
SIGS = ["int i", "double d", "const std::string &s", "int i, int j", "long n, double x", "bool flag"]


def _cpp_if(pattern, k, n, tag):
    """cpp_if of member k of an n-member overload set"""
    if pattern == "none":
        return None
    if pattern == "same":
        return "if defined(HAVE_%s)" % tag
    if pattern == "first":
        return "if defined(HAVE_%s_0)" % tag if k == 0 else None
    if pattern == "last":
        return "if defined(HAVE_%s_L)" % tag if k == n - 1 else None
    if pattern == "differ":
        return "if defined(HAVE_%s_%d)" % (tag, k)
    return "if defined(HAVE_%s)" % tag if k < 2 else "if defined(HAVE_%s_X)" % tag      # first-two-same


def _doxygen(r, what):
    kind = r.choice(["single", "multi", "multi-no-trailing-newline", "brief-only", "tab-formfeed-long"])
    FEATURES["doxygen:" + kind] += 1
    if kind == "single":
        return {"brief": "brief of " + what, "description": "one line\n"}
    if kind == "multi":
        return {"brief": "brief of %s\nsecond brief line" % what, "description": "line one\nline two\n",
                "return": "what it returns\nmore\n"}
    if kind == "multi-no-trailing-newline":
        return {"brief": "brief of " + what, "description": "no trailing newline\nsecond line", "return": "value"}
    if kind == "tab-formfeed-long":
        return {"brief": "brief of %s\twith a tab and enough words to be longer than the line length of every writer\tend" % what,
                "description": "col1\tcol2 " + "x" * 90 + "\fcol3\n", "return": "a\tb"}
    return {"brief": "brief of " + what}


def _overload_set(r, base, tag, ret="void"):
    n = r.choice([2, 3, 3, 4])
    sigs = r.sample(SIGS, n)
    # round robin over a shuffled order: every pattern occurs once in any six consecutive sets of a run
    if not _PAT_QUEUE:
        q = list(CPP_PATTERNS)
        r.shuffle(q)
        _PAT_QUEUE.extend(q)
    pattern = _PAT_QUEUE.pop()
    FEATURES["overload-set"] += 1
    FEATURES["overload-cpp_if:" + pattern] += 1
    out = []
    for k, sg in enumerate(sigs):
        d = {"decl": "%s %s(%s)" % (ret, base, sg)}
        c = _cpp_if(pattern, k, n, tag)
        if c:
            d["cpp_if"] = c
        if r.random() < 0.4:
            d["doxygen"] = _doxygen(r, base)
        out.append(d)
    return out


def gen_feature_lib(r, name, idx=0):
    """A C++ library description built from the features that option-guarded emitter code touches: overload
    sets whose members carry equal / partly equal / different / no cpp_if, fortran_generic, default-argument
    generics, classes (with cpp_if) holding overloaded methods, doxygen text blocks of several shapes,
    per-declaration splicers."""
    from tools.gen import libgen
    decls = []
    for i in range(r.randrange(1, 4)):
        d = libgen.gen_function(r, "c++", "plain%d" % i)
        if r.random() < 0.5:
            d["doxygen"] = _doxygen(r, "plain%d" % i)
        if r.random() < 0.3:
            d["cpp_if"] = "if defined(HAVE_PLAIN%d)" % i
            FEATURES["function-cpp_if"] += 1
        if r.random() < 0.3:
            d["splicer"] = {"c": ["// user body", "user_body_%d();" % i], "f": ["! user body", "call user_body_%d()" % i]}
            FEATURES["decl-splicer"] += 1
        decls.append(d)
    for s in range(2):
        decls += _overload_set(r, "ovl%d" % s, "OVL%d" % s)
    if r.random() < 0.7:
        d = {"decl": "double genreal(double arg)", "fortran_generic": [
            {"decl": "(float arg)", "function_suffix": "_float"}, {"decl": "(double arg)", "function_suffix": "_double"}]}
        if r.random() < 0.5:
            d["cpp_if"] = "if defined(HAVE_GENREAL)"
        if r.random() < 0.5:
            d["doxygen"] = _doxygen(r, "genreal")
        FEATURES["fortran_generic"] += 1
        decls.append(d)
    if r.random() < 0.7:
        d = {"decl": "int dflt(int a, int b = 1, double c = 2.5)"}
        if r.random() < 0.5:
            d["cpp_if"] = "if defined(HAVE_DFLT)"
        if r.random() < 0.4:
            d["default_arg_suffix"] = ["_a", "_ab", "_abc"]
        FEATURES["default-arg-generic"] += 1
        decls.append(d)
    if r.random() < 0.7:
        cname = "Cls%d" % r.randrange(9)
        inner = [{"decl": "%s()" % cname}, {"decl": "~%s()" % cname}]
        inner += _overload_set(r, "meth", cname.upper(), ret="int")
        inner.append(libgen.gen_function(r, "c++", "single", in_class=True))
        c = {"decl": "class " + cname, "declarations": inner}
        if r.random() < 0.5:
            c["cpp_if"] = "if defined(HAVE_%s)" % cname.upper()
            FEATURES["class-cpp_if"] += 1
        FEATURES["class"] += 1
        decls.append(c)
    # scopes that get their own output files and may hold nothing that needs generated code
    kinds = ["ns-extern-C", "ns-fn-extern-C", "ns-enum-only", "ns-empty-class", "ns-nested-thin"]
    thin = [kinds[(2 * idx) % 5], kinds[(2 * idx + 1) % 5]] + ([r.choice(kinds)] if r.random() < 0.3 else [])   # all five within three libraries
    for k, kind in enumerate(thin):
        FEATURES["thin-scope:" + kind] += 1
        scal = [{"decl": "void set%d(int v)" % k}, {"decl": "double scale%d(double x, int n)" % k}]
        if kind == "ns-extern-C":
            decls.append({"decl": "namespace capi%d" % k, "options": {"C_extern_C": True}, "declarations": scal})
        elif kind == "ns-fn-extern-C":
            for d in scal:
                d["options"] = {"C_extern_C": True}
            decls.append({"decl": "namespace fapi%d" % k, "declarations": scal})
        elif kind == "ns-enum-only":
            decls.append({"decl": "namespace en%d" % k, "declarations": [{"decl": "enum Shade%d { LIGHT%d, DARK%d = 4 };" % (k, k, k)}]})
        elif kind == "ns-empty-class":
            decls.append({"decl": "namespace ec%d" % k, "declarations": [{"decl": "class Bare%d" % k, "declarations": []}]})
        else:
            decls.append({"decl": "namespace outer%d" % k, "declarations": [
                {"decl": "int real%d(const std::string &s)" % k},
                {"decl": "namespace inner", "options": {"C_extern_C": True}, "declarations": scal}]})
    # a class whose overloaded methods carry no cpp_if (one type-bound generic statement for all of them)
    kname = "Counter%d" % r.randrange(9)
    k = {"decl": "class " + kname, "declarations": [
        {"decl": kname + "()"}, {"decl": "~%s()" % kname}, {"decl": "void add(int n)"}, {"decl": "void add(double x)"}]
        + ([{"decl": "void add(int n, int times)"}] if r.random() < 0.6 else []) + [{"decl": "int total() const"}]}
    FEATURES["class-plain-overloaded-methods"] += 1
    decls.append(k)
    # functions that release memory through one shared free_pattern (their destructors are merged by name)
    patterns = {}
    if r.random() < 0.8:
        nshare = r.choice([2, 2, 3])
        patterns["free_shared"] = "release_shared(ptr);\n"
        for j in range(nshare):
            decls.append({"decl": "char *getShared%d() +free_pattern(free_shared)+owner(caller)" % j})
        if r.random() < 0.5:
            patterns["free_other"] = "release_other(ptr);\n"
            decls.append({"decl": "char *getOther() +free_pattern(free_other)+owner(caller)"})
        decls.append({"decl": "int *getValues(int *n +intent(out)) +dimension(n)+owner(caller)"})
        FEATURES["shared-free_pattern-functions"] += nshare
    # callbacks: the same method name and argument name in two classes, different signatures
    if r.random() < 0.8:
        sig = r.sample(["int (*cmp)(int a, int b)", "bool (*cmp)(double value)", "void (*cmp)(int *p)", "double (*cmp)(void)"], 2)
        for j, sg in enumerate(sig):
            decls.append({"decl": "class Holder%d" % j, "declarations": [{"decl": "void setCompare(%s)" % sg}]})
        decls.append({"decl": "void applyFcn(int (*fcn)(int), int n)"})
        FEATURES["same-named-callbacks"] += 1
    if r.random() < 0.6:
        FEATURES["class-with-baseclass"] += 1
        b = "Base%d" % r.randrange(9)
        decls.append({"decl": "class " + b, "declarations": [{"decl": b + "()"}, {"decl": "int baseMethod(int i)"}]})
        dv = {"decl": "class Derived%s : public %s" % (b[-1], b), "declarations": [
            {"decl": "Derived%s()" % b[-1]}, {"decl": "double derivedMethod(double d)"}]}
        if r.random() < 0.5:
            dv["cpp_if"] = "if defined(HAVE_DERIVED)"
        decls.append(dv)
    if r.random() < 0.6:
        FEATURES["struct"] += 1
        st = {"decl": "struct Pair%d { int ifield; double dfield; };" % r.randrange(9)}
        pa = r.choice(["class", "numpy", None])
        if pa:
            st["options"] = {"PY_struct_arg": pa}
            FEATURES["struct-PY_struct_arg:" + pa] += 1
        decls.append(st)
    r.shuffle(decls) if r.random() < 0.3 else None
    doc = {"library": name, "cxx_header": name + ".hpp", "language": "c++",
           "options": {"wrap_python": r.random() < 0.6, "wrap_lua": r.random() < 0.4}, "declarations": decls}
    if patterns:
        doc["patterns"] = patterns
    return doc


_MARK = re.compile(r"^\s*(?://|!) splicer begin (\S+)\s*$", re.M)


def splicer_lang(fn):
    if fn.endswith(F_EXT):
        return "f"
    if not fn.endswith(C_EXT):
        return None
    if fn.startswith("py"):
        return "py"
    if fn.startswith("lua"):
        return "lua"
    return "c"


def harvest_markers(item, work, tag):
    """names of the splicer blocks Shroud offers for this library: [(lang, dotted name)] (one run, markers on)"""
    out = os.path.join(work, "harvest_" + tag)
    os.makedirs(out, exist_ok=True)
    spec = dict(yaml=item["yaml"], language=item["language"], options=item["options"], path=item["path"],
                variants=[dict(outdir=out, options=["show_splicer_comments=true"], write_version=False, yaml_text=None)])
    excs = run_worker(spec)
    found = []
    if excs[0] is None:
        for fn, data in sorted(shroudrun.read_tree(out, skip_ext=SKIP_EXT).items()):
            lang = splicer_lang(os.path.basename(fn))
            if lang:
                for m in _MARK.finditer(data.decode("utf-8", "replace")):
                    if (lang, m.group(1)) not in found:
                        found.append((lang, m.group(1)))
    common.rmtree(out)
    return found


def add_user_splicers(doc, markers, r, work, tag):
    """User code for a random part of the harvested blocks: `splicer_code` entries (some with an empty body)
    and one splicer file per language.  Returns the new document."""
    doc = json.loads(json.dumps(doc))
    chosen = [m for m in markers if r.random() < 0.35]
    files = {}
    code = doc.get("splicer_code") if isinstance(doc.get("splicer_code"), dict) else {}
    n = 0
    for lang, name in chosen:
        n += 1
        kind = r.choice(["empty", "one", "two", "file", "file"])
        if kind == "file" and isinstance(doc.get("splicer"), dict) and lang in doc["splicer"]:
            kind = "one"      # the library's own splicer file may hold the block already (a repeated block is an error)
        if lang == "f":
            body = [] if kind == "empty" else ["call user_code_%d()" % n] + (["! and a comment", "x_user = %d" % n] if kind == "two" else [])
        else:
            body = [] if kind == "empty" else ["user_code_%d();" % n] + (["// and a comment", "x_user = %d;" % n] if kind == "two" else [])
        if kind == "file":
            files.setdefault(lang, []).append((name, body))
            FEATURES["splicer-file-block:" + lang] += 1
            continue
        parts = name.split(".")
        d = code.setdefault(lang, {})
        ok = isinstance(d, dict)
        for p in parts[:-1]:
            if not ok:
                break
            d = d.setdefault(p, {})
            ok = isinstance(d, dict)
        if ok and parts[-1] not in d:
            d[parts[-1]] = body
            FEATURES["splicer_code:%s%s" % (lang, ":empty" if not body else "")] += 1
    if code:
        doc["splicer_code"] = code
    aux = {}
    for lang, blocks in files.items():
        lead = "!" if lang == "f" else "//"
        fn = "%s_user_splicer_%s.%s" % (tag, lang, "f" if lang == "f" else "c")
        aux[fn] = "".join("%s splicer begin %s\n%s%s splicer end %s\n\n" % (
            lead, name, "".join(b + "\n" for b in body), lead, name) for name, body in blocks)
        with open(os.path.join(work, fn), "w") as f:
            f.write(aux[fn])
        sp = doc.get("splicer") if isinstance(doc.get("splicer"), dict) else {}
        sp[lang] = list(sp.get(lang) or []) + [fn]
        doc["splicer"] = sp
        FEATURES["splicer-file"] += 1
    return doc, aux


def feature_items(thorough, r, work, corpus_items):
    """generated feature libraries and corpus libraries, each with user splicers for harvested block names"""
    cands = []
    for i in range(10 if thorough else 4):
        d = gen_feature_lib(r, "fl%d" % i, i)
        y = shroudrun.write_yaml(work, "fl%d_0.yaml" % i, dump_yaml(d))
        cands.append((dict(label="gen:fl%d" % i, yaml=y, options=[], language=None, path=[work]), d, "fl%d" % i))
    for it in corpus_items:
        doc = load_yaml(it["yaml"])
        if isinstance(doc, dict) and isinstance(doc.get("declarations"), list):
            cands.append((it, doc, it["label"].replace("-", "_") + "_spl"))
    with ThreadPoolExecutor(12) as ex:
        marks = list(ex.map(lambda c: harvest_markers(c[0], work, c[2]), cands))
    items = []
    for (it, doc, tag), mk in zip(cands, marks):
        if not mk:
            continue
        FEATURES["splicer-blocks-offered"] += len(mk)
        doc2, aux = add_user_splicers(doc, mk, r, work, tag)
        y = shroudrun.write_yaml(work, tag + ".yaml", dump_yaml(doc2))
        label = it["label"] if it["label"].startswith("gen:") else it["label"] + "+splicers"
        items.append(dict(label=label, yaml=y, options=it["options"], language=it["language"],
                          path=[work] + [p for p in it["path"] if p != work], text=dump_yaml(doc2), aux=aux))
    return items


def plan_variants(item, thorough, r, work):
    """worker spec + variant names for one library"""
    doc = load_yaml(item["yaml"])
    variants, names = [], []
    base_spec = None
    for name, spec in global_variants(thorough, r):
        opts, wv = spec_cmdline(spec)
        if name == "base":
            base_spec = (opts, wv)
        variants.append(dict(options=opts, write_version=wv, yaml_text=None))
        names.append(name)
    if isinstance(doc, dict) and isinstance(doc.get("declarations"), list):
        for name, edits in decl_variants(doc, thorough, r):
            variants.append(dict(options=base_spec[0], write_version=base_spec[1],
                                 yaml_text=dump_yaml(apply_decl_edits(doc, edits)),
                                 edits={".".join(map(str, p)): o for p, o in edits.items()}))
            names.append(name)
        # the base for per-declaration variants goes through the same YAML round trip
        variants.append(dict(options=base_spec[0], write_version=base_spec[1], yaml_text=dump_yaml(doc)))
        names.append("base-yaml")
    lib = os.path.join(work, item["label"].replace(":", "_"))
    for n, v in zip(names, variants):
        v["outdir"] = os.path.join(lib, n)
        os.makedirs(v["outdir"], exist_ok=True)
    spec = dict(yaml=item["yaml"], language=item["language"], options=item["options"], path=item["path"],
                variants=variants)
    return spec, names


# ------------------------------------------------------------------ judging
class Judge:
    """The compiled Lean checker; the Python mirror is the fallback oracle when the driver is unavailable."""

    def __init__(self, ctx, lean_ok):
        self.ctx = ctx
        self.drv = common.Driver("drv_lex")
        self.use_lean = lean_ok and self.drv.available()
        self.disagree = []
        self.cache = {}

    def _toks(self, lang, text):
        key = (lang, hashlib.sha1(text.encode()).digest())
        if key not in self.cache:
            if len(self.cache) > 4000:
                self.cache.clear()
            self.cache[key] = tok_text(py_tokens(lang, text))
        return self.cache[key]

    def compare(self, pairs):
        """pairs: [(lang, textA, textB)] -> list of None (accepted) or (line index, tokensA, tokensB)"""
        if not pairs:
            return []
        res = []
        py = []
        for lang, a, b in pairs:
            ta, tb = self._toks(lang, a), self._toks(lang, b)
            if ta == tb:
                py.append(None)
            else:
                k = next((i for i, (x, y) in enumerate(zip(ta, tb)) if x != y), min(len(ta), len(tb)))
                py.append((k, ta[k] if k < len(ta) else [], tb[k] if k < len(tb) else []))
        if not self.use_lean:
            return py
        out = self.drv.run(["cmp %s %s %s" % (lang, common.enc(a), common.enc(b)) for lang, a, b in pairs])
        for o, p, (lang, a, b) in zip(out, py, pairs):
            if o == "same":
                res.append(None)
            else:
                f = o.split(" ")
                res.append((int(f[1]), common.decs(f[2]), common.decs(f[3])))
            if (res[-1] is None) != (p is None) or (p is not None and res[-1][0] != p[0]):
                self.disagree.append({"lang": lang, "lean": o[:200], "python": repr(p)[:200], "a": a[:400], "b": b[:400]})
        return res


def lexer_correspondence(ctx, lean_ok, file_texts, thorough):
    """Python mirror vs Lean driver token digests: corpus cases, exhaustive short strings, random strings, real files."""
    drv = common.Driver("drv_lex")
    if not (lean_ok and drv.available()):
        ctx.tie_broken("lexer-correspondence", "driver drv_lex not built")
        return
    r = common.rng("c16-lex")
    cases = []
    cpath = os.path.join(common.CORPUS, "c16.txt")
    if os.path.exists(cpath):
        for ln in open(cpath):
            f = ln.rstrip("\n").split(" ")
            if len(f) == 3 and f[0] == "lex":
                cases.append((f[1], common.dec(f[2])))
    alpha = {"c": "a/*\"'\\\n ;", "f": "a!&'\"\n ;x"}                      # comment / literal / continuation structure
    talpha = {"c": "a1.e+-<=>#:%\" \n(", "f": "aE1.+-*/(=:#' \n"}                 # token structure
    n = 5 if thorough else 4
    for lang in ("c", "f"):
        for k in range(0, n + 1):
            for t in itertools.product(alpha[lang], repeat=k):
                cases.append((lang, "".join(t)))
        for k in range(1, n):
            for t in itertools.product(talpha[lang], repeat=k):
                cases.append((lang, "".join(t)))
        for _ in range(6000 if thorough else 1500):
            k = r.randrange(5, 60)
            cases.append((lang, "".join(r.choice(alpha[lang] + talpha[lang] + "ab =\t(_$D") for _ in range(k))))
    # preprocessor directive lines (header names, function-like macro definitions), in C and inside Fortran sources
    words = ["#", "define", "include", "F", "(", "x", ")", " ", "<", "a.h", ">", "\n"]
    for k in range(1, 6 if thorough else 5):
        for w in itertools.product(words, repeat=k):
            cases.append(("c", "".join(w)))
            if k < 4:
                cases.append(("f", "".join(w)))
    nreal = 0
    for lang, text in file_texts:
        cases.append((lang, text))
        nreal += 1
    out = drv.run(["tok %s %s" % (lang, common.enc(t)) for lang, t in cases])
    bad = []
    for (lang, t), o in zip(cases, out):
        d = digest(py_tokens(lang, t))
        if d != o:
            bad.append({"lang": lang, "text": t[:300], "lean": o, "python": d})
        if len(t) > 3 and any(x in t for x in ("//", "/*", "!", '"', "'", "&")):
            ctx.nontrivial(("lex", lang, hashlib.sha1(t.encode()).hexdigest()[:12]))
    ctx.count(len(cases))
    ctx.note("lexer_correspondence", {"cases": len(cases), "real_files": nreal, "disagreements": len(bad)})
    if bad:
        ctx.tie_broken("lexer-correspondence", bad[:5])
    # isCommentText on comment shapes (ties the theorems' hypotheses to what the driver computes)
    shapes = [("c", "// x\n", "1"), ("c", "/** a\n * b\n */\n", "1"), ("c", "\n", "1"), ("c", "int a;\n", "0"), ("c", "/* x\n", "0"),
              ("f", "! x\n", "1"), ("f", "  !! y\n\n", "1"), ("f", "a = 1\n", "0"), ("f", "&\n", "0")]
    got = drv.run(["blk %s %s" % (l, common.enc(t)) for l, t, _ in shapes])
    if got != [e for _, _, e in shapes]:
        ctx.tie_broken("isCommentText-shapes", list(zip(shapes, got)))


# ------------------------------------------------------------------ compiler validation (thorough)
def gcc_strip(path, cxx):
    p = subprocess.run(["gcc", "-fpreprocessed", "-dD", "-E", "-P", "-x", "c++" if cxx else "c", path],
                       stdout=subprocess.PIPE, stderr=subprocess.PIPE, text=True, timeout=120)
    return p.stdout if p.returncode == 0 else None


def _segments(lines):
    """whitespace-free text per preprocessor directive line and per stretch of other lines"""
    res, cur = [], []
    for l in lines:
        t = "".join(l.split())
        if not t:
            continue
        if t.startswith("#"):
            if cur:
                res.append("".join(cur)); cur = []
            res.append(t)
        else:
            cur.append(t)
    if cur:
        res.append("".join(cur))
    return res


def _asm(path, incs, cxx, vdir):
    cmd = ["g++" if cxx else "gcc", "-S", "-w", "-O1", "-DNDEBUG", "-o", "-", path] + ["-I" + i for i in incs]
    p = subprocess.run(cmd, stdout=subprocess.PIPE, stderr=subprocess.PIPE, text=True, timeout=300, cwd=vdir)
    if p.returncode != 0:
        return None
    return "\n".join(l for l in p.stdout.split("\n") if not l.lstrip().startswith((".file", ".ident", ".loc")))


def validate_compilers(ctx, samples, work, max_compile):
    """samples: [(name, lang, text, include dirs)].
    C/C++ comment removal: gcc -fpreprocessed -dD -E -P vs the model, (a) character for character per directive line /
    code stretch ignoring blanks, (b) the model's tokens of gcc's output equal the model's tokens of the original.
    C/C++ token boundaries: where the original compiles (wrappers whose library headers are in regression/run), the
    text rebuilt from the model's tokens with ONE BLANK BETWEEN ANY TWO TOKENS must compile to the same assembly: a
    boundary inside a compiler token would break or change it.
    Fortran: the original and the text rebuilt the same way (comments and continuations removed, lower case, one
    blank between tokens) must have the same gfortran parse tree."""
    import sysconfig
    nc = nf = nf_skipped = ncomp = ncomp_skipped = 0
    bad = []
    vdir = os.path.join(work, "validate")
    os.makedirs(vdir, exist_ok=True)
    pyinc = sysconfig.get_paths()["include"]
    for name, lang, text, incs in samples:
        toks = tok_text(py_tokens(lang, text))      # the mirror is tied to the Lean model by lexer_correspondence
        canon = "\n".join(" ".join(l) for l in toks) + "\n"
        if lang == "c":
            if "\\\n" in text:
                continue      # gcc -fpreprocessed does not splice; the generator writes no splices outside macros
            cxx = name.endswith(("pp", "xx"))
            ext = os.path.splitext(name)[1]
            path = os.path.join(vdir, "s" + ext)
            with open(path, "w") as f:
                f.write(text)
            g = gcc_strip(path, cxx)
            if g is None:
                continue
            nc += 1
            gs = _segments(g.split("\n"))
            m = ["".join("".join(l).split()) for l in toks]
            if gs != m:
                k = next((i for i, (x, y) in enumerate(zip(gs, m)) if x != y), min(len(gs), len(m)))
                bad.append({"file": name, "segment": k, "gcc": gs[k:k + 1][:1], "model": m[k:k + 1][:1]})
            elif tok_text(py_tokens("c", g)) != toks:
                bad.append({"file": name, "what": "tokens of gcc's comment-free text differ from the tokens of the original"})
            if ext in (".c", ".cpp", ".cxx") and ncomp < max_compile:
                a0 = _asm(path, incs + [pyinc], cxx, vdir)
                if a0 is None:
                    ncomp_skipped += 1
                else:
                    cpath = os.path.join(vdir, "canon" + ext)
                    with open(cpath, "w") as f:
                        f.write(canon)
                    a1 = _asm(cpath, incs + [pyinc], cxx, vdir)
                    ncomp += 1
                    if a0 != a1:
                        bad.append({"file": name, "what": "text rebuilt from the model's tokens (one blank between tokens) "
                                    + ("does not compile" if a1 is None else "compiles to different assembly")})
        else:
            dumps = []
            for tag, t in (("orig", text), ("canon", canon)):
                path = os.path.join(vdir, tag + ".f90")
                with open(path, "w") as f:
                    f.write(t)
                p = subprocess.run(["gfortran", "-fsyntax-only", "-ffree-form", "-ffree-line-length-none", "-cpp",
                                    "-fdump-fortran-original", "-J", vdir, path],
                                   stdout=subprocess.PIPE, stderr=subprocess.PIPE, text=True, timeout=120)
                dumps.append((p.returncode, p.stdout))
            if dumps[0][0] != 0:
                nf_skipped += 1      # needs modules of other files
                continue
            nf += 1
            if dumps[0] != dumps[1]:
                bad.append({"file": name, "gfortran": "parse trees of the original and of the text rebuilt from the model's tokens differ",
                            "rc": [dumps[0][0], dumps[1][0]]})
    ctx.note("compiler_validation", {"c_files_vs_gcc_E": nc, "c_files_token_rebuild_same_assembly": ncomp,
                                     "c_files_not_compilable_here": ncomp_skipped, "fortran_files_same_parse_tree": nf,
                                     "fortran_skipped_need_other_modules": nf_skipped, "disagreements": len(bad)})
    ctx.count(nc + nf + ncomp)
    if bad:
        ctx.tie_broken("lexer-vs-compiler", bad[:5])


# ------------------------------------------------------------------ corpus library cases
def corpus_lib_cases():
    res = []
    cpath = os.path.join(common.CORPUS, "c16.txt")
    if os.path.exists(cpath):
        for ln in open(cpath):
            if ln.startswith("lib "):
                res.append(json.loads(ln[4:]))
    return res


def plan_corpus_case(case, work, idx):
    y = shroudrun.write_yaml(work, "corpus%d.yaml" % idx, case["yaml"])
    base = dict(debug=False, doxygen=False, show_splicer_comments=False, write_version=False)
    variants, names = [], []
    for v in [{"name": "base", "global": {}}] + case["variants"]:
        spec = dict(base); spec.update(v.get("global", {}))
        opts, wv = spec_cmdline(spec)
        variants.append(dict(options=opts, write_version=wv, yaml_text=None))
        names.append(v["name"])
    lib = os.path.join(work, "corpus_%s" % case["label"])
    for n, v in zip(names, variants):
        v["outdir"] = os.path.join(lib, n)
        os.makedirs(v["outdir"], exist_ok=True)
    item = dict(label="corpus:" + case["label"], yaml=y, options=[], language=None, path=[work], text=case["yaml"])
    return item, dict(yaml=y, language=None, options=[], path=[work], variants=variants), names


def judge_library(ctx, judge, item, spec, names, excs, file_texts, samples):
    trees = {n: shroudrun.read_tree(v["outdir"], skip_ext=SKIP_EXT) for n, v in zip(names, spec["variants"])}
    label = item["label"]
    pairs, meta = [], []
    for n, v, exc in zip(names, spec["variants"], excs):
        bname = "base-yaml" if n.startswith("decl") else "base"
        if n == bname:
            continue
        base, t = trees[bname], trees[n]
        bexc = excs[names.index(bname)]
        ctx.count(1)
        rp = {"library": label, "yaml": item["yaml"] if "text" not in item else None, "yaml_text": item.get("text"),
              "options": item["options"], "language": item["language"], "variant": n, "aux_files": item.get("aux"),
              "variant_options": v["options"], "write_version": v["write_version"], "decl_edits": v.get("edits"),
              "base_options": spec["variants"][names.index(bname)]["options"]}
        if (exc is None) != (bexc is None):
            ctx.fail("%s:%s:<run>" % (n, label), "Shroud %s with variant %s but %s without (%s)" % (
                "fails" if exc else "succeeds", n, "fails" if bexc else "succeeds", exc or bexc), rp)
            continue
        if set(t) != set(base):
            d = sorted(set(t) ^ set(base))
            ctx.fail("%s:%s:<fileset>:%s" % (n, label, d[0]), "variant %s of %s produces a different set of files: %s" % (n, label, d[:5]), rp)
        ndiff = 0
        for fn in sorted(set(t) & set(base)):
            lang = lang_of(fn)
            if lang is None or t[fn] == base[fn]:
                continue
            ndiff += 1
            a, b = base[fn].decode("utf-8", "replace"), t[fn].decode("utf-8", "replace")
            pairs.append((lang, a, b))
            meta.append((n, fn, rp))
        if ndiff:
            ctx.nontrivial((label, n))
    # a few real texts for the lexer correspondence / compiler validation
    for n in ("base", "all", "decl-mix"):
        if n in trees:
            for fn, data in sorted(trees[n].items()):
                lang = lang_of(fn)
                if lang:
                    base = os.path.splitext(os.path.basename(item["yaml"]))[0]
                    incs = [spec["variants"][names.index(n)]["outdir"],
                            os.path.join(common.REPO, "regression", "run", label.split("+")[0]),
                            os.path.join(common.REPO, "regression", "run", base)]
                    samples.append(("%s/%s/%s" % (label, n, fn), lang, data.decode("utf-8", "replace"), incs))
    verdicts = judge.compare(pairs)
    for (n, fn, rp), v, (lang, a, b) in zip(meta, verdicts, pairs):
        if v is not None:
            rp = dict(rp, file=fn, logical_line=v[0], tokens_base=v[1], tokens_variant=v[2])
            ctx.fail("%s:%s:%s" % (n, label, fn),
                     "tokens of %s differ between base and %s for %s: logical line %d: %s vs %s" % (
                         fn, n, label, v[0], " ".join(v[1])[:120], " ".join(v[2])[:120]), rp)
    return len(pairs)


def run(ctx):
    from tools import extract_guards
    thorough = ctx.tier == "thorough"
    r = common.rng("c16")
    work = common.scratch()
    try:
        info = extract_guards.regenerate()
        ctx.note("translator", {k: v for k, v in info.items() if k != "other"})
        ctx.note("unclassified_guarded_sites", info["other"][:20])
        ok = ctx.lean(MODULES, THEOREMS, extra_targets=("drv_lex",))
        ctx.cov["trusted_base"] = [
            "Lean 4.33.0 kernel; axioms within {propext, Classical.choice, Quot.sound}",
            "lexical models Model/Lex.lean: comment removal state machines and the token refinement (coarser-or-equal to compiler "
            "tokens by construction, validated against gcc/gfortran in the thorough tier, mirrored in Python on every run)",
            "tools/extract_guards.py: AST classification of option-guarded statements, emptiness-tested lists, write_version reads; "
            "allow-list of %d entries" % (len(extract_guards.ALLOW) + len(extract_guards.ALLOW_USE)),
            "Shroud.Lines.wof_header_then_body (Props/C13.lean) for the position of the version stamp",
        ]
        ctx.cov["rule"] = ("translation validation: corpus (quick %d, thorough all) + generated + feature libraries (each also with user "
                           "splicers for harvested block names) x {single option on, all on, combinations, per-declaration debug/doxygen/"
                           "literalinclude on all / a third / a random mix of the declarations, option pairs on top-level and nested "
                           "declarations, one option on every/first/last class, on the first/middle/last member of every overload set and of every group of "
                           "same-named functions in different scopes}; file sets compared for "
                           "all outputs except .json/.log; every C/C++/Fortran source pair that differs in bytes is judged by the Lean "
                           "checker; a (library, variant) is non-trivial when at least one source file differs in bytes from the "
                           "all-off base; lexer correspondence: exhaustive strings up to length %d over two 9-16 symbol alphabets per "
                           "language (comment structure, token structure), random strings, real files (non-trivial: contains a comment, "
                           "literal or continuation character)" % (len(QUICK_LIBS), 5 if thorough else 4))
        ctx.assumptions += [
            "dynamic text spliced into comment templates (declaration text, statement names, splicer names) contains no newline",
            "the generator emits no trigraphs, raw strings, splices outside comments/macros, digit separators, or Fortran continuation inside character context",
            "model tokens are unions of whole compiler tokens (validated by compiling the rebuilt text, not proved)",
            "which file pairs are judged is bounded by the libraries and option placements generated",
        ]
        ctx.cov["theorems"] = ctx.cov.get("theorems", [])

        # the driver depends on Model/Lex.lean only: it stays usable when a table theorem of Props/C16.lean breaks
        drv_ok = ok or common.lake_build(["drv_lex"]).ok
        judge = Judge(ctx, drv_ok)
        file_texts, samples = [], []
        # ---------------- corpus cases first
        jobs = []
        for i, case in enumerate(corpus_lib_cases()):
            item, spec, names = plan_corpus_case(case, work, i)
            jobs.append((item, spec, names))
        FEATURES.clear()
        del _PAT_QUEUE[:]
        items = library_items(thorough, r, work)
        items += feature_items(thorough, r, work, [i for i in items if not i["label"].startswith("gen:")])
        for item in items:
            spec, names = plan_variants(item, thorough, r, work)
            jobs.append((item, spec, names))
            for n in names:
                FEATURES["variant:" + re.sub(r"\d+", "", n.split("+")[0] if n.startswith("decl") else ("combo" if "+" in n else n))] += 1
            doc = load_yaml(item["yaml"])
            if isinstance(doc, dict):
                FEATURES["lib-overload-sets"] += len(overload_sets(doc))
                for _p, d in walk_decls(doc.get("declarations")):
                    for k in ("cpp_if", "doxygen", "fortran_generic", "splicer"):
                        if k in d:
                            FEATURES["decl-with-" + k] += 1
        ctx.note("feature_distribution", dict(sorted(FEATURES.items())))
        with ThreadPoolExecutor(12) as ex:
            results = list(ex.map(lambda j: run_worker(j[1]), jobs))
        npairs = 0
        for (item, spec, names), excs in zip(jobs, results):
            if excs[names.index("base")] is not None and all(e is not None for e in excs):
                ctx.note("skipped:" + item["label"], excs[0])
                continue
            npairs += judge_library(ctx, judge, item, spec, names, excs, file_texts, samples)
        ctx.note("judged_pairs", npairs)
        ctx.note("libraries", [j[0]["label"] for j in jobs])
        ctx.sample({"library": jobs[0][0]["label"], "variants": jobs[0][2][:8]})
        if judge.disagree:
            ctx.tie_broken("checker-vs-python-mirror", judge.disagree[:5])
        if not judge.use_lean:
            ctx.tie_broken("lean-checker-unavailable", "verdicts were computed by the Python mirror only")
        # ---------------- lexer correspondence on strings + real files
        seen, texts = set(), []
        for name, lang, text, _incs in samples:
            h = hashlib.sha1(text.encode()).digest()
            if h not in seen:
                seen.add(h)
                texts.append((lang, text))
        r.shuffle(texts)
        lexer_correspondence(ctx, drv_ok, texts[: (400 if thorough else 60)], thorough)
        if thorough:
            uniq, seen2 = [], set()
            for name, lang, text, incs in samples:
                h = hashlib.sha1(text.encode()).digest()
                if h not in seen2:
                    seen2.add(h)
                    uniq.append((name, lang, text, incs))
            r.shuffle(uniq)
            validate_compilers(ctx, uniq[:250], work, 60)
    finally:
        common.rmtree(work)


def replay(path):
    d = json.load(open(path))
    rc = 0
    for f in d.get("failing", []):
        rp = f["replay"]
        print(f["key"], "--", f["what"])
        work = common.scratch()
        try:
            text = rp.get("yaml_text") or open(rp["yaml"]).read()
            doc = __import__("yaml").safe_load(text)
            edits = {tuple(int(x) for x in k.split(".")): v for k, v in (rp.get("decl_edits") or {}).items()}
            y = shroudrun.write_yaml(work, "replay.yaml", text)
            for fn, t in (rp.get("aux_files") or {}).items():
                shroudrun.write_yaml(work, fn, t)
            variants = [dict(options=rp["base_options"], write_version=False, yaml_text=None, outdir=os.path.join(work, "base")),
                        dict(options=rp["variant_options"], write_version=rp["write_version"],
                             yaml_text=dump_yaml(apply_decl_edits(doc, edits)) if edits else None,
                             outdir=os.path.join(work, "variant"))]
            for v in variants:
                os.makedirs(v["outdir"])
            excs = run_worker(dict(yaml=y, language=rp.get("language"), options=rp["options"],
                                   path=[work, shroudrun.REG, os.path.dirname(rp["yaml"] or y)], variants=variants))
            a, b = (shroudrun.read_tree(v["outdir"], skip_ext=SKIP_EXT) for v in variants)
            print("  exceptions:", excs, " file sets equal:", set(a) == set(b))
            for fn in sorted(set(a) & set(b)):
                lang = lang_of(fn)
                if lang and a[fn] != b[fn]:
                    ta, tb = tok_text(py_tokens(lang, a[fn].decode())), tok_text(py_tokens(lang, b[fn].decode()))
                    if ta != tb:
                        k = next((i for i, (x, y2) in enumerate(zip(ta, tb)) if x != y2), min(len(ta), len(tb)))
                        print("  %s: logical line %d: %s | %s" % (fn, k, ta[k:k + 1], tb[k:k + 1]))
                        rc = 1
        finally:
            common.rmtree(work)
    return rc


if __name__ == "__main__":
    if "--worker" in sys.argv:
        print(json.dumps(worker(json.loads(sys.stdin.read()))))
