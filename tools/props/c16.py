"""C16 Documentation and debug options change comments only.

Proof: lean/ShroudVerif/Props/C16.lean over the lexical models Model/Lex.lean (checker
`commentOnlyDiff` = equal token structure after comment removal; accepted edits: comment blocks,
blank lines, trailing comments; every token change rejected) + table theorem over the regenerated
list of option-guarded statements (tools/extract_guards.py -> Gen/Guards.lean).
Translation validation: real outputs of corpus + generated libraries under on/off combinations of
debug(+debug_index) / doxygen / show_splicer_comments / write-version set globally and
debug / doxygen / literalinclude set on individual declarations; same file set; every pair of
differing source files is judged by the compiled Lean checker (drv_lex `cmp`).
Correspondence for the lexers: a Python mirror of the two state machines is compared with the
driver's token digests; the lexers are compared with gcc / gfortran on samples (thorough tier).
"""
import hashlib
import itertools
import json
import os
import subprocess
import sys
from concurrent.futures import ThreadPoolExecutor

from tools import common, shroudrun

LEVEL = "translation_validation"
MANIFEST = dict(
    category="proof",
    text="Lean 4 theorems about lexical models of C/C++ and free-form Fortran comment removal (state machines): the checker "
         "commentOnlyDiff accepts exactly the file pairs with equal token structure, accepts every insertion/removal of "
         "complete comment blocks and blank lines at code-state line boundaries and of trailing comments (for all texts, "
         "any number of edits), stripping is idempotent; a table theorem over a list regenerated from the working tree on "
         "every run says that every statement guarded by debug/debug_index/doxygen/literalinclude/show_splicer_comments/"
         "write_version only appends comment or blank templates (or is on a justified allow-list). Translation validation: "
         "for corpus and generated libraries and on/off combinations of the options (global and per declaration) the real "
         "outputs are produced, the file sets must agree and each differing source pair is judged by the compiled Lean checker.",
    design="3 C16",
    note="Trusted: Lean kernel; the lexical models (no trigraphs, raw strings, #if 0, Fortran continuation inside character "
         "context), validated against gcc -fpreprocessed -E and gfortran -fsyntax-only on samples and mirrored by a Python "
         "lexer compared on every run; the AST classification of guarded statements in tools/extract_guards.py and its "
         "allow-list. The unbounded guarantee is the checker's; which pairs it is applied to is bounded by the libraries "
         "and option combinations produced.",
    technique="Lean 4 proof (state-machine invariants, induction over texts; decide over regenerated tables) + translation validation with a proved checker",
)
MODULES = ["ShroudVerif.Props.C16"]
THEOREMS = {
    "ShroudVerif.Props.C16": [
        "Shroud.Lex.commentOnlyDiff_iff",
        "Shroud.Lex.token_change_detected",
        "Shroud.Lex.insert_comment_block",
        "Shroud.Lex.remove_comment_block",
        "Shroud.Lex.line_comment_block_c",
        "Shroud.Lex.line_comment_block_f",
        "Shroud.Lex.blank_block",
        "Shroud.Lex.block_comment_c",
        "Shroud.Lex.trailing_comment",
        "Shroud.Lex.commentEdit_accepted",
    ]
}

C_EXT = (".c", ".h", ".cpp", ".hpp", ".cxx", ".hxx", ".cc", ".hh")
F_EXT = (".f", ".f90", ".F", ".F90")
SKIP_EXT = (".log", ".json")

QUICK_LIBS = ["tutorial", "classes", "strings", "struct-py-c", "generic", "namespacedoc"]


def lang_of(fn):
    if fn.endswith(C_EXT):
        return "c"
    if fn.endswith(F_EXT):
        return "f"
    return None


# ------------------------------------------------------------------ Python mirror of Model/Lex.lean
BLANK = " \t\r\x0b\x0c"
SP, NL = ("sp",), ("nl",)


def _code_out(c):
    return NL if c == "\n" else SP if c in BLANK else ("ch", c)


def strip_c(t):
    out, s = [], "code"
    for c in t:
        if s == "slash":
            if c == "/":
                s = "line"; out.append(SP); continue
            if c == "*":
                s = "block"; out.append(SP); continue
            out.append(("ch", "/")); s = "code"     # fall through to code handling of c
        if s == "code":
            if c == "/":
                s = "slash"
            elif c == '"':
                s = "str"; out.append(("lit", c))
            elif c == "'":
                s = "chr"; out.append(("lit", c))
            else:
                out.append(_code_out(c))
        elif s == "line":
            if c == "\n":
                s = "code"; out.append(NL)
            elif c == "\\":
                s = "lineEsc"
        elif s == "lineEsc":
            s = "lineEsc" if c == "\\" else "line"
        elif s == "block":
            if c == "*":
                s = "blockStar"
        elif s == "blockStar":
            s = "code" if c == "/" else "blockStar" if c == "*" else "block"
        elif s in ("str", "chr"):
            q = '"' if s == "str" else "'"
            if c == q:
                out.append(("lit", c)); s = "code"
            elif c == "\\":
                out.append(("lit", c)); s += "Esc"
            elif c == "\n":
                out.append(NL); s = "code"
            else:
                out.append(("lit", c))
        elif s in ("strEsc", "chrEsc"):
            out.append(("lit", c)); s = s[:3]
    if s == "slash":
        out.append(("ch", "/"))
    return out


def strip_f(t):
    out, s, q = [], "code", None
    for c in t:
        if s == "amp":
            if c == "\n":
                s = "cont"; continue
            if c in BLANK:
                continue
            if c == "!":
                s = "ampComment"; continue
            if c == "&":
                out += [("ch", "&"), ("ch", "&")]; s = "code"; continue
            out.append(("ch", "&")); s = "code"
        elif s == "cont":
            if c == "\n" or c in BLANK:
                continue
            if c == "!":
                s = "contComment"; continue
            if c == "&":
                s = "code"; continue
            out.append(SP); s = "code"
        if s == "code":
            if c == "!":
                s = "comment"; out.append(SP)
            elif c in "'\"":
                s = "str"; q = c; out.append(("lit", c))
            elif c == "&":
                s = "amp"
            else:
                out.append(_code_out(c))
        elif s == "str":
            if c == "\n":
                out.append(NL); s = "code"
            elif c == q:
                out.append(("lit", c)); s = "code"
            else:
                out.append(("lit", c))
        elif s == "comment":
            if c == "\n":
                s = "code"; out.append(NL)
        elif s in ("ampComment", "contComment"):
            if c == "\n":
                s = "cont"
    if s == "amp":
        out.append(("ch", "&"))
    return out


def tokens(outs):
    """non-empty logical lines, each a list of tokens, a token a list of (kind, char)"""
    lines, line, tok = [], [], []
    for o in outs:
        if o is SP or o is NL:
            if tok:
                line.append(tok); tok = []
            if o is NL and line:
                lines.append(line); line = []
        else:
            tok.append(o)
    if tok:
        line.append(tok)
    if line:
        lines.append(line)
    return lines


HASHMOD = (1 << 61) - 1


def digest(lines):
    h, n = 7, 0
    for l in lines:
        for t in l:
            n += 1
            for k, c in t:
                h = (h * 1000003 + 2 * ord(c) + (3 if k == "ch" else 4) + 1) % HASHMOD
            h = (h * 1000003 + 2) % HASHMOD
        h = (h * 1000003 + 3) % HASHMOD
    return "%d %d %d" % (len(lines), n, h)


def py_tokens(lang, text):
    return tokens(strip_c(text) if lang == "c" else strip_f(text))


def tok_text(lines):
    return [["".join(c for _k, c in t) for t in l] for l in lines]


# ------------------------------------------------------------------ variants
GLOBAL_OPTS = ("debug", "doxygen", "show_splicer_comments", "write_version")


def global_variants(thorough, r):
    """list of (name, spec) with spec = dict(debug, doxygen, show_splicer_comments, write_version)"""
    base = dict(debug=False, doxygen=False, show_splicer_comments=False, write_version=False)
    res = [("base", base)]
    for o in GLOBAL_OPTS:
        v = dict(base); v[o] = True
        res.append((o, v))
    res.append(("all", dict(debug=True, doxygen=True, show_splicer_comments=True, write_version=True)))
    combos = [dict(zip(GLOBAL_OPTS, bits)) for bits in itertools.product((False, True), repeat=4)]
    combos = [c for c in combos if sum(c.values()) in (2, 3)]
    r.shuffle(combos)
    for c in combos[: (len(combos) if thorough else 2)]:
        res.append(("+".join(k for k in GLOBAL_OPTS if c[k]), c))
    return res


def spec_cmdline(spec):
    opts = ["debug=%s" % spec["debug"], "debug_index=%s" % spec["debug"], "doxygen=%s" % spec["doxygen"],
            "show_splicer_comments=%s" % spec["show_splicer_comments"]]
    return opts, bool(spec["write_version"])


def walk_decls(decls, path=()):
    for i, d in enumerate(decls or []):
        if isinstance(d, dict) and "decl" in d:
            yield path + (i,), d
            if isinstance(d.get("declarations"), list):
                for x in walk_decls(d["declarations"], path + (i,)):
                    yield x


def decl_variants(doc, thorough, r):
    """per-declaration edits: list of (name, {decl path: {option: value}})"""
    paths = [p for p, _d in walk_decls(doc.get("declarations"))]
    if not paths:
        return []
    res = []
    for opt, val in (("debug", True), ("doxygen", True), ("literalinclude", True), ("show_splicer_comments", True)):
        res.append(("decl-all-%s" % opt, {p: {opt: val} for p in paths if len(p) == 1}))
        k = max(1, len(paths) // 3)
        for j in range(2 if thorough else 1):
            sub = r.sample(paths, k)
            res.append(("decl-some%d-%s" % (j, opt), {p: {opt: val} for p in sub}))
    mix = {}
    for p in paths:
        if r.random() < 0.5:
            mix[p] = {o: True for o in ("debug", "doxygen", "literalinclude") if r.random() < 0.5}
    res.append(("decl-mix", mix))
    return res


def apply_decl_edits(doc, edits, base_off=True):
    """deep copy of doc with `options` merged into the addressed declarations"""
    doc = json.loads(json.dumps(doc))
    for path, opts in edits.items():
        d = {"declarations": doc["declarations"]}
        for i in path:
            d = d["declarations"][i]
        o = d.get("options")
        if not isinstance(o, dict):
            o = {}
        o.update(opts)
        d["options"] = o
    return doc


# ------------------------------------------------------------------ worker: all variants of one library in one process
def worker(spec):
    """spec: {yaml, language, options, path, variants: [{outdir, options, write_version, yaml_text}]}"""
    res = []
    for v in spec["variants"]:
        y = spec["yaml"]
        if v.get("yaml_text") is not None:
            y = os.path.join(v["outdir"] + ".in", os.path.basename(spec["yaml"]))
            os.makedirs(os.path.dirname(y), exist_ok=True)
            with open(y, "w") as f:
                f.write(v["yaml_text"])
        cfg, exc, out = shroudrun.run_inproc([y], v["outdir"], options=list(spec["options"]) + list(v["options"]),
                                             language=spec.get("language"), write_version=v["write_version"],
                                             path=spec.get("path"))
        res.append(None if exc is None else "%s: %s" % (type(exc).__name__, exc))
    return res


def run_worker(spec, timeout=1200):
    env = dict(os.environ, PYTHONPATH=common.VERIF + ":" + common.REPO, PYTHONDONTWRITEBYTECODE="1")
    p = subprocess.run([sys.executable, "-m", "tools.props.c16", "--worker"], input=json.dumps(spec),
                       stdout=subprocess.PIPE, stderr=subprocess.PIPE, text=True, env=env, cwd=common.VERIF,
                       timeout=timeout)
    if p.returncode != 0:
        raise RuntimeError("c16 worker failed: " + p.stderr[-1500:])
    return json.loads(p.stdout.strip().split("\n")[-1])


def load_yaml(path):
    import yaml
    with open(path) as f:
        return yaml.safe_load(f)


def dump_yaml(doc):
    import yaml
    return yaml.safe_dump(doc, default_flow_style=False, sort_keys=False)


def library_items(thorough, r, work):
    """[{label, yaml, options, language, path}]"""
    from tools.gen import libgen
    items = []
    names = [c[0] for c in shroudrun.CORPUS] if thorough else QUICK_LIBS
    for n, y, extra in shroudrun.CORPUS:
        if n not in names:
            continue
        opts, lang, _wv = shroudrun.parse_cmdline(extra)
        # library-level literalinclude(2) is excluded by the property: keep what the corpus line says (same in all variants)
        opts = [o for o in opts if not o.startswith("debug=")]
        items.append(dict(label=n, yaml=shroudrun.corpus_yaml(y), options=["debug_testsuite=true"] + opts, language=lang,
                          path=[shroudrun.REG]))
    for i in range(8 if thorough else 3):
        lib = libgen.gen_lib(r, name="gl%d" % i, wrap={"wrap_python": r.random() < 0.6, "wrap_lua": r.random() < 0.5})
        d = lib.todict()
        # some documentation so that doxygen has something to say
        for _p, dd in walk_decls(d["declarations"]):
            if r.random() < 0.5:
                dd["doxygen"] = {"brief": "brief of %s" % dd["decl"].split("(")[0][-12:], "description": "line one\nline two\n"}
        y = shroudrun.write_yaml(work, "gl%d.yaml" % i, dump_yaml(d))
        items.append(dict(label="gen:gl%d" % i, yaml=y, options=[], language=None, path=[work], text=dump_yaml(d)))
    return items


def plan_variants(item, thorough, r, work):
    """worker spec + variant names for one library"""
    doc = load_yaml(item["yaml"])
    variants, names = [], []
    base_spec = None
    for name, spec in global_variants(thorough, r):
        opts, wv = spec_cmdline(spec)
        if name == "base":
            base_spec = (opts, wv)
        variants.append(dict(options=opts, write_version=wv, yaml_text=None))
        names.append(name)
    if isinstance(doc, dict) and isinstance(doc.get("declarations"), list):
        for name, edits in decl_variants(doc, thorough, r):
            variants.append(dict(options=base_spec[0], write_version=base_spec[1],
                                 yaml_text=dump_yaml(apply_decl_edits(doc, edits)),
                                 edits={".".join(map(str, p)): o for p, o in edits.items()}))
            names.append(name)
        # the base for per-declaration variants goes through the same YAML round trip
        variants.append(dict(options=base_spec[0], write_version=base_spec[1], yaml_text=dump_yaml(doc)))
        names.append("base-yaml")
    lib = os.path.join(work, item["label"].replace(":", "_"))
    for n, v in zip(names, variants):
        v["outdir"] = os.path.join(lib, n)
        os.makedirs(v["outdir"], exist_ok=True)
    spec = dict(yaml=item["yaml"], language=item["language"], options=item["options"], path=item["path"],
                variants=variants)
    return spec, names


def run(ctx):
    raise NotImplementedError


def replay(path):
    return 0


if __name__ == "__main__":
    if "--worker" in sys.argv:
        print(json.dumps(worker(json.loads(sys.stdin.read()))))
