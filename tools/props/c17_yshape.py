"""Tie (D) of the Lean model of the YAML structure validation (Model/YamlShape.lean, driver op `yshape`) to the real
ast.create_library_from_dictionary on the C17 YAML stream.  Only the shape layer is modelled: a run is compared when
the real code ends in success or in a shape diagnostic (one of SHAPE_IDS); runs that end in another diagnostic
(declaration parsing, node-specific checks) are counted and skipped."""
import contextlib
import copy
import re

from tools import common

SHAPE_IDS = [
    (r"^'(\w+)' must be a dictionary, not", r"must-be-dictionary:\1"),
    (r"^'(\w+)' must be a string, not", r"must-be-string:\1"),
    (r"^default_arg_suffix must be a list", "must-be-list:default_arg_suffix"),
    (r"^cxx_template must be a list of dictionaries", "cxx_template:entry-not-dictionary"),
    (r"^cxx_template must be a list", "must-be-list:cxx_template"),
    (r"^instantation must be defined", "cxx_template:missing-instantiation"),
    (r"^fortran_generic must be a list of dictionaries", "fortran_generic:entry-not-dictionary"),
    (r"^fortran_generic must be a list", "must-be-list:fortran_generic"),
    (r"^decl must be defined for each dictionary in fortran_generic", "fortran_generic:missing-decl"),
    (r"^'declarations' must be a list", "must-be-list:declarations"),
    (r"^Each entry in 'declarations' must be a dictionary", "declarations:entry-not-dictionary"),
    (r"^Field '(\w+)' is not allowed in the declaration", r"decl:field-not-allowed:\1"),
    (r"^Expected 'block', 'class', 'decl'", "declarations:no-decl-or-block"),
    (r"^'copyright' must be a list", "must-be-list:copyright"),
    (r"^'typemap' must be a list", "must-be-list:typemap"),
    (r"^Each entry in 'typemap' must be a dictionary", "typemap:entry-shape"),
    (r"^language must be 'c' or 'c\+\+'", "language:must-be-c-or-c++"),
    (r"^format field '(\w+)' of the library must be a string", r"format-must-be-string:\1"),
]


def shape_id(text):
    flat = " ".join(text.split())
    for rx, rep in SHAPE_IDS:
        m = re.search(rx, flat)
        if m:
            return m.expand(rep) if "\\" in rep else rep
    return None


def enc_y(v):
    """-> list of protocol items, or None (a key that is not a string, non-ASCII text, ...)"""
    if v is None:
        return ["n"]
    if v is True:
        return ["b1"]
    if v is False:
        return ["b0"]
    if isinstance(v, int):
        return ["i:%d" % v]
    if isinstance(v, float):
        return ["r:%d" % (1 if v else 0)]
    if isinstance(v, str):
        if any(ord(c) > 126 or ord(c) < 32 for c in v):
            return None
        return ["s:" + common.enc(v)]
    if isinstance(v, (list, tuple)):
        out = ["l:%d" % len(v)]
        for x in v:
            e = enc_y(x)
            if e is None:
                return None
            out += e
        return out
    if isinstance(v, dict):
        items = [(k, x) for k, x in v.items() if k != "__line__"]
        out = ["m:%d" % len(items)]
        for k, x in items:
            if not isinstance(k, str) or not k or any(ord(c) > 126 or ord(c) < 33 for c in k):
                return None
            e = enc_y(x)
            if e is None:
                return None
            out += [common.enc(k)] + e
        return out
    return None


def run_yshape(ctx, thorough, ok):
    from shroud import ast as sast, typemap
    from tools.props import c17_attrs
    drv = common.Driver("drv_decl")
    cases = c17_attrs.yaml_cases(thorough)
    reqs, impl, labels = [], [], []
    stat = {"cases": len(cases), "compared": 0, "outside_encoding": 0, "other_diagnostic_skipped": 0, "internal": 0,
            "by_outcome": {}, "by_id": {}}
    for label, d in cases:
        items = enc_y(d)
        if items is None:
            stat["outside_encoding"] += 1
            continue
        try:
            with contextlib.redirect_stdout(c17_attrs._NULL):
                typemap.initialize()
                sast.create_library_from_dictionary(copy.deepcopy(d))
            res = "ok"
        except RuntimeError as e:
            i = shape_id(str(e))
            if i is None:
                stat["other_diagnostic_skipped"] += 1
                continue
            res = "reject " + i
        except (SystemExit, DeprecationWarning):
            stat["other_diagnostic_skipped"] += 1
            continue
        except Exception as e:  # noqa  (reported by the YAML oracle, run_yaml)
            stat["internal"] += 1
            continue
        reqs.append("yshape " + " ".join(items))
        impl.append(res)
        labels.append(label)
        cls = res.split(" ")[0]
        stat["by_outcome"][cls] = stat["by_outcome"].get(cls, 0) + 1
        if cls == "reject":
            k = ":".join(res.split(" ", 1)[1].split(":")[:2])
            stat["by_id"][k] = stat["by_id"].get(k, 0) + 1
    stat["compared"] = len(reqs)
    ctx.count(len(reqs))
    if not (drv.available() and ok):
        ctx.tie_broken("yamlShape-correspondence", "driver not built")
        return
    model = drv.run(reqs)
    dis = [{"case": lab, "impl": a, "model": b} for lab, a, b in zip(labels, impl, model) if a != b]
    for a in impl:
        ctx.nontrivial("yshape:" + a)
    stat["disagreements"] = len(dis)
    ctx.note("yamlShape_tie", stat)
    if dis:
        ctx.tie_broken("yamlShape-correspondence", dis[:6])
