"""Shared by C09 and C17: real-code adapters for declast/todict, the line protocol of
drv_decl, and the declaration generators (grammar-directed, single-token mutation,
random token sequences)."""
import os

from tools import common
from tools import extract_decl

INTERNAL = (AttributeError, TypeError, KeyError, IndexError, ValueError, RecursionError, AssertionError,
            NameError, ZeroDivisionError, StopIteration, LookupError, ArithmeticError)

_lib = None


def library():
    """One C++ LibraryNode created after typemap.initialize() (the state main() parses in)."""
    global _lib
    if _lib is None:
        _lib = extract_decl.fresh_library()
    return _lib


def mods():
    from shroud import declast, todict
    return declast, todict


# ------------------------------------------------------------------ tokens <-> protocol
def raw_tokens(text):
    declast, _ = mods()
    return extract_decl.raw_tokens(declast, text)


def enc_tokens(raw):
    out = []
    for typ, val in raw:
        if typ == "INTEGER":
            out.append("%s:%s:%s" % (typ, common.enc(val), common.enc(str(int(val)))))
        elif typ == "REAL":
            out.append("%s:%s:%s" % (typ, common.enc(val), common.enc(str(float(val)))))
        else:
            out.append("%s:%s" % (typ, common.enc(val)))
    return " ".join(out)


def safe_tokenize(text):
    """list of real tokens, or None if the tokenizer of the tree under test raises"""
    declast, _ = mods()
    try:
        return list(declast.tokenize(text))
    except Exception:  # noqa
        return None


def real_kinds(text):
    declast, _ = mods()
    try:
        return " ".join(t.typ for t in declast.tokenize(text))
    except Exception as e:  # noqa
        return "raise:%s:%s" % (type(e).__name__, " ".join(str(e).split())[:80])


def guarded(ctx, phase, fn, *args, **kw):
    """Run one phase of a check.  An exception escaping from it must never take the check down: an internal
    exception raised inside shroud is a failing input of C17's kind; anything else (a diagnostic raised where the
    harness did not expect one, or a harness defect) is recorded as a broken tie for that phase, and the
    implementation-only oracles that follow still run."""
    import traceback
    try:
        return fn(*args, **kw)
    except (KeyboardInterrupt, MemoryError):
        raise
    except BaseException as e:  # noqa
        tb = traceback.extract_tb(e.__traceback__)
        in_shroud = [f for f in tb if os.sep + "shroud" + os.sep in f.filename and common.REPO in f.filename]
        tail = " <- ".join("%s:%d %s" % (os.path.basename(f.filename), f.lineno, f.name) for f in tb[-4:])
        what = "%s: %s [%s]" % (type(e).__name__, " ".join(str(e).split())[:200], tail)
        if in_shroud and not isinstance(e, (RuntimeError, SystemExit)):
            site = in_shroud[-1]
            ctx.fail("internal:%s:%s:%s" % (type(e).__name__, os.path.basename(site.filename), site.name),
                     "internal exception in shroud during harness phase %r: %s" % (phase, what), {"kind": "phase", "phase": phase})
        ctx.tie_broken("harness-phase:" + phase, what)
        return None


# ------------------------------------------------------------------ canonical structure
def _b(v):
    return "1" if v else "0"


def _lst(xs):
    return "[" + ",".join(xs) + "]"


def ser_spec(d):
    return "S(%s|%s|%s|%s|%s|%s)" % (
        common.encs(d["specifier"]), common.encs(d.get("storage", [])), _b(d.get("const")), _b(d.get("volatile")),
        common.enc(d["typemap_name"]), _lst(ser_spec(t) for t in d.get("template_arguments", [])))


def ser_ptr(p):
    return "P(%s,%s,%s)" % (p["ptr"], _b(p.get("const")), _b(p.get("volatile")))


def ser_declarator(d):
    ptrs = _lst(ser_ptr(p) for p in d["pointer"])
    if "name" in d:
        return "L(%s,%s)" % (ptrs, common.enc(d["name"]))
    if "func" in d:
        return "W(%s,%s)" % (ptrs, ser_declarator(d["func"]))
    return "L(%s,~)" % ptrs


def ser_expr(e):
    if "constant" in e:
        return "K(%s)" % common.enc(e["constant"])
    if "left" in e:
        return "B(%s,%s,%s)" % (ser_expr(e["left"]), common.enc(e["op"]), ser_expr(e["right"]))
    if "op" in e:
        return "U(%s,%s)" % (common.enc(e["op"]), ser_expr(e["node"]))
    if "name" in e:
        if "args" in e:
            return "C(%s,%s)" % (common.enc(e["name"]), _lst(ser_expr(a) for a in e["args"]))
        return "I(%s)" % common.enc(e["name"])
    if "node" in e:
        return "R(%s)" % ser_expr(e["node"])
    raise ValueError("unknown expr node %r" % (e,))


def ser_value(v):
    if v is True:
        return "F"
    if isinstance(v, bool):
        return "b:" + str(v)
    if isinstance(v, int):
        return "i:" + common.enc(str(v))
    if isinstance(v, float):
        return "r:" + common.enc(str(v))
    if isinstance(v, str):
        return "s:" + common.enc(v)
    return "?:" + common.enc(repr(v))


def ser_decl(d):
    attrs = d.get("attrs", {})
    return "D(%s;%s;%s;%s;%s;%s;%s)" % (
        ser_spec(d),
        ser_declarator(d["declarator"]) if "declarator" in d else "~",
        _lst(ser_decl(p) for p in d["params"]) if "params" in d else "~",
        _b(d.get("func_const")),
        _lst(ser_expr(e) for e in d.get("array", [])),
        _lst("%s=%s" % (common.enc(k), ser_value(attrs[k])) for k in sorted(attrs)),
        ser_value(d["init"]) if "init" in d else "~")


def _txt(f):
    try:
        return common.enc(f())
    except INTERNAL as e:
        return "!" + type(e).__name__


def last_line(e):
    return str(e).split("\n")[-1]


def nested_library():
    return extract_decl.nested_library()


def real_parse(text, lib=None):
    """Outcome line of the real code in the format of drv_decl's `parse`.
    Returns (line, ast or None)."""
    declast, todict = mods()
    try:
        a = declast.check_decl(text, namespace=lib if lib is not None else library())
    except RuntimeError as e:          # incl. NotImplementedError
        return "reject " + common.enc(last_line(e)), None
    except SystemExit as e:
        return "reject " + common.enc(str(e)), None
    except Exception as e:  # noqa
        return "crash " + type(e).__name__, None
    if not isinstance(a, declast.Declaration):
        return "unmodelled " + type(a).__name__, a
    return ast_line(a), a


def ast_line(a):
    """a declast.Declaration in the format of drv_decl's `parse` / `rewrite`"""
    declast, todict = mods()
    try:
        d = todict.to_dict(a)
    except Exception as e:  # noqa
        return "crash todict:" + type(e).__name__
    try:
        sd = ser_decl(d)
    except Exception as e:  # noqa  (e.g. a name that is None: the parser built a malformed node)
        return "crash structure:" + type(e).__name__
    return "ok %s %s %s %s %s %s" % (sd, _txt(a.gen_decl), _txt(a.gen_arg_as_cxx), _txt(a.gen_arg_as_c),
                                    _txt(a.as_cast), _txt(lambda: str(a)))


def grammar_coverage(asts):
    """Distribution of the accepted declarations over the grammar (all nesting levels): declarator depth,
    pointer chain, specifier multisets, attribute kinds, parameter counts, arrays, template arguments."""
    cov = {"declarations": 0, "declarator_depth": {}, "pointer_chain": {}, "specifier_multisets": {}, "attribute_kinds": {},
           "param_count": {}, "array_dims": {}, "param_nesting": {}, "template_args": 0, "cv": {}, "storage": 0, "default_value": 0}

    def bump(d, k):
        d[str(k)] = d.get(str(k), 0) + 1

    def walk(a, level):
        cov["declarations"] += 1
        depth, chain, dd = 0, "", a.declarator
        if dd is None:
            bump(cov["declarator_depth"], "none")
        else:
            while dd is not None:
                chain += "".join(p.ptr + ("c" if p.const else "") + ("v" if p.volatile else "") for p in dd.pointer)
                if dd.func is not None:
                    depth += 1
                    chain += "("
                dd = dd.func
            bump(cov["declarator_depth"], depth)
        bump(cov["pointer_chain"], chain or "-")
        bump(cov["specifier_multisets"], " ".join(sorted(a.specifier)))
        bump(cov["cv"], ("c" if a.const else "") + ("v" if a.volatile else "") or "-")
        cov["storage"] += 1 if a.storage else 0
        cov["default_value"] += 1 if a.init is not None else 0
        cov["template_args"] += 1 if a.template_arguments else 0
        bump(cov["array_dims"], len(a.array))
        bump(cov["param_nesting"], level)
        for k, v in a.attrs.items():
            if v is None:
                continue
            kind = "flag" if v is True else type(v).__name__
            bump(cov["attribute_kinds"], kind)
        if a.params is not None:
            bump(cov["param_count"], len(a.params))
            for p in a.params:
                walk(p, level + 1)

    for a in asts:
        if a is not None and hasattr(a, "specifier"):
            walk(a, 0)
    top = sorted(cov["specifier_multisets"].items(), key=lambda kv: -kv[1])
    cov["specifier_multisets_distinct"] = len(top)
    cov["specifier_multisets"] = dict(top[:40])
    chains = sorted(cov["pointer_chain"].items(), key=lambda kv: -kv[1])
    cov["pointer_chain_distinct"] = len(chains)
    cov["pointer_chain"] = dict(chains[:30])
    return cov


def outcome_class(line):
    return line.split(" ", 1)[0] if not line.startswith("crash") else line


# ------------------------------------------------------------------ generators
BASE_TYPES = [
    "void", "bool", "char", "short", "int", "long", "float", "double", "long long", "unsigned", "unsigned int",
    "unsigned long", "unsigned short", "unsigned long long", "short int", "long int", "long long int",
    "unsigned short int", "unsigned long int", "unsigned long long int", "signed char", "unsigned char",
    "long double", "float complex", "double complex", "complex double", "complex float",
    "size_t", "int8_t", "int32_t", "uint64_t", "MPI_Comm", "std::string", "string", "std::vector<int>",
    "std::vector<double>", "vector<int>", "std::vector<std::string>", "std::vector<const int>",
    # not known to Shroud: must be rejected with a diagnostic
    "int long", "signed", "signed int", "long unsigned", "char unsigned", "Foo", "std::foo", "std",
    "std::vector", "std::vector<>", "std::vector<int,int>", "size_t::x", "std::string::npos", "int int",
]
NAMES = ["x", "f", "n", "arg1", "name", "ptr", "cb", "value", "len", "size_t", "string", "in"]
ATTR_NAMES = ["intent", "dimension", "value", "len", "implied", "deref", "owner", "rank", "allocatable", "a", "b_1",
              "hidden", "pure", "template", "_x"]
ATTR_VALS = ["in", "out", "inout", "n", "10", "n+1", "size(x)", "len(a,b)", "(n)", "n,m", "2*(n+1)", "..", "\"s\"", "",
             "1 2", "a b", "-1", "1.5e3", ":", "x::y", "*", "&", "[1]"]
EXPRS = ["3", "n", "n+1", "2*n", "(n)", "N*(M+1)", "-1", "size(x)", "f()", "f(a,b)", "1.5", "a/b-c", "+n", "n+", "", "(", "a b"]
INITS = ["0", "1", "10", "1.5", "0.0", "1e3", "\"abc\"", "'c'", "true", "nullptr", "NULL", "-1", "", "(1)", "{", "n+1"]
LEX = ["int", "long", "unsigned", "char", "void", "double", "const", "volatile", "static", "extern", "typedef", "*", "&",
       "(", ")", "[", "]", "x", "f", "n", "size_t", "std", "string", "vector", "::", "<", ">", ",", ";", "=", "+", "-",
       "/", "1", "2.5", "\"s\"", "'c'", "...", "~", "{", "}", ":", "class", "struct", "enum", "namespace", "template",
       "typename", "@", "intent", "in", "dimension", "signed", "short", "float", "bool", "complex", "public", "auto",
       "register", "#", "$", "?", ".", "\\", "|", "!", "%", "^", "0x1F", "1.", ".5", "1e5", "private", "protected",
       "MPI_Comm", "int8_t", "\"", "'"]


class Gen:
    """Grammar-directed generator of declaration token lists (lexeme strings)."""

    def __init__(self, r, maxdepth):
        self.r = r
        self.maxdepth = maxdepth
        self.stats = {}

    def hit(self, k):
        self.stats[k] = self.stats.get(k, 0) + 1

    def cv(self, p=0.25):
        r = self.r
        out = []
        if r.random() < p:
            out.append("const")
        if r.random() < p / 2:
            out.append("volatile")
        if out:
            self.hit("cv")
        r.shuffle(out)
        return out

    def specifiers(self, valid_only=False):
        r = self.r
        base = r.choice(BASE_TYPES[:40] if valid_only else BASE_TYPES)
        toks = [v for _, v in raw_tokens(base)]
        if " " in base and "::" not in base and r.random() < 0.15:
            r.shuffle(toks)
            self.hit("spec-permuted")
        pre = self.cv()
        if r.random() < 0.1:
            pre.append(r.choice(["static", "extern", "typedef", "register", "auto"]))
            self.hit("storage")
        post = self.cv(0.1)
        r.shuffle(pre)
        self.hit("spec:" + base)
        return pre + toks + post

    def pointers(self):
        r = self.r
        out = []
        n = r.choice([0, 0, 0, 1, 1, 1, 2, 2, 3])
        for _ in range(n):
            out.append("&" if r.random() < 0.25 else "*")
            out += self.cv(0.3)
        if n:
            self.hit("ptr%d" % n)
        return out

    def declarator(self, depth, want_name=True):
        r = self.r
        out = self.pointers()
        k = r.random()
        if k < 0.12 and depth < self.maxdepth:
            self.hit("paren-declarator")
            out += ["("] + self.declarator(depth + 1, want_name) + [")"]
        elif want_name or k < 0.6:
            out.append(r.choice(NAMES[:9] if r.random() < 0.9 else NAMES))
        else:
            self.hit("abstract")
        return out

    def attrs(self):
        r = self.r
        out = []
        for _ in range(r.choice([0, 0, 0, 1, 1, 2, 3])):
            name = r.choice(ATTR_NAMES)
            k = r.random()
            out += ["+", name]
            if k < 0.5:
                out += ["("] + [v for _, v in raw_tokens(r.choice(ATTR_VALS))] + [")"]
                self.hit("attr-paren")
            elif k < 0.6:
                out += ["="] + [v for _, v in raw_tokens(r.choice(INITS))]
                self.hit("attr-eq")
            else:
                self.hit("attr-flag")
        return out

    def decl(self, depth=0, param=False):
        r = self.r
        out = self.specifiers()
        is_func = (not param and r.random() < 0.6) or (param and r.random() < 0.1)
        if is_func and r.random() < 0.15 and depth < self.maxdepth:
            # function pointer (*name)(params)
            self.hit("function-pointer")
            out += self.pointers() + ["(", "*"] + self.cv(0.1) + [r.choice(NAMES[:9])] + [")"]
        else:
            out += self.declarator(depth, want_name=not param or r.random() < 0.8)
        if is_func and depth < self.maxdepth:
            out.append("(")
            k = r.random()
            if k < 0.15:
                out.append("void")
                self.hit("params-void")
            elif k < 0.25:
                self.hit("params-empty")
            else:
                n = r.choice([1, 1, 2, 2, 3, 4])
                for i in range(n):
                    if i:
                        out.append(",")
                    out += self.decl(depth + 1, param=True)
                self.hit("params%d" % n)
                if r.random() < 0.03:
                    out += [",", "..."]
                    self.hit("varargs")
            out.append(")")
            if r.random() < 0.1:
                out.append(r.choice(["const", "const", "volatile"]))
                self.hit("func-cv")
        for _ in range(r.choice([0, 0, 0, 0, 0, 1, 1, 2])):
            out += ["["] + [v for _, v in raw_tokens(r.choice(EXPRS))] + ["]"]
            self.hit("array")
        out += self.attrs()
        if r.random() < (0.2 if param else 0.07):
            out += ["="] + [v for _, v in raw_tokens(r.choice(INITS))]
            self.hit("default")
        if depth == 0 and r.random() < 0.3:
            out.append(";")
            self.hit("semicolon")
        return out


CHARS = list("abcxyzefEF_AZ0123456789 .+-*/&()[]{}<>,;:=~\"'\t\n @#$\\|!%^?`") + ["\u00e9", "\u03bb", "\u2192", "\u2028", "\u00a0", "\r"]
NUMS = ["0", "12", "1.", ".5", "1.5", "1e5", "1.e5", "1.5e+3", "2E-7", "1e", "1e+", "1.2.3", "..", "...", "....", "1..2", ".e5", "5.e",
        "0x1F", "1_0", "00.0e00", "9e9e9"]


def spaced(r, toks):
    """join lexemes with random white space (none where the two lexemes cannot merge)"""
    out = []
    for i, t in enumerate(toks):
        if i:
            k = r.random()
            prev = toks[i - 1]
            glue_ok = not ((prev[-1:].isalnum() or prev[-1:] in "_.") and (t[:1].isalnum() or t[:1] in "_.")) \
                and not (prev[-1:] in ":." and t[:1] in ":.") and prev[-1:] not in "\"'" and t[:1] not in "\"'"
            if k < 0.25 and glue_ok:
                pass
            elif k < 0.8:
                out.append(" ")
            elif k < 0.9:
                out.append("  ")
            elif k < 0.95:
                out.append("\t")
            else:
                out.append(" \n ")
        out.append(t)
    return "".join(out)


def char_mutate(r, s):
    k = r.randrange(4)
    if not s:
        return r.choice(CHARS)
    i = r.randrange(len(s))
    if k == 0:
        return s[:i] + s[i + 1:]
    if k == 1:
        return s[:i] + r.choice(CHARS) + s[i + 1:]
    if k == 2:
        return s[:i] + r.choice(CHARS) + s[i:]
    return s[:i] + r.choice(NUMS) + s[i:]


def char_streams(r, n, maxdepth=3):
    """character-level inputs: valid declarations with random spacing, single-character mutations of them,
    random strings over the declaration alphabet (+ a few non-ASCII characters), number-shaped fragments"""
    g = Gen(r, maxdepth)
    out = []
    for i in range(n):
        k = i % 4
        if k == 0:
            out.append(("valid", spaced(r, g.decl())))
        elif k == 1:
            out.append(("mutated", char_mutate(r, spaced(r, g.decl()))))
        elif k == 2:
            out.append(("random", "".join(r.choice(CHARS) for _ in range(r.randrange(1, 14)))))
        else:
            out.append(("numeric", " ".join(r.choice(NUMS + ["x", "int", "+", "e5", "E", "::", ":"]) for _ in range(r.randrange(1, 5)))))
    out += [("numeric", x) for x in NUMS]
    return out


def real_lex(text):
    declast, _ = mods()
    try:
        toks = list(declast.tokenize(text))
    except RuntimeError as e:
        return "reject " + common.enc(last_line(e))
    except Exception as e:  # noqa
        return "crash " + type(e).__name__
    return "ok " + (" ".join("%s:%s" % (t.typ, common.enc(t.value)) for t in toks) if toks else "~")


def mutate(r, toks):
    """single-token mutation: delete / replace / insert / swap / duplicate"""
    toks = list(toks)
    k = r.randrange(5)
    if not toks:
        return [r.choice(LEX)], "insert"
    i = r.randrange(len(toks))
    if k == 0:
        del toks[i]
        return toks, "delete"
    if k == 1:
        toks[i] = r.choice(LEX)
        return toks, "replace"
    if k == 2:
        toks.insert(i, r.choice(LEX))
        return toks, "insert"
    if k == 3 and len(toks) > 1:
        j = min(i + 1, len(toks) - 1)
        toks[i], toks[j] = toks[j], toks[i]
        return toks, "swap"
    toks.insert(i, toks[i])
    return toks, "duplicate"


def random_tokens(r, maxlen=9):
    return [r.choice(LEX) for _ in range(r.randrange(1, maxlen + 1))]


def join(toks):
    return " ".join(toks)


def stable(toks):
    """a lexeme list survives join + real tokenisation unchanged"""
    return [v for _, v in raw_tokens(join(toks))] == list(toks)
