"""C03 The generated Python extension is call-equivalent to the wrapped library.

Proof: lean/ShroudVerif/Props/C03.lean over Model/PyDispatch.lean (keyword parser abstraction,
`SH_nargs` switch over default_calls, multi_dispatch, build_tuples).
Tie (D1): real Wrapp run in-process on generated numpy-free descriptions; PyArg format, kwlist,
`case n:` call lists, dispatch windows, PyDict_Size operand and the returned-item order are extracted
from the emitted C text and compared with the model's prediction from the declaration.
Tie (D2): compiled extensions driven with every positional/keyword split; library trace and exception
class compared with the model's `wrapper` / `multiDispatch`.
Oracle (implementation only): the same compiled extensions; every call must deliver exactly the supplied
values plus the library's own defaults, return result-then-out items, and fail only with TypeError/ValueError.
"""
import itertools
import json
import os
import re
import subprocess
import sys
import sysconfig

from tools import common, shroudrun, extract_pystmts, extract_pydescr, c03_helpers, c03_ext
from tools.gen import pygen

LEVEL = "proof"
MANIFEST = dict(
    category="proof",
    text="Lean 4 theorems, all for unbounded parameter lists / argument values / positional-keyword splits. "
         "(1) Dispatch model of a generated wrapper (Props/C03.lean): call_equiv_prefix_partial - for parameter lists with "
         "trailing defaults and every split the keyword parser accepts, if the supplied parameters are the first "
         "#positional+#keyword ones the library receives exactly the supplied values, out/implied arguments in place and "
         "its own defaults for the rest; `_partial` because the full statement is false on the current code "
         "(kw_skip_witness, call_equiv_full_is_false: f(i=1,k=3) passes an unparsed j and drops k; open finding "
         "kw-skip-default:). The gap is characterised exactly: call_equiv_iff_prefix - with a default-argument switch the "
         "call is delivered as specified IF AND ONLY IF the supplied set is such a prefix (every keyword-skipping call is "
         "wrong); call_equiv_single_default - full equivalence, no prefix hypothesis, for functions with at most one "
         "defaulted parameter; structCtor_call_equiv - full equivalence for every split for the constructor generated for a "
         "struct wrapped as a class (no switch, initialised variables). Errors: wrapper_never_systemError, wrapper_outcome, "
         "wrapper_badtype/too_many/unknown_kw_typeError, structCtor_never_systemError, dispatchFrom_sound (first in-window "
         "overload not raising TypeError answers), dispatch_no_match_typeError, dispatch_never_systemError, and the witnesses "
         "for the removed PyDict_Size(args). Return shape: buildTuples_eq, return_shape, return_none_iff, "
         "return_function_tuple/single, outItems_order. "
         "(2) Table theorems (Props/C03Tables.lean, decide +kernel over Gen/PyStmts.lean regenerated on every run from all "
         "103 py_statements entries for C and C++ and 27 typemaps): one address per parse unit, goto-fail/fail-label "
         "consistency, every acquired resource released on success and failure paths or handed on, object_created entries "
         "create the object, the returned object of an entry that passes a C++ local is built from that local, parse-unit / build-unit / PY_ctor arities, every unit has a value class. "
         "(3) List-helper model (Props/C03Lists.lean): every item converted in order, acceptance depends on the item classes "
         "only (every value, -1 / 0 / extremes included, converts unchanged), the first rejected item gives TypeError "
         "with its index and leaves nothing allocated, fill/broadcast, to_PyList round trip, char** items. "
         "(4) Implied arguments (Props/C03Implied.lean over Model/PyImplied.lean: expression type with constants, arguments, size / len / "
         "len_trim, + - * /, unary signs, parentheses; render = the C text ToImplied writes; evalC = what that text computes with "
         "int / Py_ssize_t / size_t operands, wrapping size_t arithmetic, undefined signed overflow and division by zero; "
         "assignTo = conversion to the parameter's type): implied_call_equiv_partial - for every parameter list, every set of "
         "implied expressions and every accepted prefix call the library receives, in the position of every implied parameter, "
         "the C value of its expression over the caller's own arguments (positional, else keyword by name) "
         "(implied_value_received position by position, callerEnv_head_positional / _keyword); evalC_signed_eq_math_partial / "
         "implied_int_receives_math_partial - without a size_t operand the C value is the value of the expression over the "
         "integers whenever it is defined; implied_unsigned_witness - false with a strlen operand ((len(s)-n)/2 gives -2 for -1; "
         "open finding). "
         "(5) Struct / class member descriptors (Props/C03Descr.lean over Model/PyDescr.lean and Gen/PyDescr.lean regenerated on "
         "every run from all py_descr_* entries, setter / getter lines as op codes, interpreter over member / remembered object / "
         "released objects): set_then_get_roundtrip - for every entry, every previous state and every convertible object the "
         "setter answers 0 and the getter then shows the value just stored; set_bad_member - a rejected object gives -1 and the "
         "member is what it was (scalar_set_bad_unchanged, arr_set_bad_unchanged) or NULL (pointer members: ptr_set_bad_clears, "
         "ptr_set_bad_unchanged_is_false; open finding); ptr_set_good (old object released exactly once); getter_total; "
         "descr_rows_canonical (decide over the table); lookup_in_table (lookup_stmts_tree answers a table entry or none, all "
         "tables / paths), lookup_selects (bool / char / std::string scalars have no entry, int** falls back to the scalar entry). "
         "Ties on every run: emitted `name = <expr>;` of generated implied expressions == render, value received by compiled "
         "C++ and C extensions == evalC + assignTo for generated calls in every positional / keyword split; statement entry Shroud "
         "selects for generated struct members == lookup, emitted getter / setter line counts == clause lengths, compiled "
         "assignment / read sequences == the interpreter; emitted format string, keyword list, case call lists (count and referenced parameter), switch / "
         "SH_nargs presence, PyDict_Size operand, dispatch windows and callee order, return shape, returned items, "
         "Py_BuildValue format and argument count, struct-constructor format / field assignments / initialised variables are "
         "extracted from the generated C of generated descriptions and compared with the model; compiled extensions are "
         "driven with every positional/keyword split and every call is compared with the model (library trace, exception "
         "class); the helper C text is compiled with counting allocators and compared with the helper model.",
    design="3 C03",
    note="Oracle (implementation only, no model): compiled C++ and C extensions of a fixed library, a grid library (every "
         "shape n parameters x first default position, in overload sets, as functions and methods) and seeded random "
         "libraries; kinds: scalars, bool, char*/std::string, enum, class and struct (as class) arguments and results, "
         "list-mode arrays with implied sizes, char**, std::vector in/out/result, multi-extent +dimension out arguments and "
         "pointer results, hidden intent(out) arguments (also sizing a +dimension result), const/non-const pointer overloads "
         "(int* and char*) so that a wrong C++ overload choice shows in the trace, list / vector elements -1, 0, INT_MIN/MAX, overloads distinguished by list/vector element type, defaulted "
         "and overloaded constructors, the generated struct constructor; every supplied subset x every split, wrongly typed / "
         "surplus / unknown / duplicate / missing arguments, bad list items at every index; expectations computed from the "
         "declaration (trace of received values incl. the library's defaults, result-then-out tuple, sizes from the dimension "
         "expressions); per-call allocation balance and reference-count balance of every list / struct / class argument "
         "after the result is dropped; fixed-size char members between other members assigned through constructor and "
         "setter with texts shorter than, equal to and longer than the member; sequences of state-changing method calls over constructed and "
         "library-owned objects (identity / aliasing). Trusted: Lean kernel; the abstraction of CPython's vgetargskeywords; "
         "the translator's pattern table (which template lines acquire / release / hand on), its C-API arity table and the "
         "value classes per format unit; that a list argument's post-parse conversion can be folded into the unit's accepted "
         "classes (the helper model decides which sequences a converter accepts); g++/gcc and CPython 3.12. Implied / member oracle: the received "
         "implied value must equal the expression over the caller's arguments computed in Python from the declaration (random "
         "expressions of depth <= 3 over size(list) / len / len_trim / int arguments / constants, lists of 0-6 items, strings of "
         "0-8 characters some with trailing blanks, ints in -9..9, all splits); struct members of every descriptor kind (int long "
         "short double float, char[6], int[3], double[2], char*, int* / double* +dimension) between other members: convertible "
         "values read back converted, rejected ones (wrong type, bad item, None) raise TypeError / ValueError / OverflowError - "
         "never SystemError or a crash - and the member reads as before. Additional trust: the pattern table of "
         "tools/extract_pydescr.py (template line -> op code); that the fill helper writes the member only on success and the "
         "converters' verdicts (PyV.good / bad) - both observed on the compiled code. List element types: the compiled "
         "helper tie runs get_from_object_<T>_list for short, unsigned short, unsigned int, long, unsigned long, (u)int8/16/32/64_t "
         "and float besides int / double (converted values modulo the element width), and compiled C++ / C extensions take "
         "list arguments of each of these element types with a wrongly typed item ('x', None, complex, 2.5) at every index; "
         "attribute values in generated declarations are written in lower, upper and capitalised spelling (+intent(OUT)). "
         "Not modelled: "
         "CPython reference counts, numpy conversions (py_descr_*_numpy stay in the path table without clauses), user functions "
         "inside implied expressions, implied parameters of a type other than int in the generated calls (assignTo models "
         "Py_ssize_t / size_t targets, not driven), charlen given as an identifier, deleting a member (del r.x), integers "
         "outside the C type's range (OverflowError), the extension-type object protocol (covered "
         "by the sequence oracle only). No generator exclusions remain.",
    technique="Lean 4 proof by induction over parameter / item lists + decide +kernel over regenerated tables + differential "
              "correspondence on emitted text, compiled extensions and compiled helpers + compiled-extension oracle",
)
MODULES = ["ShroudVerif.Props.C03", "ShroudVerif.Props.C03Tables", "ShroudVerif.Props.C03Lists", "ShroudVerif.Props.C03Implied",
           "ShroudVerif.Props.C03Descr"]
THEOREMS = {
    "ShroudVerif.Props.C03Implied": [
        "Shroud.PyImplied.refine_specArgs",
        "Shroud.PyImplied.implied_call_equiv_partial",
        "Shroud.PyImplied.specArgsI_length",
        "Shroud.PyImplied.implied_value_received",
        "Shroud.PyImplied.callerEnv_head_positional",
        "Shroud.PyImplied.callerEnv_head_keyword",
        "Shroud.PyImplied.evalC_signed_eq_math_partial",
        "Shroud.PyImplied.assign_int_id",
        "Shroud.PyImplied.implied_int_receives_math_partial",
        "Shroud.PyImplied.implied_unsigned_witness",
    ],
    "ShroudVerif.Props.C03Descr": [
        "Shroud.PyDescr.scalar_set_good",
        "Shroud.PyDescr.scalar_set_bad_unchanged",
        "Shroud.PyDescr.arr_set_good",
        "Shroud.PyDescr.arr_set_bad_unchanged",
        "Shroud.PyDescr.ptr_set_good",
        "Shroud.PyDescr.ptr_set_bad_clears",
        "Shroud.PyDescr.ptr_set_bad_unchanged_is_false",
        "Shroud.PyDescr.descr_rows_canonical",
        "Shroud.PyDescr.getter_total",
        "Shroud.PyDescr.set_then_get_roundtrip",
        "Shroud.PyDescr.set_bad_member",
        "Shroud.PyDescr.lookup_in_table",
        "Shroud.PyDescr.lookup_selects",
    ],
    "ShroudVerif.Props.C03Lists": [
        "Shroud.PyList.getList_converts_in_order",
        "Shroud.PyList.getList_bad_item",
        "Shroud.PyList.getList_not_iterable",
        "Shroud.PyList.getList_total",
        "Shroud.PyList.getList_every_value_converts",
        "Shroud.PyList.getList_verdict_value_independent",
        "Shroud.PyList.fill_seq_in_order",
        "Shroud.PyList.fill_bad_item",
        "Shroud.PyList.fill_broadcast",
        "Shroud.PyList.toPyList_roundtrip",
        "Shroud.PyList.char_typeError_iff",
        "Shroud.PyList.charptr_bad_item",
        "Shroud.PyList.fillChar_within_member",
        "Shroud.PyList.fillChar_string",
        "Shroud.PyList.readCells_bounded",
        "Shroud.PyList.readCells_chars",
        "Shroud.PyList.fillChar_typeError_iff",
    ],
    "ShroudVerif.Props.C03Tables": [
        "Shroud.PyTables.stmts_one_address_per_unit",
        "Shroud.PyTables.stmts_goto_fail_consistent",
        "Shroud.PyTables.stmts_acquire_release",
        "Shroud.PyTables.stmts_created_has_object",
        "Shroud.PyTables.stmts_ctor_expr_uses_passed_var",
        "Shroud.PyTables.types_parse_unit_arity",
        "Shroud.PyTables.types_build_arity",
        "Shroud.PyTables.types_ctor_arity",
        "Shroud.PyTables.units_classified",
    ],
    "ShroudVerif.Props.C03": [
        "Shroud.PyDispatch.call_equiv_prefix_partial",
        "Shroud.PyDispatch.call_equiv_prefix_nokw_partial",
        "Shroud.PyDispatch.call_equiv_single_default",
        "Shroud.PyDispatch.call_equiv_iff_prefix",
        "Shroud.PyDispatch.kw_skip_witness",
        "Shroud.PyDispatch.call_equiv_full_is_false",
        "Shroud.PyDispatch.structCtor_call_equiv",
        "Shroud.PyDispatch.structCtor_never_systemError",
        "Shroud.PyDispatch.wrapper_never_systemError",
        "Shroud.PyDispatch.wrapper_outcome",
        "Shroud.PyDispatch.wrapper_badtype_typeError",
        "Shroud.PyDispatch.wrapper_too_many_typeError",
        "Shroud.PyDispatch.wrapper_unknown_kw_typeError",
        "Shroud.PyDispatch.pydict_size_args_systemError",
        "Shroud.PyDispatch.dispatchFrom_sound",
        "Shroud.PyDispatch.dispatch_no_match_typeError",
        "Shroud.PyDispatch.dispatch_never_systemError",
        "Shroud.PyDispatch.dispatch_pydict_size_args_systemError",
        "Shroud.PyDispatch.buildTuples_eq",
        "Shroud.PyDispatch.return_shape",
        "Shroud.PyDispatch.return_none_iff",
        "Shroud.PyDispatch.return_function_tuple",
        "Shroud.PyDispatch.return_function_single",
        "Shroud.PyDispatch.outItems_order",
    ]
}

TAG_INT, TAG_STR, TAG_FLOAT, TAG_BOOL, TAG_NONE, TAG_LIST, TAG_CLS0 = 0, 1, 2, 3, 4, 7, 10
INT_UNITS = set("bBhHiIlkLKn")
FLOAT_UNITS = set("fd")


# ====================================================================== running Shroud
class Recorder:
    """records every wrap_functions call of the real Wrapp (class, functions, overload map)"""

    def __init__(self):
        self.calls = []

    def __enter__(self):
        from shroud import wrapp
        self.wrapp = wrapp
        self.orig = wrapp.Wrapp.wrap_functions
        rec = self

        def patched(self_, cls, functions, fileinfo):
            rec.orig(self_, cls, functions, fileinfo)
            rec.calls.append((cls, list(functions), dict(self_.overloaded_methods)))

        wrapp.Wrapp.wrap_functions = patched
        return self

    def __exit__(self, *a):
        self.wrapp.Wrapp.wrap_functions = self.orig


def run_shroud(lib, d):
    """writes yaml/header/subject source into d, runs Shroud there.  Returns (recorder calls, {file: text})"""
    y = shroudrun.write_yaml(d, lib.name + ".yaml", lib.yaml())
    with open(os.path.join(d, lib.header_name()), "w") as f:
        f.write(lib.header())
    with open(os.path.join(d, "subject." + ("c" if lib.language == "c" else "cpp")), "w") as f:
        f.write(lib.subject_source())
    out = os.path.join(d, "out")
    os.makedirs(out, exist_ok=True)
    with Recorder() as rec:
        cfg, exc, stdout = shroudrun.run_inproc([y], out, path=[d])
    if exc is not None:
        raise RuntimeError("Shroud failed on generated description %s: %r\n%s" % (lib.name, exc, lib.yaml()))
    texts = {}
    for fn in sorted(os.listdir(out)):
        if fn.endswith((".c", ".cpp")) and fn.startswith("py"):
            texts[fn] = open(os.path.join(out, fn)).read()
    return rec.calls, texts, out


# ====================================================================== declaration -> model parameters
class Interner:
    def __init__(self):
        self.ids = {}

    def __call__(self, name):
        return self.ids.setdefault(name, len(self.ids) + 1)


def expected_unit(arg, options):
    """the format unit wrap_function will use for a Python-visible argument (same table lookups)"""
    tm = arg.typemap
    blk = arg_blk(arg, options)
    if blk is not None and blk.parse_format:
        return blk.parse_format, None
    if tm.PY_PyTypeObject:
        return tm.PY_format + "!", tm.PY_PyTypeObject
    if tm.PY_from_object:
        return tm.PY_format + "&", None
    return tm.PY_format, None


LIST_BIT = {"i": 1, "d": 2, "s": 4}


def list_tags(bit):
    """value tags of the sequences the converter with this element class accepts (tag = 100 + mask, the mask says
    which of the int / double / string element converters accept the sequence: computed with the helper model)"""
    return ".".join(str(100 + m) for m in range(8) if m & bit)


def conv_kind(arg, options):
    """element converter of a list-mode argument: i / d / s, or None when the argument is not converted from a sequence"""
    tm = arg.typemap
    intent = arg.metaattrs["intent"]
    if intent not in ("in", "inout") or arg.attrs["implied"]:
        return None
    if tm.base == "vector":
        targs = arg.template_arguments
        elem = targs[0].typemap if targs else None
        fmt = elem.PY_format if elem is not None else None
    elif tm.sgroup == "char" and arg.get_indirect_stmt() == "**":
        return "s"
    elif (arg.attrs["rank"] or arg.attrs["dimension"]) and tm.sgroup == "native" and options.PY_array_arg == "list":
        fmt = tm.PY_format
    else:
        return None
    if fmt in extract_pystmts.UNIT_CLASS:
        cls = extract_pystmts.UNIT_CLASS[fmt]
        return "d" if 2 in cls else "i"
    return None


def exact_tag(unit, typeobj, clsids):
    """the value tag an `O!` unit demands ('-' for every other unit: its value classes come from the
    regenerated table Gen.PyStmts.unitClasses)"""
    if unit.endswith("!"):
        if typeobj == "PyBool_Type":
            return str(TAG_BOOL)
        return str(clsids.setdefault(typeobj, TAG_CLS0 + len(clsids)))
    return "-"


def node_params(node, intern, clsids):
    """[(name, model-param-encoding)] for the parameters of a FunctionNode"""
    res = []
    for arg in node.ast.params:
        meta = arg.metaattrs
        intent = {"in": 0, "inout": 1, "out": 2}[meta["intent"]]
        implied = 1 if arg.attrs["implied"] else 0
        hidden = 1 if arg.attrs["hidden"] else 0
        unit, typeobj = expected_unit(arg, node.options)
        unit = unit or ""
        ck = conv_kind(arg, node.options)
        exact = list_tags(LIST_BIT[ck]) if ck else exact_tag(unit, typeobj, clsids)
        enc = "%d,%d,%d,%d,%d,%s,%s" % (
            intern(arg.name), intent, 1 if arg.init is not None else 0, implied, hidden,
            ".".join(str(ord(c)) for c in unit) or "-", exact)
        res.append((arg.name, enc))
    return res


def arg_blk(arg, options):
    """the statement block wrap_function selects for an argument (None for implied / function pointers)"""
    from shroud import wrapp
    tm = arg.typemap
    attrs, meta = arg.attrs, arg.metaattrs
    intent = meta["intent"]
    sgroup = tm.sgroup
    spointer = arg.get_indirect_stmt()
    deref = meta["deref"] or "pointer"
    if arg.is_function_pointer() or attrs["implied"]:
        return None
    if sgroup == "char":
        stmts = ["py", sgroup, spointer, intent] + (["charlen"] if attrs["charlen"] else [])
    elif tm.base == "struct":
        stmts = ["py", sgroup, spointer, intent, tm.PY_struct_as]
    elif tm.base == "vector":
        stmts = ["py", sgroup, intent, options.PY_array_arg]
    elif attrs["rank"] or attrs["dimension"]:
        stmts = ["py", sgroup, spointer, intent, deref, options.PY_array_arg]
    elif deref == "raw":
        stmts = ["py", sgroup, spointer, intent, deref]
    else:
        stmts = ["py", sgroup, spointer, intent]
    return wrapp.lookup_stmts(stmts)


def result_blk(node):
    from shroud import wrapp
    ast = node.ast
    tm = ast.typemap
    options = node.options
    sgroup = tm.sgroup
    if ast.is_ctor():
        return None
    if tm.base == "struct":
        stmts = ["py", sgroup, "result", options.PY_struct_arg]
    elif tm.base == "vector":
        stmts = ["py", sgroup, "result", options.PY_array_arg]
    elif sgroup == "native":
        spointer = ast.get_indirect_stmt()
        stmts = ["py", sgroup, spointer, "result"]
        if spointer != "scalar":
            deref = ast.metaattrs["deref"] or "pointer"
            stmts.append(deref)
            if deref != "scalar":
                stmts.append(options.PY_array_arg)
    else:
        stmts = ["py", sgroup, ast.get_indirect_stmt(), "result"]
    return wrapp.lookup_stmts(stmts)


def build_unit(tm, blk):
    """the Py_BuildValue unit intent_out uses"""
    if blk is not None and blk.object_created:
        return "N"
    return tm.PY_build_format or tm.PY_format or ""


def build_request(node, intern):
    """(result build unit, name=unit;...) for the model's prediction of PyBuild_format"""
    def codes(u):
        return ".".join(str(ord(c)) for c in u) or "-"
    ru = "-"
    if node.ast.get_subprogram() == "function" and not node.ast.is_ctor():
        ru = codes(build_unit(node.ast.typemap, result_blk(node)))
    um = []
    for arg in node.ast.params:
        if arg.metaattrs["intent"] in ("out", "inout"):
            um.append("%d=%s" % (intern(arg.name), codes(build_unit(arg.typemap, arg_blk(arg, node.options)))))
    return ru, ";".join(um) or "~"


def enc_params(params):
    return ";".join(e for _n, e in params) or "~"


def node_kind(node):
    if node.ast.is_ctor():
        return "ctor"
    return "function" if node.ast.get_subprogram() == "function" else "subroutine"


# ====================================================================== emitted text -> artefacts
FUNC_RE = re.compile(r"^static (?:PyObject \*|int)\n(PY_\w+)\(\n(.*?)\n\{\n(.*?)\n\}\n", re.M | re.S)


def split_functions(texts):
    bodies = {}
    for fn, text in texts.items():
        for m in FUNC_RE.finditer(text):
            bodies[m.group(1)] = m.group(3)
    return bodies


def balanced_args(text, start):
    """text[start] is just after '('; returns (list of top-level comma separated args, index after ')')"""
    depth, args, cur, i = 0, [], [], start
    while i < len(text):
        c = text[i]
        if c in "([{":
            depth += 1
        elif c in ")]}":
            if depth == 0:
                a = "".join(cur).strip()
                if a or args:
                    args.append(a)
                return args, i + 1
            depth -= 1
        if c == "," and depth == 0:
            args.append("".join(cur).strip())
            cur = []
        else:
            cur.append(c)
        i += 1
    raise ValueError("unbalanced call")


def find_call(seg, fname, ctor_cls=None):
    if ctor_cls:
        m = re.search(r"new\s+(?:\w+::)*" + re.escape(ctor_cls) + r"\(", seg)
    else:
        m = re.search(r"(?<![A-Za-z0-9_\"])" + re.escape(fname) + r"\(", seg)
    if not m:
        return None
    args, _ = balanced_args(seg, m.end())
    return [" ".join(a.split()) for a in args]


def refers(argtext, name):
    return re.search(r"(?<![A-Za-z0-9])(?:SH_|SHCXX_|SHPy_|SHTPy_|SHData_|SHValue_)?" + re.escape(name) + r"(?![A-Za-z0-9_])",
                     argtext) is not None


def extract_function(body, node, cname=None):
    """what the emitted wrapper says: format, kwlist, cases {n: [call args]}, switch, count operand, returned items"""
    fname = node.ast.name
    ctor_cls = cname if node.ast.is_ctor() else None
    ex = {}
    m = re.search(r'PyArg_ParseTupleAndKeywords\(\s*args,\s*kwds,\s*"([^"]*)"', body)
    if m:
        f = m.group(1)
        ex["fmt"], _, ex["fmt_fname"] = f.partition(":")
    else:
        ex["fmt"] = None
    m = re.search(r"SHT_kwlist\[\]\s*=\s*\{(.*?)\}", body, re.S)
    ex["kw"] = re.findall(r'"([^"]*)"', m.group(1)) if m else []
    ex["switch"] = "switch (SH_nargs)" in body
    ex["has_nargs"] = "SH_nargs +=" in body
    ex["count_operand"] = re.findall(r"PyDict_Size\((\w+)\)", body)
    cases = {}
    if ex["switch"]:
        sw = body[body.index("switch (SH_nargs)"):]
        parts = re.split(r"^\s*(case \d+:|default:)\s*$", sw, flags=re.M)
        # parts: [head, label, seg, label, seg, ...]
        order = []
        for i in range(1, len(parts) - 1, 2):
            lab, seg = parts[i], parts[i + 1]
            if lab.startswith("case"):
                n = int(lab[5:-1])
                order.append(n)
                cases[n] = find_call(seg, fname, ctor_cls)
        ex["case_order"] = order
    else:
        after = body[body.index("PyArg_ParseTupleAndKeywords"):] if "PyArg_ParseTupleAndKeywords" in body else body
        cases[None] = find_call(after, fname, ctor_cls)
    ex["cases"] = cases
    # returned object
    main = body.split("\nfail:")[0]
    names = [a.name for a in node.ast.params]

    def item_of(text):
        for n in names:
            if refers(text, n):
                return "o:" + n
        if "rv" in text or "Result" in text:
            return "r"
        return "?" + text

    if ctor_cls:
        ex["shape"], ex["build"] = "zero", None
    elif "Py_RETURN_NONE;" in main:
        ex["shape"], ex["build"] = "none", []
    else:
        rets = re.findall(r"return ([^;]+);", main)
        rets = [r_ for r_ in rets if r_.strip() not in ("nullptr", "NULL", "-1")]
        last = rets[-1].strip() if rets else ""
        m = re.match(r"\(PyObject \*\)\s*(\w+)$", last)
        if m:
            ex["shape"], ex["build"] = "single", [item_of(m.group(1))]
        else:
            mm = re.search(re.escape(last) + r'\s*=\s*Py_BuildValue\(\s*"([^"]*)",', main)
            if mm:
                args, _ = balanced_args(main, mm.end())
                items = []
                for a in args:
                    it = item_of(a)
                    if not items or items[-1] != it:
                        items.append(it)
                ex["shape"], ex["build"], ex["build_fmt"], ex["build_nargs"] = "tuple", items, mm.group(1), len(args)
            else:
                ex["shape"], ex["build"] = "?" + last, None
    return ex


def extract_dispatch(body):
    res = []
    for m in re.finditer(r"if \(SHT_nargs (?:== (\d+)|>= (\d+) && SHT_nargs <= (\d+))\) \{\s*\w+ = (PY_\w+)\(self, args, kwds\);", body):
        if m.group(1) is not None:
            lo = hi = int(m.group(1))
        else:
            lo, hi = int(m.group(2)), int(m.group(3))
        res.append((lo, hi, m.group(4)))
    return res, re.findall(r"PyDict_Size\((\w+)\)", body)


def parse_gen(line):
    d = dict(kv.split("=", 1) for kv in line.split(" "))
    return d


def dec_codes(s, sep="."):
    return "" if s == "-" else "".join(chr(int(x)) for x in s.split(sep))


# ====================================================================== tie D1: emitted text vs model
def tie_emitted(ctx, drv, lib, calls, texts, dis, info):
    """calls: Recorder output.  Fills info[(cls, name)] = list of (node, params) in overload order."""
    intern, clsids = Interner(), {}
    bodies = split_functions(texts)
    reqs, todo = [], []
    for cls, functions, overloaded in calls:
        cname = cls.name if cls is not None else None
        for node in functions:
            if not node.wrap.python or node.ast.is_dtor():
                continue
            if node._generated == "struct_as_class_ctor":
                params = node_params(node, intern, clsids)
                info.setdefault((cname, "__init__"), []).append((node, params))
                ctx.count(1)
                where = "%s:%s (struct constructor)" % (lib.name, node.declgen)
                body = split_functions(texts).get(node.fmtdict.PY_name_impl)
                if body is None:
                    dis.append({"where": where, "what": "no emitted function " + str(node.fmtdict.PY_name_impl)})
                    continue
                g = parse_gen(drv.run(["sgen " + enc_params(params)])[0])
                ex = extract_function(body, node, cname)
                rev_ = {v: k for k, v in intern.ids.items()}
                m_kw = [] if g["kw"] == "-" else [rev_[int(x)] for x in g["kw"].split(",")]
                if ex["fmt"] != dec_codes(g["fmt"]) or ex["kw"] != m_kw:
                    dis.append({"where": where, "what": "struct constructor format / kwlist", "emitted": [ex["fmt"], ex["kw"]],
                                "model": [dec_codes(g["fmt"]), m_kw]})
                if ex["switch"] or ex["has_nargs"]:
                    dis.append({"where": where, "what": "struct constructor has an argument-count switch"})
                assigned = re.findall(r"SH_obj->(\w+) = (\w+);", body)
                if assigned != [(n_, n_) for n_ in m_kw]:
                    dis.append({"where": where, "what": "field assignments", "emitted": assigned, "model": m_kw})
                inits = [n_ for n_ in m_kw if not re.search(r"\b%s = 0;" % re.escape(n_), body)]
                if inits:
                    dis.append({"where": where, "what": "field variables without an initial value", "emitted": inits})
                ctx.nontrivial("structctor:" + where)
                continue
            params = node_params(node, intern, clsids)
            key = (cname, "__init__" if node.ast.is_ctor() else node.ast.name)
            info.setdefault(key, []).append((node, params))
            reqs.append("gen %s %s %s %s" % ((node_kind(node), enc_params(params)) + build_request(node, intern)))
            todo.append((cname, node, params))
    model = drv.run(reqs)
    rev = {v: k for k, v in intern.ids.items()}
    for (cname, node, params), line in zip(todo, model):
        ctx.count(1)
        impl = node.fmtdict.PY_name_impl
        where = "%s:%s" % (lib.name, node.declgen)
        body = bodies.get(impl)
        if body is None:
            dis.append({"where": where, "what": "no emitted function " + str(impl)})
            continue
        g = parse_gen(line)
        ex = extract_function(body, node, cname)
        m_fmt = dec_codes(g["fmt"])
        m_kw = [] if g["kw"] == "-" else [rev[int(x)] for x in g["kw"].split(",")]
        m_cases = [tuple(map(int, c.split(":"))) for c in g["cases"].split(",")]
        nparams = len(params)
        if ex["fmt"] is None:
            if m_kw or m_fmt:
                dis.append({"where": where, "what": "model predicts format %r / kwlist %r, none emitted" % (m_fmt, m_kw)})
        else:
            if ex["fmt"] != m_fmt:
                dis.append({"where": where, "what": "format", "emitted": ex["fmt"], "model": m_fmt})
            if ex["kw"] != m_kw:
                dis.append({"where": where, "what": "kwlist", "emitted": ex["kw"], "model": m_kw})
            if ex["fmt_fname"] != node.ast.name and not node.ast.is_ctor():
                dis.append({"where": where, "what": "function name in format", "emitted": ex["fmt_fname"]})
        if ex["switch"] != (g["found"] == "1"):
            dis.append({"where": where, "what": "switch presence", "emitted": ex["switch"], "model": g["found"]})
        if ex["has_nargs"] != (g["hasdef"] == "1"):
            dis.append({"where": where, "what": "SH_nargs presence", "emitted": ex["has_nargs"], "model": g["hasdef"]})
        if ex["has_nargs"] and ex["count_operand"] != ["kwds"]:
            dis.append({"where": where, "what": "PyDict_Size operand", "emitted": ex["count_operand"], "model": ["kwds"]})
        names = [n for n, _e in params]
        if ex["switch"]:
            em = [(n, None if ex["cases"][n] is None else len(ex["cases"][n])) for n in ex["case_order"]]
            if em != [(n, nc) for n, nc in m_cases]:
                dis.append({"where": where, "what": "case list (npyargs, #call args)", "emitted": em, "model": m_cases})
            callsets = [ex["cases"][n] for n in ex["case_order"]]
            ctx.nontrivial("switch:" + where)
        else:
            c = ex["cases"][None]
            if c is None or len(c) != nparams or m_cases[-1][1] != nparams:
                dis.append({"where": where, "what": "call list length", "emitted": c, "model": m_cases[-1]})
            callsets = [c]
        for c in callsets:
            for i, a in enumerate(c or []):
                if i < len(names) and not refers(a, names[i]):
                    dis.append({"where": where, "what": "call argument %d does not pass parameter %s" % (i, names[i]),
                                "emitted": c})
                    break
        # returned object
        if ex["shape"] != g["shape"]:
            dis.append({"where": where, "what": "return shape", "emitted": ex["shape"], "model": g["shape"]})
        elif ex["build"] is not None:
            m_build = [] if g["build"] == "-" else ["r" if t == "r" else "o:" + rev[int(t[1:])] for t in g["build"].split(",")]
            if ex["build"] != m_build:
                dis.append({"where": where, "what": "returned items", "emitted": ex["build"], "model": m_build})
            if len(m_build) > 1:
                ctx.nontrivial("tuple:" + where)
                m_bfmt = dec_codes(g["bfmt"])
                if ex.get("build_fmt") != m_bfmt:
                    dis.append({"where": where, "what": "Py_BuildValue format", "emitted": ex.get("build_fmt"), "model": m_bfmt})
                if str(ex.get("build_nargs")) != g["bargs"]:
                    dis.append({"where": where, "what": "Py_BuildValue argument count", "emitted": ex.get("build_nargs"),
                                "model": g["bargs"]})
    # overload dispatch
    for cls, functions, overloaded in calls:
        cname = cls.name if cls is not None else None
        for mname, methods in overloaded.items():
            if len(methods) < 2:
                continue
            where = "%s:%s%s (dispatch)" % (lib.name, (cname + "::") if cname else "", mname)
            impls = [m.fmtdict.PY_name_impl for m in methods]
            found = None
            for bname, body in bodies.items():
                if "SHT_nargs" in body:
                    wins, operands = extract_dispatch(body)
                    if [w[2] for w in wins] == impls:
                        found = (wins, operands)
                        break
            ctx.count(1)
            if not found:
                dis.append({"where": where, "what": "no dispatch function calling %s in order" % impls})
                continue
            wins, operands = found
            mreq = ["gen %s %s" % (node_kind(m), enc_params(node_params(m, intern, clsids))) for m in methods]
            mw = [parse_gen(l)["window"] for l in drv.run(mreq)]
            ew = ["%d-%d" % (lo, hi) for lo, hi, _ in wins]
            if ew != mw:
                dis.append({"where": where, "what": "dispatch windows", "emitted": ew, "model": mw})
            if operands != ["kwds"]:
                dis.append({"where": where, "what": "PyDict_Size operand", "emitted": operands, "model": ["kwds"]})
            ctx.nontrivial("dispatch:" + where)
    return intern, clsids


# ====================================================================== compiled oracle
DRIVER = r'''
import ctypes, json, sys
d, modname, callsfile, outfile = sys.argv[1:5]
sys.path.insert(0, d)
M = __import__(modname)
L = ctypes.CDLL(M.__file__)
L.subj_trace.restype = ctypes.c_char_p
L.hd_outstanding.restype = ctypes.c_long
def dec(e):
    if e[0] == "cls": return getattr(M, e[1])(e[2])
    if e[0] == "pt": return M.Pt(e[1], e[2])
    if e[0] == "list": return [dec(x) for x in e[1]]
    if e[0] == "tuple": return tuple(dec(x) for x in e[1])
    if e[0] == "none": return None
    return e[1]
def enc(v):
    if v is None: return None
    if isinstance(v, bool): return {"b": v}
    if isinstance(v, int): return {"i": v}
    if isinstance(v, float): return {"f": v}
    if isinstance(v, str): return {"s": v}
    if isinstance(v, tuple): return {"t": [enc(x) for x in v]}
    if isinstance(v, list): return {"l": [enc(x) for x in v]}
    if type(v).__name__ == "Pt": return {"pt": [v.x, v.y]}
    if hasattr(v, "getflag"): return {"o": type(v).__name__, "flag": v.getflag()}
    return {"o": type(v).__name__}
def refs(objs):
    out_ = []
    for o in objs: out_.append(sys.getrefcount(o))
    return out_
def heap(pos, kw):
    out_ = []
    for o in pos + list((kw or {}).values()):
        if not isinstance(o, (int, float, str, bytes, type(None))): out_.append(o)
    return out_
calls = json.load(open(callsfile))
out = open(outfile, "a")
for c in calls:
    i = c["i"]
    tgt = c["target"]
    out.write(json.dumps({"i": i, "start": True}) + "\n"); out.flush()
    try:
        if tgt[0] == "func": fn = getattr(M, tgt[1])
        elif tgt[0] == "ctor": fn = getattr(M, tgt[1])
        elif tgt[0] == "static": fn = getattr(getattr(M, tgt[1]), tgt[2])
        else:
            obj = getattr(M, tgt[1])(tgt[2]); fn = getattr(obj, tgt[3])
        pos = [dec(e) for e in c["pos"]]
        kw = None if c["kw"] is None else {k: dec(e) for k, e in c["kw"].items()}
    except BaseException as e:
        out.write(json.dumps({"i": i, "r": "exc", "type": "setup:" + type(e).__name__,
                              "msg": "building the receiver/arguments failed: " + str(e)[:160], "trace": ""}) + "\n")
        out.flush()
        continue
    L.subj_reset()
    out0 = L.hd_outstanding()
    # objects whose reference count the wrapper can unbalance (scalars are immortal / cached by the interpreter)
    objs = heap(pos, kw)
    rc0 = refs(objs)
    r = None
    try:
        r = fn(*pos) if kw is None else fn(*pos, **kw)
        trace = L.subj_trace().decode("latin-1")
        res = {"i": i, "r": "ok", "value": enc(r)}
    except BaseException as e:
        trace = L.subj_trace().decode("latin-1")
        res = {"i": i, "r": "exc", "type": type(e).__name__, "msg": str(e)[:200]}
    r = None
    rc1 = refs(objs)
    res["refs"] = [a - b for a, b in zip(rc1, rc0)]
    res["trace"] = trace
    res["leak"] = L.hd_outstanding() - out0
    out.write(json.dumps(res) + "\n"); out.flush()
'''


COUNTER_SRC = """\
#include "hd_alloc.h"
#ifdef __cplusplus
extern "C" {
#endif
static long hd_count = 0;
void *hd_malloc(size_t n) { hd_count++; return malloc(n ? n : 1); }
void *hd_calloc(size_t a, size_t b) { hd_count++; return calloc(a ? a : 1, b ? b : 1); }
char *hd_strdup(const char *s) { hd_count++; return strdup(s); }
void hd_free(void *p) { if (p) hd_count--; free(p); }
long hd_outstanding(void) { return hd_count; }
#ifdef __cplusplus
}
#endif
"""


def compile_ext(lib, d, out):
    """the generated sources are compiled with counting malloc/calloc/strdup/free (hd_alloc.h), so that the
    driver can see an allocation the wrapper made for a call and did not release"""
    inc = sysconfig.get_paths()["include"]
    cxx = lib.language != "c"
    ext = ".cpp" if cxx else ".c"
    open(os.path.join(d, "hd_alloc.h"), "w").write(c03_helpers.ALLOC_H)
    open(os.path.join(d, "hd_count" + ext), "w").write(COUNTER_SRC)
    gen = [os.path.join(out, f) for f in sorted(os.listdir(out)) if f.endswith((".c", ".cpp"))]
    own = [os.path.join(d, "subject" + ext), os.path.join(d, "hd_count" + ext)]
    so = os.path.join(d, lib.name + ".so")
    base = (["g++", "-std=c++11"] if cxx else ["gcc", "-std=c99", "-D_POSIX_C_SOURCE=200809L"]) + \
        ["-fPIC", "-O0", "-w", "-I" + inc, "-I" + d, "-I" + out]
    log, objs = "", []
    for i, src in enumerate(gen + own):
        o = os.path.join(d, "o%d.o" % i)
        extra = ["-include", "hd_alloc.h"] if src in gen else ["-DHD_NO_REDEFINE"]
        p = subprocess.run(base + extra + ["-c", src, "-o", o], stdout=subprocess.PIPE, stderr=subprocess.STDOUT, text=True, timeout=600)
        log += p.stdout
        if p.returncode:
            return False, log[-3000:]
        objs.append(o)
    p = subprocess.run([base[0], "-shared"] + objs + ["-o", so], stdout=subprocess.PIPE, stderr=subprocess.STDOUT, text=True, timeout=600)
    return p.returncode == 0, (log + p.stdout)[-3000:]


def drive(d, lib, calls):
    """runs the calls in a fresh interpreter (restarting after a crash).  Returns {i: result}"""
    with open(os.path.join(d, "driver.py"), "w") as f:
        f.write(DRIVER)
    results = {}
    pending = list(calls)
    outfile = os.path.join(d, "results.jsonl")
    while pending:
        cf = os.path.join(d, "calls.json")
        json.dump(pending, open(cf, "w"))
        open(outfile, "w").close()
        p = subprocess.run([sys.executable, os.path.join(d, "driver.py"), d, lib.name, cf, outfile],
                           stdout=subprocess.PIPE, stderr=subprocess.PIPE, text=True, timeout=600)
        started = None
        for ln in open(outfile):
            r = json.loads(ln)
            if r.get("start"):
                started = r["i"]
            else:
                results[r["i"]] = r
                started = None
        if started is not None:
            results[started] = {"i": started, "r": "crash", "rc": p.returncode, "trace": "", "stderr": p.stderr[-300:]}
        elif p.returncode != 0 and not any(c["i"] in results for c in pending):
            raise RuntimeError("oracle driver failed: " + p.stderr[-1500:])
        pending = [c for c in pending if c["i"] not in results]
    return results


# ---------------------------------------------------------------- python values for parameter kinds
def good_value(p, idx, alt=0):
    b = p.base()
    if b in ("int", "long", "short", "size_t", "uint", "cintp"):
        return ["int", 3 + idx + 11 * alt]
    if b in ("double",):
        return ["float", 1.5 + idx + alt]
    if b == "float":
        return ["float", 0.25 + idx + alt]
    if b == "bool":
        return ["bool", (idx + alt) % 2 == 0]
    if b in ("cstr", "string"):
        return ["str", "s%d%s" % (idx, "x" * alt)]
    if b == "enum":
        return ["int", [5, 6, 0][(idx + alt) % 3]]
    if b in ("cls", "clsptr"):
        return ["cls", p.cls, 20 + idx + alt]
    if b in ("pt", "ptref"):
        return ["pt", 30 + idx + alt, 0.5 + idx]
    if b in ("ilist", "ilist_inout", "vec"):
        # -1 and 0 are the values C conversion functions also use to report an error
        return ["tuple" if alt else "list", [["int", -1], ["int", 3 + idx], ["int", 0], ["bool", True]][: 4 - (idx % 2)]]
    if b in ("dlist", "dvec"):
        return ["list", [["float", -1.0], ["float", 1.5 + idx], ["int", 0 if alt == 0 else -1]]]
    if b == "strlist":
        return ["list", [["str", "ab%d" % idx], ["str", "c" * (alt + 1)]]]
    raise AssertionError(p.kind)


def bad_value(p):
    b = p.base()
    if b in ("cstr", "string"):
        return ["int", 5]
    if b == "bool":
        return ["int", 1]
    if b in ("cls", "clsptr", "pt", "ptref"):
        return ["int", 5]
    if b in ("ilist", "ilist_inout", "vec", "dlist", "dvec"):
        return ["list", [["int", 1], ["str", "x"]]]
    if b == "strlist":
        return ["list", [["str", "a"], ["int", 3]]]
    if b in pygen.FLOATLIKE:
        return ["str", "x"]
    return ["str", "x"]


def py_accepts(p, v):
    """would a Python/C++ programmer call this value well typed for the parameter?"""
    b, t = p.base(), v[0]
    if b in pygen.INTLIKE or b == "cintp":
        return t in ("int", "bool")
    if b in pygen.FLOATLIKE:
        return t in ("int", "float", "bool")
    if b == "bool":
        return t == "bool"
    if b in ("cstr", "string"):
        return t == "str"
    if b in ("cls", "clsptr"):
        return t == "cls" and v[1] == p.cls
    if b in ("pt", "ptref"):
        return t == "pt"
    if b in pygen.LISTKINDS:
        if t not in ("list", "tuple"):
            return False
        elem = pygen.ELEM[b]
        ok = {"int": ("int", "bool"), "double": ("int", "float", "bool"), "cstr": ("str",)}[elem]
        return all(x[0] in ok for x in v[1])
    return False


def raw(v):
    if v[0] == "cls":
        return v[2]
    if v[0] == "pt":
        return (v[1], v[2])
    if v[0] in ("list", "tuple"):
        return [raw(x) for x in v[1]]
    return v[1]


def matches(f, pos, kw):
    """the call is a valid call of overload f: returns {visible index: value} or None"""
    vis = f.vis
    kwd = kw or {}
    if len(pos) + len(kwd) > len(vis):
        return None
    S = {}
    for i, v in enumerate(pos):
        S[i] = v
    names = [p.name for p in vis]
    for k, v in kwd.items():
        if k not in names[len(pos):]:
            return None
        S[names.index(k)] = v
    for i, p in enumerate(vis):
        if i not in S and p.default is None:
            return None
        if i in S and not py_accepts(p, S[i]):
            return None
    return S


def enc_expected(v):
    if v is None:
        return None
    if isinstance(v, bool):
        return {"b": v}
    if isinstance(v, int):
        return {"i": v}
    if isinstance(v, float):
        return {"f": v}
    if isinstance(v, str):
        return {"s": v}
    if isinstance(v, list):
        return {"l": [enc_expected(x) for x in v]}
    if isinstance(v, tuple):
        return {"pt": [v[0], v[1]]}
    raise AssertionError(v)


def expectation(f, S, flag):
    """(trace, encoded return value) the library contract prescribes for overload f with supplied S"""
    toks = []
    rets = []
    if f.is_struct:
        vals = [raw(S[i]) if i in S else p.default for i, p in enumerate(f.vis)]
        return "", {"pt": [int(vals[0]), float(vals[1])]}
    if f.name == "getflag" and f.cls:
        rets.append({"i": flag})
    elif f.name == "addflag" and f.cls:
        rets.append({"i": flag + int(raw(S[0]))})
    elif f.result in ("clsptr_res", "clsref_res"):
        rets.append({"o": f.rescls, "flag": pygen.RESULT_VALUE[f.result]})
    elif not f.ctor and f.result != "void":
        rets.append(enc_expected(pygen.RESULT_VALUE.get(f.result)) if f.result != "idim_res" else None)
    if f.result == "idim_res":
        rets.pop()
    vi = 0
    byname = {}
    env = {}
    for idx, p in enumerate(f.params):          # values of the scalar arguments, for +dimension expressions
        if p.kind == "int_hidden":
            env[p.name] = pygen.out_value(p, idx)
        if p.visible:
            v = raw(S[vi]) if vi in S else p.default
            if p.base() in pygen.INTLIKE:
                env[p.name] = int(v)
            vi += 1
    if f.result == "idim_res":
        rets.append(enc_expected([200 + i for i in range(pygen.dim_total(f.resdims, env))]))
    vi = 0
    for idx, p in enumerate(f.params):
        if p.kind == "implied":
            toks.append(pygen.trace_value("implied", len(byname[p.of])))
        elif p.visible:
            v = raw(S[vi]) if vi in S else p.default
            byname[p.name] = v
            toks.append(pygen.trace_value(p.kind, v))
            if p.kind == "clsptr":
                rets.append({"o": p.cls, "flag": v})       # the same Python object comes back
            elif p.intent == "inout":
                rets.append(enc_expected(pygen.out_value(p, idx, raw(S[vi]))))
            vi += 1
        elif p.kind != "int_hidden":          # a hidden argument is passed to the library but never returned
            rets.append(enc_expected(pygen.out_value(p, idx, env=env)))
    head = f.label
    if f.cls and not f.static and not f.ctor:
        head += "[%d]" % flag
    trace = "%s(%s);" % (head, ",".join(toks))
    if f.ctor:
        fl = -1
        for i, p in enumerate(f.vis):
            if p.name == "flag":
                fl = raw(S[i]) if i in S else p.default
        value = {"o": f.cls, "flag": int(fl)}
    elif not rets:
        value = None
    elif len(rets) == 1:
        value = rets[0]
    else:
        value = {"t": rets}
    return trace, value


def same_value(a, b):
    if isinstance(a, dict) and isinstance(b, dict):
        for k in ("t", "l"):
            if k in a and k in b:
                return len(a[k]) == len(b[k]) and all(same_value(x, y) for x, y in zip(a[k], b[k]))
        if "pt" in a and "pt" in b:
            return a["pt"][0] == b["pt"][0] and abs(a["pt"][1] - b["pt"][1]) < 1e-9
        if "f" in a and "f" in b:
            return abs(a["f"] - b["f"]) < 1e-9
    return a == b


def gen_calls(group, thorough, r):
    """calls for one overload group: every positional/keyword split of every supplied subset, plus
    wrongly typed, surplus, unknown-keyword, duplicate and missing-argument calls."""
    calls = []
    seen = set()

    def add(pos, kw, why):
        key = json.dumps([pos, kw], sort_keys=True)
        if key not in seen:
            seen.add(key)
            calls.append({"pos": pos, "kw": kw, "why": why})

    for f in group:
        vis = f.vis
        n = len(vis)
        vals = [good_value(p, i) for i, p in enumerate(vis)]
        for mask in range(1 << n):
            S = [i for i in range(n) if mask >> i & 1]
            pmax = 0
            while pmax in S:
                pmax += 1
            for npos in range(pmax + 1):
                pos = [vals[i] for i in range(npos)]
                kwi = [i for i in S if i >= npos]
                if not kwi:
                    add(pos, None, "split")
                    add(pos, {}, "split-emptydict")
                else:
                    add(pos, {vis[i].name: vals[i] for i in kwi}, "split")
                    if thorough and len(kwi) > 1:
                        add(pos, {vis[i].name: vals[i] for i in reversed(kwi)}, "split-reversed")
        # wrongly typed, one parameter at a time, all-positional and all-keyword
        for i, p in enumerate(vis):
            bad = list(vals)
            bad[i] = bad_value(p)
            add(bad, None, "badtype")
            add([], {vis[j].name: bad[j] for j in range(n)}, "badtype-kw")
            if p.base() in pygen.INTLIKE:
                fl = list(vals)
                fl[i] = ["float", 1.5]
                add(fl, None, "float-for-int")
                bo = list(vals)
                bo[i] = ["bool", True]
                add(bo, None, "bool-for-int")
            nn = list(vals)
            nn[i] = ["none"]
            add(nn, None, "none")
            if p.base() in pygen.LISTKINDS:
                items = vals[i][1]
                for variant, why in ((["tuple", items], "tuple"), (["list", []], "empty-list"), (["int", 5], "not-iterable"),
                                     (["list", items + items], "longer")):
                    lv = list(vals)
                    lv[i] = variant
                    add(lv, None, why)
                    add([], {vis[j].name: lv[j] for j in range(n)}, why + "-kw")
                badit = bad_value(p)[1][1]
                for k in range(len(items) + 1):
                    lv = list(vals)
                    lv[i] = ["list", items[:k] + [badit] + items[k:]]
                    add(lv, None, "bad-item-%d" % k)
        add(vals + [["int", 1]], None, "surplus")
        add(vals, {"zz_unknown": ["int", 1]}, "unknown-kw-surplus")
        if n:
            add(vals[:-1], {"zz_unknown": ["int", 1]}, "unknown-kw")
            add(vals, {vis[0].name: vals[0]}, "duplicate")
            add(vals[:1], {vis[0].name: vals[0]}, "duplicate-short")
    return calls


def call_target(lib, key, flag):
    cname, name = key
    if cname is None:
        return ["func", name]
    if name == "__init__":
        return ["ctor", cname]
    f = lib.groups()[key][0]
    if f.static:
        return ["static", cname, name]
    return ["method", cname, flag, name]


def call_sig(c):
    def s(v):
        return {"cls": lambda: "%s(%s)" % (v[1], v[2]), "none": lambda: "None", "pt": lambda: "Pt(%s, %s)" % (v[1], v[2]),
                "list": lambda: "[%s]" % ", ".join(s(x) for x in v[1]),
                "tuple": lambda: "(%s,)" % ", ".join(s(x) for x in v[1])}.get(v[0], lambda: repr(v[1]))()
    a = [s(v) for v in c["pos"]]
    if c["kw"] is not None:
        a += ["%s=%s" % (k, s(v)) for k, v in c["kw"].items()] or ["**{}"]
    return "(%s)" % ", ".join(a)


def model_tag(v, clsids_by_name):
    t = v[0]
    if t == "int":
        return TAG_INT
    if t == "str":
        return TAG_STR
    if t == "float":
        return TAG_FLOAT
    if t == "bool":
        return TAG_BOOL
    if t == "none":
        return TAG_NONE
    if t in ("list", "tuple"):
        return 100 + LISTMASK.get(json.dumps(v), 0)
    if t == "pt":
        return clsids_by_name.get("Pt", TAG_CLS0 + 7)
    return clsids_by_name.get(v[1], TAG_CLS0 + 7)


ACCEPTS = {"i": [0, 3], "d": [0, 2, 3]}       # replaced by the regenerated unit classes in run()
LISTMASK = {}


def to_spec(v):
    if v[0] in ("list", "tuple"):
        return (v[0], [to_spec(x) for x in v[1]])
    if v[0] in ("cls", "pt", "none"):
        return ("none", None)
    return (v[0], v[1])


def check_library(ctx, drv, lib, thorough, r, dis_gen, dis_call, extra_calls=()):
    d = common.scratch()
    try:
        replay_base = {"yaml": lib.yaml(), "header": lib.header(), "subject": lib.subject_source(), "language": lib.language,
                       "library": lib.name}
        try:
            calls_rec, texts, out = run_shroud(lib, d)
        except RuntimeError as e:
            ctx.fail("generate:" + lib.name, "Shroud fails on a valid description: " + str(e)[:600], replay_base)
            return
        info = {}
        intern, clsids = tie_emitted(ctx, drv, lib, calls_rec, texts, dis_gen, info)
        ok, log = compile_ext(lib, d, out)
        if not ok:
            ctx.fail("compile:" + lib.name, "generated Python extension does not compile: " + log[-600:], replay_base)
            return
        clsids_by_name = {}
        for typeobj, tid in clsids.items():
            m = re.match(r"PY_(\w+)_Type$", typeobj)
            if m:
                clsids_by_name[m.group(1)] = tid
        groups = lib.groups()
        allcalls = []
        for key, group in groups.items():
            if len(group) > 1:
                hk = "set of %d: " % len(group) + " | ".join(sorted((f.vis[0].kind if f.vis else "()") for f in group))
                DIST["heads"][hk] = DIST["heads"].get(hk, 0) + 1
            for f in group:
                for dims in [p.dims for p in f.params if p.dims] + ([f.resdims] if f.resdims else []):
                    dk = "rank %d: %s" % (len(dims), ",".join(re.sub(r"[a-z]+", "v", e) for e in dims))
                    DIST["dims"][dk] = DIST["dims"].get(dk, 0) + 1
                for p in f.params:
                    DIST["kinds"][p.kind] = DIST["kinds"].get(p.kind, 0) + 1
                rk = "result:" + str(f.result if not f.ctor else "ctor")
                DIST["kinds"][rk] = DIST["kinds"].get(rk, 0) + 1
                n, nd, first = pygen.shape_of(f)
                k = "set=%d %s n=%d ndef=%d first=%d" % (len(group), "method" if f.cls and not f.ctor else ("ctor" if f.ctor else "func"),
                                                          n, nd, first)
                DIST["overloads"][k] = DIST["overloads"].get(k, 0) + 1
            cs = gen_calls(group, thorough, r)
            cs += [c for k, c in extra_calls if k == key]
            for c in cs:
                c = dict(c)
                c["key"] = key
                c["flag"] = 50 + len(allcalls) % 7
                c["target"] = call_target(lib, key, c["flag"])
                c["i"] = len(allcalls)
                allcalls.append(c)
        try:
            results = drive(d, lib, [{"i": c["i"], "target": c["target"], "pos": c["pos"], "kw": c["kw"]} for c in allcalls])
        except RuntimeError as e:
            ctx.fail("import:" + lib.name, "compiled extension cannot be imported / driven: " + str(e)[-600:], replay_base)
            return
        # ---------------- which element converters accept each list value (helper model)
        listvals = {}
        for c in allcalls:
            for v in list(c["pos"]) + list((c["kw"] or {}).values()):
                if v[0] in ("list", "tuple"):
                    listvals.setdefault(json.dumps(v), v)
        lkeys = list(listvals)
        lreqs = []
        for k in lkeys:
            ms, _items = c03_helpers.model_obj(to_spec(listvals[k]))
            lreqs += ["getlist %s %s" % (".".join(map(str, ACCEPTS["i"])), ms),
                      "getlist %s %s" % (".".join(map(str, ACCEPTS["d"])), ms), "charptr " + ms]
        lres = drv.run(lreqs) if (drv.available() and lreqs) else []
        LISTMASK.clear()
        for j, k in enumerate(lkeys):
            m = 0
            for b in range(3):
                if lres and lres[3 * j + b].startswith("ok"):
                    m |= 1 << b
            LISTMASK[k] = m
        # ---------------- model requests (tie D2)
        reqs = []
        for c in allcalls:
            nodes = info.get(c["key"])
            vals = list(c["pos"]) + list((c["kw"] or {}).values())
            ids = {id(v): j for j, v in enumerate(vals)}
            pos = ",".join("%d.%d" % (model_tag(v, clsids_by_name), ids[id(v)]) for v in c["pos"]) or "~"
            if c["kw"] is None:
                kw = "none"
            elif not c["kw"]:
                kw = "~"
            else:
                kw = ",".join("%d=%d.%d" % (intern(k), model_tag(v, clsids_by_name), ids[id(v)]) for k, v in c["kw"].items())
            c["vals"] = vals
            if nodes is None:
                reqs.append("bad")
            elif len(nodes) == 1 and nodes[0][0]._generated == "struct_as_class_ctor":
                reqs.append("scall %s %s %s" % (enc_params(nodes[0][1]), pos, kw))
            elif len(nodes) == 1:
                reqs.append("call kwds %s %s %s" % (enc_params(nodes[0][1]), pos, kw))
            else:
                reqs.append("disp kwds %s %s %s" % ("|".join(enc_params(p) for _n, p in nodes), pos, kw))
        model = drv.run(reqs) if drv.available() else [None] * len(reqs)
        # ---------------- judge
        for c, mline in zip(allcalls, model):
            ctx.count(1)
            res = results[c["i"]]
            group = groups[c["key"]]
            sig = "%s%s" % (".".join(x for x in c["key"] if x), call_sig(c))
            replay = dict(replay_base, call={"target": c["target"], "pos": c["pos"], "kw": c["kw"]}, got=res)
            # -- oracle: what the property prescribes, from the declaration alone
            E, S = None, None
            for f in group:
                S = matches(f, c["pos"], c["kw"])
                if S is not None:
                    E = f
                    break
            if any(res.get("refs") or []):
                ctx.fail("refcount:%s:%s" % (lib.name, sig), "%s: after the call and after its result is dropped the reference counts "
                         "of the arguments changed by %s" % (sig, res["refs"]), replay)
            if res.get("leak"):
                ctx.fail("leak:%s:%s" % (lib.name, sig), "%s: the wrapper left %d allocation(s) behind" % (sig, res["leak"]), replay)
            if res["r"] == "crash":
                ctx.fail("crash:%s:%s" % (lib.name, sig), "interpreter crashed (rc=%s) in %s" % (res.get("rc"), sig), replay)
                continue
            if E is not None:
                nS = len(S)
                prefix = all(i in S for i in range(nS))
                trace, value = expectation(E, S, c["flag"])
                okres = res["r"] == "ok" and res["trace"] == trace and same_value(res["value"], value)
                if not prefix:
                    ctx.nontrivial("kwskip:" + sig)
                if len(S) < len(E.vis) or c["kw"]:
                    ctx.nontrivial(lib.name + sig)
                if not okres:
                    got = res["trace"] if res["r"] == "ok" else "%s: %s" % (res.get("type"), res.get("msg"))
                    what = "%s: library must see %s and Python %s; got %s / %s" % (
                        sig, trace, json.dumps(value), got, json.dumps(res.get("value")))
                    if not prefix and res["r"] == "ok":
                        ctx.fail("kw-skip-default:" + E.decl(lib.language), what, replay)
                    elif res["r"] == "exc" and res["type"] not in ("TypeError", "ValueError"):
                        ctx.fail("bad-exception:%s:%s" % (E.label, res["type"]), what, replay)
                    else:
                        ctx.fail("call-mismatch:%s:%s" % (lib.name, sig), what, replay)
            else:
                # no overload accepts this call: TypeError/ValueError and the library is not entered
                lib_trace = res["trace"]
                if res["r"] == "ok":
                    ctx.fail("accepted-invalid:%s:%s" % (lib.name, sig),
                             "%s (%s) matches no overload but was executed: %s" % (sig, c["why"], lib_trace), replay)
                elif res["type"] not in ("TypeError", "ValueError"):
                    ctx.fail("bad-exception:%s:%s" % (sig, res["type"]),
                             "%s (%s) raised %s: %s" % (sig, c["why"], res["type"], res["msg"]), replay)
                elif lib_trace:
                    ctx.fail("called-then-raised:%s:%s" % (lib.name, sig),
                             "%s raised %s after entering the library: %s" % (sig, res["type"], lib_trace), replay)
            # -- tie D2: model outcome vs compiled behaviour
            if mline is None or mline == "bad":
                continue
            nodes = info[c["key"]]
            if len(nodes) > 1:
                who, _, outcome = mline.partition(" ")
            else:
                who, outcome = "0", mline
            if outcome.startswith("exc "):
                if not (res["r"] == "exc" and res["type"] == outcome[4:]):
                    dis_call.append({"call": lib.name + ":" + sig, "model": mline, "impl": res})
                continue
            if res["r"] != "ok":
                dis_call.append({"call": lib.name + ":" + sig, "model": mline, "impl": res})
                continue
            f = group[int(who)]
            recv = [] if outcome[3:] == "-" else outcome[3:].split(",")
            if f.is_struct:
                got = (res["value"] or {}).get("pt")
                want = []
                for p, a in zip(f.params, recv):
                    want.append(p.default if a == "d" else raw(c["vals"][int(a.split(".")[1])]))
                if got is None or len(want) != 2 or int(want[0]) != got[0] or abs(float(want[1]) - got[1]) > 1e-9:
                    dis_call.append({"call": lib.name + ":" + sig, "model": mline, "impl": res, "why": "struct fields"})
                continue
            tr = res["trace"]
            m = re.search(re.escape(f.label) + r"(?:\[(-?\d+)\])?\((.*)\);$", tr)
            bad = None
            if not m or len(recv) != len(f.params):
                bad = "trace %r is not a call of %s with %d parameters" % (tr, f.label, len(recv))
            else:
                toks = m.group(2).split(",") if m.group(2) != "" else []
                ti = 0
                for p, a in zip(f.params, recv):
                    if p.kind == "implied":
                        if a != "i":
                            bad = "model says %s for implied parameter %s" % (a, p.name)
                        ti += 1
                        continue
                    if not p.visible:
                        if a != "o":
                            bad = "model says %s for out parameter %s" % (a, p.name)
                        continue
                    tok = toks[ti] if ti < len(toks) else None
                    ti += 1
                    if a == "g":
                        continue
                    if a == "d":
                        want = pygen.trace_value(p.kind, p.default) if p.default is not None else None
                    elif a.startswith("v"):
                        v = c["vals"][int(a.split(".")[1])]
                        want = pygen.trace_value(p.kind, raw(v)) if v[0] != "none" else None
                    else:
                        want = None
                    if want != tok:
                        bad = "parameter %s: model %s -> %r, library saw %r" % (p.name, a, want, tok)
                        break
            if bad:
                dis_call.append({"call": lib.name + ":" + sig, "model": mline, "impl": res, "why": bad})
        ctx.note("calls:" + lib.name, len(allcalls))
        if lib.name == "fixlib":
            sequence_oracle(ctx, lib, d, r, thorough)
    finally:
        common.rmtree(d)


class TextLib:
    """hand-written descriptions for the text-only tie: implied / hidden arguments, list-mode arrays and vectors"""

    def __init__(self, name, language, decls, options=None):
        self.name, self.language, self.decls, self.options = name, language, decls, options or {}

    def header_name(self):
        return self.name + (".h" if self.language == "c" else ".hpp")

    def yaml(self):
        import yaml
        opts = {"wrap_python": True, "wrap_c": False, "wrap_fortran": False, "wrap_lua": False}
        opts.update(self.options)
        return yaml.safe_dump({"library": self.name, "cxx_header": self.header_name(), "language": self.language,
                               "options": opts, "declarations": [{"decl": d} for d in self.decls]},
                              default_flow_style=False, sort_keys=False)

    def header(self):
        return "\n"

    def subject_source(self):
        return "\n"


TEXT_LIBS = [
    TextLib("implcxx", "c++", [
        "int isum(const int *arr +rank(1), int n +implied(size(arr)))",
        "void hid(int i, int *o +intent(out)+hidden)",
        "void ov(int i, int n +implied(i+1))",
        "void ov(double d, int *o +intent(out)+hidden, int k = 3)",
        "void vec(const std::vector<int> &v, std::vector<double> &w +intent(out))",
        "double dsum(double *arr +rank(1)+intent(inout), int n +implied(size(arr)), int scale = 2)",
        "int three(int *a +intent(out), int *b +intent(inout), int *c +intent(out), int d = 1, int e = 2)",
    ], {"PY_array_arg": "list"}),
    TextLib("implc", "c", [
        "int isum(const int *arr +rank(1), int n +implied(size(arr)))",
        "void hid(int i, int *o +intent(out)+hidden)",
        "double dsum(double *arr +rank(1)+intent(inout), int n +implied(size(arr)))",
        "void cout(char *s +intent(out)+charlen(20), const char *t)",
    ], {"PY_array_arg": "list"}),
]


DIST = {"overloads": {}, "arities": {}, "kinds": {}, "heads": {}, "dims": {}}


# ====================================================================== object identity / state sequences
SEQ_DRIVER = r'''
import ctypes, json, sys
d, modname, seqfile, outfile = sys.argv[1:5]
sys.path.insert(0, d)
M = __import__(modname)
L = ctypes.CDLL(M.__file__)
L.subj_trace.restype = ctypes.c_char_p
def enc(v):
    if v is None: return None
    if isinstance(v, bool): return {"b": v}
    if isinstance(v, int): return {"i": v}
    if isinstance(v, tuple): return {"t": [enc(x) for x in v]}
    if hasattr(v, "getflag"): return {"o": type(v).__name__, "flag": v.getflag()}
    return {"o": type(v).__name__}
out = []
for seq in json.load(open(seqfile)):
    env, res = {}, []
    for st in seq:
        def arg(a):
            return env[a[1]] if a[0] == "var" else a[1]
        L.subj_reset()
        try:
            if st["op"] == "new":
                r = env[st["var"]] = getattr(M, st["cls"])(*[arg(a) for a in st["args"]])
            elif st["op"] == "meth":
                r = getattr(env[st["var"]], st["name"])(*[arg(a) for a in st["args"]])
            elif st["op"] == "func":
                r = getattr(M, st["name"])(*[arg(a) for a in st["args"]])
                if st.get("out"): env[st["out"]] = r
            elif st["op"] == "del":
                r = None; del env[st["var"]]
            trace = L.subj_trace().decode("latin-1")
            res.append({"r": "ok", "value": enc(r), "trace": trace, "same": {a + "," + b: env[a] is env[b] for a in env for b in env if a < b}})
        except BaseException as e:
            res.append({"r": "exc", "type": type(e).__name__, "msg": str(e)[:200], "trace": L.subj_trace().decode("latin-1")})
    out.append(res)
json.dump(out, open(outfile, "w"))
'''


def gen_sequences(r, cls, nseq, length):
    """programs over a few Python variables: construct, mutate (setflag/addflag), read back (getflag), pass to the
    library (usecls), obtain the library's own objects (getobj/getref return the same C++ object every time)"""
    seqs = []
    for _ in range(nseq):
        seq, live = [], []
        for k in range(length):
            ops = ["new"] if not live else ["new", "add", "add", "set", "get", "use", "lib", "lib", "del"]
            op = r.choice(ops)
            if op == "new" and len(live) < 4:
                v = "v%d" % k
                seq.append({"op": "new", "var": v, "cls": cls, "args": [["int", r.randrange(1, 50)]]})
                live.append(v)
            elif op == "add":
                seq.append({"op": "meth", "var": r.choice(live), "name": "addflag", "args": [["int", r.randrange(1, 9)]]})
            elif op == "set":
                seq.append({"op": "meth", "var": r.choice(live), "name": "setflag", "args": [["int", r.randrange(100, 200)]]})
            elif op == "get":
                seq.append({"op": "meth", "var": r.choice(live), "name": "getflag", "args": []})
            elif op == "use":
                seq.append({"op": "func", "name": "usecls", "args": [["var", r.choice(live)], ["int", k]]})
            elif op == "lib" and len(live) < 5:
                v = "v%d" % k
                if r.random() < 0.5:
                    seq.append({"op": "func", "name": "getobj", "args": [], "out": v})
                else:
                    seq.append({"op": "func", "name": "getref", "args": [["int", k]], "out": v})
                live.append(v)
            elif op == "del" and len(live) > 1:
                v = r.choice(live)
                live.remove(v)
                seq.append({"op": "del", "var": v})
        for v in live:
            seq.append({"op": "meth", "var": v, "name": "getflag", "args": []})
        seqs.append(seq)
    return seqs


def sequence_oracle(ctx, lib, d, r, thorough):
    """Classes behave as Python types whose methods act on the underlying C++ object: every step's result and
    library trace is predicted by a simulation that keeps one flag per C++ object; two Python variables refer to
    the same C++ object only when the library returned the same pointer (getobj / getref)."""
    cls = "Cls0"
    seqs = gen_sequences(r, cls, 60 if thorough else 20, 12)
    sf, of = os.path.join(d, "seqs.json"), os.path.join(d, "seqres.json")
    json.dump(seqs, open(sf, "w"))
    open(os.path.join(d, "seqdriver.py"), "w").write(SEQ_DRIVER)
    p = subprocess.run([sys.executable, os.path.join(d, "seqdriver.py"), d, lib.name, sf, of], stdout=subprocess.PIPE,
                       stderr=subprocess.PIPE, text=True, timeout=600)
    replay_base = {"yaml": lib.yaml(), "header": lib.header(), "subject": lib.subject_source(), "language": lib.language,
                   "library": lib.name}
    if p.returncode != 0 or not os.path.exists(of):
        ctx.fail("crash:%s:sequence" % lib.name, "object sequences crashed the interpreter (rc=%s): %s" % (p.returncode, p.stderr[-300:]),
                 dict(replay_base, sequences=seqs[:3]))
        return
    results = json.load(open(of))
    statics = {"getobj": ["static:getobj", pygen.RESULT_VALUE["clsptr_res"]], "getref": ["static:getref", pygen.RESULT_VALUE["clsref_res"]]}
    flags = {statics["getobj"][0]: statics["getobj"][1], statics["getref"][0]: statics["getref"][1]}   # persist across sequences
    nobj = 0
    for si, (seq, res) in enumerate(zip(seqs, results)):
        ident = {}
        for k, (st, got) in enumerate(zip(seq, res)):
            ctx.count(1)
            want_trace, want_value = "", None
            if st["op"] == "new":
                nobj += 1
                ident[st["var"]] = "obj%d" % nobj
                flags[ident[st["var"]]] = st["args"][0][1]
                want_trace = "%s#1(%d);" % (cls, st["args"][0][1])
                want_value = {"o": cls, "flag": st["args"][0][1]}
            elif st["op"] == "meth":
                o = ident[st["var"]]
                if st["name"] == "addflag":
                    want_trace = "%s.addflag[%d](%d);" % (cls, flags[o], st["args"][0][1])
                    flags[o] += st["args"][0][1]
                    want_value = {"i": flags[o]}
                elif st["name"] == "setflag":
                    want_trace = "%s.setflag[%d](%d);" % (cls, flags[o], st["args"][0][1])
                    flags[o] = st["args"][0][1]
                else:
                    want_trace = "%s.getflag[%d]();" % (cls, flags[o])
                    want_value = {"i": flags[o]}
            elif st["op"] == "func" and st["name"] == "usecls":
                o = ident[st["args"][0][1]]
                want_trace = "usecls(%d,%d);" % (flags[o], st["args"][1][1])
                want_value = {"i": 7}
            elif st["op"] == "func":
                o = statics[st["name"]][0]
                ident[st["out"]] = o
                want_trace = "%s(%s);" % (st["name"], "" if st["name"] == "getobj" else st["args"][0][1])
                want_value = {"o": cls, "flag": flags[o]}
            elif st["op"] == "del":
                del ident[st["var"]]
            ok_ = got["r"] == "ok" and got["trace"] == want_trace and got["value"] == want_value
            if ok_ and st["op"] != "del":
                # distinct Python objects; they share a C++ object only if the library handed out the same pointer
                for pair, same in got["same"].items():
                    a, b = pair.split(",")
                    if same:
                        ok_ = False
            if not ok_:
                ctx.fail("object-state:%s:%s" % (lib.name, st.get("name", st["op"])),
                         "sequence %d step %d %s: library must see %s and Python %s; got %s" % (
                             si, k, json.dumps(st), want_trace, json.dumps(want_value), json.dumps(got)[:300]),
                         dict(replay_base, sequence=seq, step=k))
                break
            if st["op"] in ("meth", "func"):
                ctx.nontrivial("seq:%d:%d" % (si, k))
    ctx.note("object_sequences (steps over constructed and library-owned objects)", sum(len(s_) for s_ in seqs))


def load_corpus():
    """corpus lines: JSON {"key": [cls|null, name], "pos": [...], "kw": {...}|null} run against the fixed library"""
    extra = []
    path = os.path.join(common.CORPUS, "c03.txt")
    if os.path.exists(path):
        for ln in open(path):
            ln = ln.strip()
            if not ln or ln.startswith("#"):
                continue
            e = json.loads(ln)
            extra.append(((e["key"][0], e["key"][1]), {"pos": e["pos"], "kw": e["kw"], "why": "corpus"}))
    return extra


def run(ctx):
    thorough = ctx.tier == "thorough"
    DIST["overloads"].clear()
    DIST["arities"].clear()
    DIST["kinds"].clear()
    DIST["heads"].clear()
    DIST["dims"].clear()
    try:
        _changed, tstats, _live = extract_pystmts.regenerate()
        ctx.note("translator (py_statements / typemap PY_* -> Gen/PyStmts.lean)", tstats)
        ACCEPTS["i"], ACCEPTS["d"] = _live["classes"]["i"], _live["classes"]["d"]
    except (extract_pystmts.Unclassified, RuntimeError) as e:
        ctx.tie_broken("pystmts-translator", str(e)[:800])
    try:
        c03_ext.PYDESCR["rows"] = extract_pydescr.regenerate()
        ctx.note("translator (py_descr_* getter / setter clauses -> Gen/PyDescr.lean)", c03_ext.PYDESCR["rows"][1])
    except (extract_pydescr.Unclassified, RuntimeError) as e:
        ctx.tie_broken("pydescr-translator", str(e)[:800])
    ok = ctx.lean(MODULES, THEOREMS, extra_targets=("drv_pydispatch",))
    drv = common.Driver("drv_pydispatch")
    r = common.rng("c03")
    ctx.cov["trusted_base"] = [
        "Lean 4.33.0 kernel; axioms within {propext, Classical.choice, Quot.sound}",
        "hand-written models Model/PyDispatch.lean (wrap_function / multi_dispatch / struct constructor / CPython keyword parser), "
        "Model/PyList.lean (list-mode helpers), Model/PyTables.lean (format grammars, row predicates)",
        "tools/extract_pystmts.py: line pattern table (acquire / release / hand-on classification), C-API arity table, value classes per format unit",
        "folding of a list argument's post-parse conversion into the accepted classes of its unit (decided by the helper model)",
        "g++ / gcc 12 and CPython 3.12 headers for the compiled extensions and helpers; the generated subject library's trace; counting malloc/calloc/strdup/free",
    ]
    ctx.cov["rule"] = ("one evaluation = one wrapped function (or struct constructor, or overload dispatcher) whose emitted text was compared "
                       "with the model, one Python call on a compiled extension judged by the oracle and compared with the model, one "
                       "helper call on the compiled helper text, or one step of an object sequence; non-trivial = functions with a "
                       "default-argument switch / tuple return / overload dispatch, calls that use a keyword, omit a default or pass a "
                       "list, helper calls that fail or convert more than one item, method / library-object steps of a sequence.")
    ctx.assumptions += [
        "theorems are about the Lean models; the models are validated against wrapp.py / whelpers.py on generated numpy-free descriptions only",
        "table theorems hold for the tables as classified by the translator's pattern table (an unclassifiable line fails the run)",
        "argument values are inside the range of their C type (out-of-range integers raise OverflowError in CPython)",
        "first-match semantics for overloads: the first declared overload that accepts the call is the expected one",
        "a str passed where a list of strings is expected is outside the generated calls (CPython iterates it character by character)",
    ]
    if not drv.available():
        ctx.tie_broken("pydispatch-driver", "driver not built")
    libs = [pygen.fixed_cxx("fixlib"), pygen.grid_cxx(r, "gridlib")]
    if thorough:
        libs += [pygen.grid_cxx(r, "grid%d" % i) for i in range(3)]
    nrand = 24 if thorough else 3
    for i in range(nrand):
        libs.append(pygen.random_cxx(r, "rnd%d" % i, nfunc=10 if thorough else 8))
    for i in range(6 if thorough else 2):
        libs.append(pygen.random_c(r, "crn%d" % i, nfunc=10 if thorough else 6))
    extra = load_corpus()
    dis_gen, dis_call, dis_help = [], [], []
    if drv.available():
        nh = c03_helpers.run(ctx, drv, ACCEPTS, thorough, dis_help)
        ctx.note("list_helper_cases (c++ and c: get_from_object_<T>_list, fill_from_PyObject_<T>_list, to_PyList, charptr)", nh)
        ctx.note("disagreements_list_helpers", len(dis_help))
        ctx.note("char_member_assignments (struct as class, constructor and setter, c++ and c)", c03_helpers.member_oracle(ctx, thorough))
        if dis_help:
            ctx.tie_broken("pylist-helpers", dis_help[:6])
    ddrv = drv if drv.available() else _NoDriver()
    dis_imp, dis_mem = [], []
    ctx.note("implied_expression_cases (emitted assignment text + compiled calls, c++ and c)", c03_ext.implied_run(ctx, ddrv, thorough, dis_imp))
    ctx.note("disagreements_implied", len(dis_imp))
    if dis_imp:
        ctx.tie_broken("pyimplied", dis_imp[:6])
    if c03_ext.PYDESCR["rows"] is not None:
        ctx.note("struct_member_cases (entry selection, clause lengths, compiled set / get sequences, c++ and c)",
                 c03_ext.members_run(ctx, ddrv, thorough, dis_mem))
        ctx.note("disagreements_members", len(dis_mem))
        if dis_mem:
            ctx.tie_broken("pydescr", dis_mem[:6])
    ctx.note("members_without_descriptor_statements", c03_ext.unsupported_members(ctx))
    ctx.note("list_element_type_calls (compiled c++ and c: every element type of the list converters, good lists and a wrongly typed item "
             "at every index)", c03_ext.elems_run(ctx, thorough))
    for s_ in (dis_imp + dis_mem)[:3]:
        ctx.sample(s_)
    for li, lib in enumerate(libs):
        check_library(ctx, drv if drv.available() else _NoDriver(), lib, thorough, r, dis_gen, dis_call,
                      extra_calls=extra if li == 0 else ())
    # text-only tie on further descriptions (no compilation)
    ntext = 300 if thorough else 40
    tlibs = list(TEXT_LIBS)
    for i in range(ntext):
        tlibs.append(pygen.random_cxx(r, "txt%d" % i, nfunc=8) if i % 3 else pygen.random_c(r, "txc%d" % i, nfunc=8))
    for lib in tlibs:
        d = common.scratch()
        try:
            try:
                calls_rec, texts, _out = run_shroud(lib, d)
            except RuntimeError as e:
                ctx.fail("generate:" + lib.name, "Shroud fails on a valid description: " + str(e)[:600],
                         {"yaml": lib.yaml(), "library": lib.name, "language": lib.language})
                continue
            if drv.available():
                tie_emitted(ctx, drv, lib, calls_rec, texts, dis_gen, {})
        finally:
            common.rmtree(d)
    ctx.note("overload_distribution (set size, kind, #params, #defaults, first default position -> overloads)",
             dict(sorted(DIST["overloads"].items())))
    ctx.note("arities_driven (set size, #params, #defaults: #supplied, form -> valid calls)", dict(sorted(DIST["arities"].items())))
    alldef = sum(v for k, v in DIST["overloads"].items() if " first=0" in k and " n=0" not in k and not k.startswith("set=1 "))
    ctx.note("all_defaulted_overloads_in_overload_sets", alldef)
    ctx.note("parameter_and_result_kinds (compiled libraries)", dict(sorted(DIST["kinds"].items())))
    ctx.note("overload_sets_by_first_parameter_kind", dict(sorted(DIST["heads"].items())))
    ctx.note("dimension_expressions (rank: extents, v = an int argument)", dict(sorted(DIST["dims"].items())))
    ctx.note("libraries_compiled", [l.name for l in libs])
    ctx.note("libraries_text_only", len(tlibs))
    ctx.note("disagreements_emitted_text", len(dis_gen))
    ctx.note("disagreements_calls", len(dis_call))
    if dis_gen:
        ctx.tie_broken("pydispatch-emitted-text", dis_gen[:6])
    if dis_call:
        ctx.tie_broken("pydispatch-calls", dis_call[:6])
    for s in (dis_gen + dis_call)[:4]:
        ctx.sample(s)
    ctx.sample({"fixed_library": [f.decl("c++") for f in libs[0].all_functions()][:12]})


class _NoDriver:
    def available(self):
        return False

    def run(self, lines):
        return ["fmt=- kw=- cases=0:0 found=0 hasdef=0 window=0-0 build=- shape=none"] * len(lines)


def replay(path):
    d = json.load(open(path))
    for f in d.get("failing", [])[:5]:
        rp = f["replay"]
        print(f["key"], "->", f["what"])
        if "call" not in rp:
            continue
        sd = common.scratch()
        try:
            name = rp["library"]
            cxx = rp["language"] != "c"
            shroudrun.write_yaml(sd, name + ".yaml", rp["yaml"])
            open(os.path.join(sd, name + (".hpp" if cxx else ".h")), "w").write(rp["header"])
            open(os.path.join(sd, "subject." + ("cpp" if cxx else "c")), "w").write(rp["subject"])
            out = os.path.join(sd, "out")
            os.makedirs(out)
            cfg, exc, _ = shroudrun.run_inproc([os.path.join(sd, name + ".yaml")], out, path=[sd])

            class L_:
                pass
            lib = L_()
            lib.name, lib.language = name, rp["language"]
            okc, log = compile_ext(lib, sd, out)
            if not okc:
                print("  compile failed:", log[-500:])
                continue
            res = drive(sd, lib, [dict(rp["call"], i=0)])
            print("  now:", json.dumps(res[0]))
        finally:
            common.rmtree(sd)
    return 0
